(** * Properties of the Scope model (C07, C08, C09) *)
From Coq Require Import List Bool Arith PeanoNat Lia.
Import ListNotations.
From MambaModel Require Import model.Scope.

Set Implicit Arguments.

(** ** the offset map implements lexical shadowing *)

(** the lookup that [get_var] performs once the builder's global mapping is out of the way *)
Definition lookup (e : env) (x : var) : option bool :=
  match alook x (e_map e) with
  | Some o => klook (x, o) (e_vars e)
  | None => None
  end.

(** every key of [vars] belongs to a name that has a local mapping *)
Definition WF (e : env) : Prop :=
  forall x o, klook (x, o) (e_vars e) <> None -> alook x (e_map e) <> None.

Lemma WF_env0 : WF env0.
Proof. intros x o H. cbn in H. congruence. Qed.

Lemma get_var_lookup e g x : WF e -> get_var e g x = lookup e x.
Proof.
  intros W. unfold get_var, get_offset, lookup.
  destruct (alook x (e_map e)) eqn:E; [reflexivity|].
  match goal with |- ?k = None => destruct k eqn:K; [|reflexivity] end.
  exfalso.
  assert (H : klook (x, match alook x g with Some o => o | None => 0 end) (e_vars e) <> None)
    by (rewrite K; discriminate).
  exact (W _ _ H E).
Qed.

Lemma keyb_refl k : keyb k k = true.
Proof. unfold keyb. rewrite !Nat.eqb_refl. reflexivity. Qed.

Lemma keyb_fst_neq a b : fst a <> fst b -> keyb a b = false.
Proof. intros H. unfold keyb. apply Nat.eqb_neq in H. rewrite H. reflexivity. Qed.

Lemma lookup_insert_same e g m x : lookup (insert_var e g m x) x = Some m.
Proof.
  unfold lookup, insert_var. cbn. rewrite Nat.eqb_refl. cbn. rewrite keyb_refl. reflexivity.
Qed.

Lemma lookup_insert_other e g m x y : x <> y -> lookup (insert_var e g m x) y = lookup e y.
Proof.
  intros N. unfold lookup, insert_var. cbn.
  destruct (y =? x) eqn:E. { apply Nat.eqb_eq in E. congruence. }
  destruct (alook y (e_map e)); [|reflexivity].
  rewrite keyb_fst_neq; [reflexivity|]. cbn. congruence.
Qed.

Lemma WF_insert e g m x : WF e -> WF (insert_var e g m x).
Proof.
  intros W y o H. unfold insert_var in *. cbn in *.
  destruct (y =? x) eqn:E; [discriminate|].
  apply (W y o). rewrite keyb_fst_neq in H; [exact H|].
  cbn. apply Nat.eqb_neq in E. exact E.
Qed.

(** environments that differ only outside [vars]/[var_mapping] *)
Definition same_scope (e e' : env) : Prop := e_vars e = e_vars e' /\ e_map e = e_map e'.

Lemma same_scope_refl e : same_scope e e.
Proof. split; reflexivity. Qed.
Lemma same_scope_trans a b c : same_scope a b -> same_scope b c -> same_scope a c.
Proof. intros [A B] [C D]. split; congruence. Qed.
Lemma same_scope_sym a b : same_scope a b -> same_scope b a.
Proof. intros [A B]. split; congruence. Qed.
Lemma same_scope_lookup e e' x : same_scope e e' -> lookup e x = lookup e' x.
Proof. intros [A B]. unfold lookup. rewrite A, B. reflexivity. Qed.
Lemma same_scope_WF e e' : same_scope e e' -> WF e -> WF e'.
Proof. intros [A B] W x o. rewrite <- A, <- B. apply W. Qed.
Lemma same_scope_get e e' g x : same_scope e e' -> get_var e g x = get_var e' g x.
Proof. intros [A B]. unfold get_var, get_offset. rewrite A, B. reflexivity. Qed.

Lemma ss_unassigned u e : same_scope e (set_unassigned u e). Proof. split; reflexivity. Qed.
Lemma ss_caught c e : same_scope e (set_caught c e). Proof. split; reflexivity. Qed.
Lemma ss_in_fun b e : same_scope e (set_in_fun b e). Proof. split; reflexivity. Qed.
Lemma ss_in_loop b e : same_scope e (set_in_loop b e). Proof. split; reflexivity. Qed.
Lemma ss_has_ret b e : same_scope e (set_has_ret b e). Proof. split; reflexivity. Qed.
Lemma ss_join e u : same_scope e (join_unassigned e u).
Proof. destruct u; split; reflexivity. Qed.
#[export] Hint Resolve same_scope_refl ss_unassigned ss_caught ss_in_fun ss_in_loop ss_has_ret ss_join : scope.

(** *** [shadowing_sound]: the newest definition is the visible one, the others are untouched,
    whatever the builder's global mapping holds (hence also in branch-local copies of the
    environment, which differ from the outer one only by further insertions). *)
Theorem shadowing_sound e g m x :
  WF e ->
  let e' := fst (define m (e, g) x) in
  WF e' /\
  get_var e' (snd (define m (e, g) x)) x = Some m /\
  (forall g', get_var e' g' x = Some m) /\
  (forall y g', y <> x -> get_var e' g' y = lookup e y).
Proof.
  intros W e'. unfold define in *. cbn [fst snd] in *.
  assert (W' : WF e') by (apply WF_insert; exact W).
  split; [exact W'|]. split; [|split].
  - rewrite get_var_lookup by exact W'. apply lookup_insert_same.
  - intros g'. rewrite get_var_lookup by exact W'. apply lookup_insert_same.
  - intros y g' N. rewrite get_var_lookup by exact W'. apply lookup_insert_other. congruence.
Qed.

(** ** scope stacks *)
Definition sim (e : env) (st : stack) : Prop := forall x, lookup e x = vis st x.

Lemma sim_scope e e' st : same_scope e e' -> sim e st -> sim e' st.
Proof. intros S H x. rewrite <- (same_scope_lookup x S). apply H. Qed.

Lemma sim_push e st : sim e st -> sim e ([] :: st).
Proof. intros H x. cbn. apply H. Qed.

Lemma alook_cons_same {A} x (v : A) l : alook x ((x, v) :: l) = Some v.
Proof. cbn. rewrite Nat.eqb_refl. reflexivity. Qed.
Lemma alook_cons_other {A} x y (v : A) l : x <> y -> alook y ((x, v) :: l) = alook y l.
Proof. intros N. cbn. destruct (y =? x) eqn:E; [apply Nat.eqb_eq in E; congruence|reflexivity]. Qed.

Lemma sim_define e g m x f r :
  sim e (f :: r) -> sim (fst (define m (e, g) x)) (step (f :: r) (EvDef m x)).
Proof.
  intros H y. unfold define. cbn [fst snd step vis].
  destruct (Nat.eq_dec x y) as [->|N].
  - rewrite lookup_insert_same, alook_cons_same. reflexivity.
  - rewrite lookup_insert_other by exact N. rewrite alook_cons_other by exact N. apply (H y).
Qed.

Lemma run_app st a b : run st (a ++ b) = run (run st a) b.
Proof. apply fold_left_app. Qed.
Lemma frun_app fs a b : frun fs (a ++ b) = frun (frun fs a) b.
Proof. apply fold_left_app. Qed.

Lemma all_events_app P st fs a b :
  all_events P st fs (a ++ b) <-> all_events P st fs a /\ all_events P (run st a) (frun fs a) b.
Proof.
  revert st fs. induction a as [|ev a IH]; intros st fs; cbn.
  - tauto.
  - rewrite IH. tauto.
Qed.

Lemma all_events_and P Q st fs t :
  all_events (fun s f ev => P s f ev /\ Q s f ev) st fs t <-> all_events P st fs t /\ all_events Q st fs t.
Proof.
  revert st fs. induction t as [|ev t IH]; intros st fs; cbn; [tauto|]. rewrite IH. tauto.
Qed.

Lemma all_events_impl (P Q : stack -> list fname -> event -> Prop) st fs t :
  (forall s f ev, P s f ev -> Q s f ev) -> all_events P st fs t -> all_events Q st fs t.
Proof.
  intros H. revert st fs. induction t as [|ev t IH]; intros st fs; cbn; [tauto|].
  intros [A B]. split; [apply H; exact A|apply IH; exact B].
Qed.

(** events that touch neither the scope stack nor the function list *)
Definition inert_ev (ev : event) : Prop :=
  match ev with EvPush | EvPop | EvDef _ _ | EvDefF _ => False | _ => True end.
Definition inert (t : trace) : Prop := Forall inert_ev t.

Lemma inert_run st t : inert t -> run st t = st.
Proof.
  intros H. revert st. induction H as [|ev t E _ IH]; intros st; [reflexivity|].
  cbn. rewrite <- (IH st) at 2. destruct ev; cbn in E; try contradiction; reflexivity.
Qed.
Lemma inert_frun fs t : inert t -> frun fs t = fs.
Proof.
  intros H. revert fs. induction H as [|ev t E _ IH]; intros fs; [reflexivity|].
  cbn. rewrite <- (IH fs) at 2. destruct ev; cbn in E; try contradiction; reflexivity.
Qed.
Lemma inert_app a b : inert a -> inert b -> inert (a ++ b).
Proof. apply Forall_app_intro || (intros; apply Forall_app; split; assumption). Qed.

Lemma all_events_inert P st fs t : inert t -> (all_events P st fs t <-> Forall (P st fs) t).
Proof.
  intros H. revert st fs. induction H as [|ev t E I IH]; intros st fs; cbn.
  - split; auto.
  - assert (S1 : step st ev = st) by (destruct ev; cbn in E; try contradiction; reflexivity).
    assert (S2 : fstep fs ev = fs) by (destruct ev; cbn in E; try contradiction; reflexivity).
    rewrite S1, S2, IH. split.
    + intros [A B]. constructor; assumption.
    + intros F. inversion F; subst. split; assumption.
Qed.

(** ** what the checker guarantees about variables (C07 and C09 together) *)
Definition var_ok (st : stack) (fs : list fname) (ev : event) : Prop :=
  match ev with
  | EvRead x => vis st x <> None
  | EvWrite x => vis st x = Some true
  | EvWriteFld r _ => vis st r = Some true
  | _ => True
  end.

Scheme eruns_mind := Minimality for eruns Sort Prop
  with esruns_mind := Minimality for esruns Sort Prop.
Combined Scheme eruns_esruns_ind from eruns_mind, esruns_mind.

Section WithTabs.
Variable T : tabs.

Lemma eruns_inert infun G :
  (forall x t o, eruns T infun G x t o -> inert t) /\
  (forall xs t o, esruns T infun G xs t o -> inert t).
Proof.
  apply eruns_esruns_ind; intros; unfold inert in *; destruct infun;
    repeat first [ assumption | apply Forall_nil | apply Forall_cons; [exact I|]
                 | apply Forall_app; split ].
Qed.

Lemma eruns_var_ok strict e g st fs infun G :
  WF e -> sim e st ->
  (forall x t o, eruns T infun G x t o ->
     check_expr T strict e g x = None -> Forall (var_ok st fs) t) /\
  (forall xs t o, esruns T infun G xs t o ->
     check_exprs T strict e g xs = None -> Forall (var_ok st fs) t).
Proof.
  intros W S.
  assert (RD : forall v, get_var e g v <> None -> vis st v <> None).
  { intros v H. rewrite get_var_lookup in H by exact W. rewrite <- (S v). exact H. }
  apply eruns_esruns_ind; intros; cbn [check_expr check_exprs] in *.
  - constructor.
  - constructor; [|constructor]. cbn. apply RD.
    destruct (get_var e g x); [discriminate|discriminate].
  - destruct (check_expr T strict e g b); [discriminate|]. auto.
  - destruct (check_expr T strict e g b) eqn:E; [discriminate|].
    apply Forall_app; split; auto.
  - destruct (check_exprs T strict e g args); [discriminate|]. auto.
  - destruct (check_exprs T strict e g args); [discriminate|].
    apply Forall_app; split; [auto|]. destruct infun; repeat constructor.
  - destruct (check_exprs T strict e g args); [discriminate|].
    apply Forall_app; split; [auto|]. destruct infun; repeat constructor.
  - auto.
  - destruct (check_exprs T strict e g args) eqn:E; [discriminate|].
    constructor; [|auto]. cbn. apply RD. destruct (get_var e g r); [discriminate|discriminate].
  - destruct (check_exprs T strict e g args) eqn:E; [discriminate|].
    constructor; [|auto]. cbn. apply RD. destruct (get_var e g r); [discriminate|discriminate].
  - destruct (check_exprs T strict e g args) eqn:E; [discriminate|].
    constructor; [|apply Forall_app; split; [auto|repeat constructor]].
    cbn. apply RD. destruct (get_var e g r); [discriminate|discriminate].
  - constructor; [|constructor]. cbn. apply RD.
    destruct ((r =? SELF) && mem f (e_unassigned e)); [discriminate|].
    destruct (get_var e g r); [discriminate|discriminate].
  - constructor.
  - destruct (check_expr T strict e g x); [discriminate|]. auto.
  - destruct (check_expr T strict e g x) eqn:E; [discriminate|].
    apply Forall_app; split; auto.
Qed.

Lemma eruns_ok strict e g st fs infun G x t o :
  WF e -> sim e st -> eruns T infun G x t o -> check_expr T strict e g x = None ->
  inert t /\ Forall (var_ok st fs) t.
Proof.
  intros W S R C. split.
  - eapply (proj1 (eruns_inert infun G)); exact R.
  - eapply (proj1 (eruns_var_ok strict g fs infun G W S)); eassumption.
Qed.

End WithTabs.

(** [var_ok] does not look at the function list *)
Lemma var_ok_fs st fs fs' t : all_events var_ok st fs t -> all_events var_ok st fs' t.
Proof.
  revert st fs fs'. induction t as [|ev t IH]; intros st fs fs'; cbn; [tauto|].
  intros [A B]. split; [destruct ev; exact A|eapply IH; exact B].
Qed.

Lemma ae_inert st fs t : inert t -> Forall (var_ok st fs) t -> all_events var_ok st fs t.
Proof. intros I F. apply all_events_inert; assumption. Qed.

Lemma ae_app st st' fs a b :
  all_events var_ok st fs a -> run st a = st' -> all_events var_ok st' fs b ->
  all_events var_ok st fs (a ++ b).
Proof.
  intros A R B. apply all_events_app. split; [exact A|]. rewrite R. eapply var_ok_fs; exact B.
Qed.

Lemma ae_app_inert st fs a b :
  inert a -> Forall (var_ok st fs) a -> all_events var_ok st fs b -> all_events var_ok st fs (a ++ b).
Proof.
  intros I F B. eapply ae_app; [apply ae_inert; eassumption|apply inert_run; exact I|exact B].
Qed.

Lemma ae_scoped st fs t : all_events var_ok ([] :: st) fs t -> all_events var_ok st fs (scoped t).
Proof.
  intros H. unfold scoped. cbn. split; [exact I|].
  apply all_events_app. split; [exact H|]. cbn. auto.
Qed.

Lemma run_scoped f r t :
  (exists f', run ([] :: f :: r) t = f' :: f :: r) -> run (f :: r) (scoped t) = f :: r.
Proof.
  intros [f' H]. unfold scoped. cbn [run fold_left step].
  change (fold_left step (t ++ [EvPop]) ([] :: f :: r)) with (run ([] :: f :: r) (t ++ [EvPop])).
  rewrite run_app, H. reflexivity.
Qed.

Lemma ae_defs st fs m p : all_events var_ok st fs (defs m p).
Proof. revert st fs. induction p as [|x p IH]; intros; cbn; auto. Qed.
Lemma ae_pdefs st fs ps : all_events var_ok st fs (pdefs ps).
Proof. revert st fs. induction ps as [|x p IH]; intros; cbn; auto. Qed.
Lemma ae_bdef st fs b : all_events var_ok st fs (bdef b).
Proof. destruct b as [[m x]|]; cbn; auto. Qed.

(** definitions on the model side and on the stack side *)
Lemma define_fold_sim m p : forall eg f r,
  WF (fst eg) -> sim (fst eg) (f :: r) ->
  let eg' := fold_left (define m) p eg in
  WF (fst eg') /\ exists f', run (f :: r) (defs m p) = f' :: r /\ sim (fst eg') (f' :: r).
Proof.
  induction p as [|x p IH]; intros [e g] f r W S; cbn [fold_left defs map].
  - split; [exact W|]. exists f. split; [reflexivity|exact S].
  - cbn [fst] in *.
    assert (W1 : WF (fst (define m (e, g) x))) by (apply WF_insert; exact W).
    assert (S1 := sim_define g m x S). cbn [step] in S1.
    destruct (IH (define m (e, g) x) ((x, m) :: f) r W1 S1) as [W2 [f' [R2 S2]]].
    split; [exact W2|]. exists f'. split; [|exact S2]. cbn [run fold_left step]. exact R2.
Qed.

Lemma define_all_sim m p e g f r :
  WF e -> sim e (f :: r) ->
  WF (fst (define_all m e g p)) /\
  exists f', run (f :: r) (defs m p) = f' :: r /\ sim (fst (define_all m e g p)) (f' :: r).
Proof. intros W S. exact (define_fold_sim m p (e, g) W S). Qed.

Lemma bind_arm_sim e g b f r :
  WF e -> sim e (f :: r) ->
  WF (fst (bind_arm e g b)) /\
  exists f', run (f :: r) (bdef b) = f' :: r /\ sim (fst (bind_arm e g b)) (f' :: r).
Proof.
  intros W S. destruct b as [[m x]|]; cbn [bind_arm bdef].
  - split; [apply WF_insert; exact W|]. eexists. split; [reflexivity|]. exact (sim_define g m x S).
  - split; [exact W|]. exists f. split; [reflexivity|exact S].
Qed.

(** environments that agree on what C08 looks at *)
Definition same_guard (e e' : env) : Prop := e_caught e = e_caught e' /\ e_in_fun e = e_in_fun e'.

Lemma define_fold_guard m p : forall eg, same_guard (fst eg) (fst (fold_left (define m) p eg)).
Proof.
  induction p as [|x p IH]; intros [e g]; cbn [fold_left]; [split; reflexivity|].
  destruct (IH (define m (e, g) x)) as [A B]. split; [rewrite <- A|rewrite <- B]; reflexivity.
Qed.

Lemma check_params_sim ps : forall e g e1 g1 f r,
  check_params e g ps = Ok (e1, g1) -> WF e -> sim e (f :: r) ->
  WF e1 /\ same_guard e e1 /\
  exists f', run (f :: r) (pdefs ps) = f' :: r /\ sim e1 (f' :: r).
Proof.
  induction ps as [|[m x] ps IH]; intros e g e1 g1 f r C W S; cbn [check_params pdefs map] in *.
  - inversion C; subst. split; [exact W|]. split; [split; reflexivity|]. exists f. split; [reflexivity|exact S].
  - destruct ((x =? SELF) && negb (e_in_class e)); [discriminate|].
    assert (W1 : WF (fst (define m (e, g) x))) by (apply WF_insert; exact W).
    assert (S1 := sim_define g m x S). cbn [step] in S1.
    destruct (IH _ _ _ _ _ _ C W1 S1) as [W2 [[G1 G2] [f' [R2 S2]]]].
    split; [exact W2|]. split; [split; [rewrite <- G1|rewrite <- G2]; reflexivity|].
    exists f'. split; [|exact S2]. cbn [run fold_left step fst snd]. exact R2.
Qed.

(** check_iden_mut + the read of the left-hand side: every target is a visible mutable definition *)
Lemma iden_mut_reads e g p :
  check_iden_mut e g p = None -> check_reads e g p = None ->
  forall x, In x p -> get_var e g x = Some true.
Proof.
  induction p as [|y p IH]; intros A B x I; [destruct I|].
  cbn [check_iden_mut check_reads] in *.
  destruct (get_var e g y) as [[|]|] eqn:E; try discriminate.
  destruct I as [->|I]; [exact E|]. apply IH; assumption.
Qed.

Ltac inv H := inversion H; subst; clear H.

Lemma inert_writes p : inert (map EvWrite p).
Proof.
  apply Forall_forall. intros ev HI. apply in_map_iff in HI. destruct HI as [? [<- _]]. exact I.
Qed.

Section WithTabs2.
Variable T : tabs.

Lemma xruns_balanced infun G x t o f r :
  xruns T infun G x t o ->
  (o = Abr -> run (f :: r) t = f :: r) /\ exists f', run (f :: r) t = f' :: r.
Proof.
  assert (DF : forall m p f, exists f', run (f :: r) (defs m p) = f' :: r).
  { intros m p. induction p as [|y p IH]; intros f0; cbn; [eauto|]. apply IH. }
  assert (EI := fun x t o H => proj1 (eruns_inert T infun G) x t o H).
  intros R. inv R;
    repeat match goal with H : eruns _ _ _ _ _ _ |- _ => apply EI in H end.
  all: try (split; [intros _|eexists]; apply inert_run; unfold inert in *;
            repeat first [ assumption | apply inert_writes | apply Forall_nil
                         | apply Forall_cons; [exact I|] | apply Forall_app; split ]; fail).
  - split; [discriminate|]. apply DF.
  - split; [discriminate|]. rewrite run_app, (inert_run _ H). apply DF.
Qed.

Ltac use_EO ss cx :=
  match goal with
  | EO : forall e', same_scope _ e' -> _, HR : eruns _ _ _ _ _ _ |- _ =>
      destruct (EO _ ss _ _ _ HR cx) as [I1 F1]
  end.

Lemma simple_sound strict e g x e1 g1 f r fs infun G :
  WF e -> sim e (f :: r) -> check_simple T strict e g x = Ok (e1, g1) ->
  WF e1 /\
  (exists f', run (f :: r) (predecl x) = f' :: r /\ sim e1 (f' :: r)) /\
  (forall t o, xruns T infun G x t o ->
     all_events var_ok (f :: r) fs t /\
     (o = Norm -> exists f', run (f :: r) t = f' :: r /\ sim e1 (f' :: r))).
Proof.
  intros W S C.
  assert (RD : forall e', same_scope e e' -> forall v b, get_var e' g v = Some b -> vis (f :: r) v = Some b).
  { intros e' SS v b H. rewrite <- (same_scope_get g v SS) in H.
    rewrite get_var_lookup in H by exact W. rewrite <- (S v). exact H. }
  assert (EO : forall e', same_scope e e' -> forall x t o, eruns T infun G x t o ->
                 check_expr T strict e' g x = None -> inert t /\ Forall (var_ok (f :: r) fs) t).
  { intros e' SS y t o R Cx. eapply eruns_ok with (e := e'); [| |exact R|exact Cx].
    - eapply same_scope_WF; eassumption.
    - eapply sim_scope; eassumption. }
  assert (SAME : forall e', same_scope e e' ->
            WF e' /\ (exists f', run (f :: r) [] = f' :: r /\ sim e' (f' :: r))).
  { intros e' SS. split; [eapply same_scope_WF; eassumption|].
    exists f. split; [reflexivity|eapply sim_scope; eassumption]. }
  destruct x; cbn [check_simple predecl] in C |- *.
  - (* XExpr *)
    destruct (check_expr T strict e g e0) eqn:Cx; [discriminate|]. injection C as <- <-.
    destruct (SAME e (same_scope_refl e)) as [W1 P1]. split; [exact W1|]. split; [exact P1|].
    intros t o R. inv R. use_EO (same_scope_refl e) Cx.
    split; [apply ae_inert; assumption|]. intros _. rewrite inert_run by exact I1.
    exists f. split; [reflexivity|exact S].
  - (* XDef *)
    destruct (oexpr T strict e g init) eqn:Cx; [discriminate|].
    assert (C' : Ok (define_all m e g p) = Ok (e1, g1)).
    { destruct p; destruct init; try discriminate; exact C. }
    inv C'. destruct (define_all_sim m p g W S) as [W1 [f' [R1 S1]]].
    rewrite H0 in *. cbn [fst] in *.
    split; [exact W1|]. split; [exists f'; split; assumption|].
    intros t o R. inv R.
    + split; [apply ae_defs|]. intros _. exists f'. split; assumption.
    + cbn [oexpr] in Cx. use_EO (same_scope_refl e) Cx.
      split; [apply ae_inert; assumption|]. discriminate.
    + cbn [oexpr] in Cx. use_EO (same_scope_refl e) Cx.
      split; [apply ae_app_inert; [assumption|assumption|apply ae_defs]|].
      intros _. rewrite run_app, (inert_run _ I1). exists f'. split; assumption.
  - (* XAssign *)
    destruct (check_iden_mut e g p) eqn:CI; [discriminate|].
    destruct (check_expr T strict e g e0) eqn:Cx; [discriminate|].
    destruct (check_reads e g p) eqn:CR; [discriminate|]. injection C as <- <-.
    destruct (SAME e (same_scope_refl e)) as [W1 P1]. split; [exact W1|]. split; [exact P1|].
    intros t o R. inv R.
    + use_EO (same_scope_refl e) Cx.
      split; [apply ae_inert; assumption|]. discriminate.
    + use_EO (same_scope_refl e) Cx.
      assert (IW := inert_writes p).
      assert (FW : Forall (var_ok (f :: r) fs) (map EvWrite p)).
      { apply Forall_forall. intros ev HI. apply in_map_iff in HI. destruct HI as [y [<- HI]].
        cbn. apply (RD e (same_scope_refl e)). apply iden_mut_reads with (p := p); assumption. }
      split.
      * apply ae_inert; [apply inert_app; assumption|apply Forall_app; split; assumption].
      * intros _. rewrite inert_run by (apply inert_app; assumption).
        exists f. split; [reflexivity|exact S].
  - (* XAug *)
    destruct (check_iden_mut e g [x]) eqn:CI; [discriminate|].
    destruct (check_expr T strict e g (EBin (ERead x) e0)) eqn:Cx; [discriminate|]. injection C as <- <-.
    cbn [check_expr] in Cx.
    destruct (check_expr T strict e g e0) eqn:Cx0; [discriminate|].
    cbn [check_iden_mut] in CI.
    assert (GV : get_var e g x = Some true).
    { destruct (get_var e g x) as [[|]|]; try discriminate; reflexivity. }
    destruct (SAME e (same_scope_refl e)) as [W1 P1]. split; [exact W1|]. split; [exact P1|].
    assert (VX := RD e (same_scope_refl e) _ _ GV).
    intros t o R. inv R; use_EO (same_scope_refl e) Cx0.
    + split; [|discriminate]. apply ae_inert; [constructor; [exact I|assumption]|].
      constructor; [cbn [var_ok]; congruence|assumption].
    + assert (I2 : inert (EvRead x :: t0 ++ [EvWrite x])).
      { constructor; [exact I|]. apply inert_app; [assumption|repeat constructor]. }
      split.
      * apply ae_inert; [exact I2|]. constructor; [cbn [var_ok]; congruence|].
        apply Forall_app; split; [assumption|]. constructor; [exact VX|constructor].
      * intros _. rewrite inert_run by exact I2. exists f. split; [reflexivity|exact S].
  - (* XFieldSet *)
    destruct (check_iden_mut e g [r0]) eqn:CI; [discriminate|].
    remember (if r0 =? SELF then set_unassigned (remove_all f0 (e_unassigned e)) e else e) as e2 eqn:E2.
    assert (SS : same_scope e e2) by (subst e2; destruct (r0 =? SELF); auto with scope).
    destruct (check_expr T strict e2 g e0) eqn:Cx; [discriminate|].
    destruct (get_var e2 g r0) eqn:GV; [|discriminate]. injection C as <- <-.
    cbn [check_iden_mut] in CI. rewrite (same_scope_get g r0 SS), GV in CI.
    assert (b = true) by (destruct b; [reflexivity|discriminate]). subst b.
    destruct (SAME e2 SS) as [W1 P1]. split; [exact W1|]. split; [exact P1|].
    assert (VX := RD e2 SS _ _ GV).
    intros t o R. inv R; use_EO SS Cx.
    + split; [apply ae_inert; assumption|discriminate].
    + assert (I2 : inert (t0 ++ [EvRead r0; EvWriteFld r0 f0])).
      { apply inert_app; [assumption|repeat constructor]. }
      split.
      * apply ae_inert; [exact I2|]. apply Forall_app; split; [assumption|].
        constructor; [cbn [var_ok]; congruence|]. constructor; [exact VX|constructor].
      * intros _. rewrite inert_run by exact I2. exists f. split; [reflexivity|].
        eapply sim_scope; eassumption.
  - (* XReturn *)
    assert (E1 : e1 = e /\ g1 = g).
    { destruct e0; destruct (e_has_ret e); try discriminate.
      - destruct (check_expr T strict e g e0); [discriminate|]. injection C as <- <-. auto.
      - destruct (e_in_fun e); [|discriminate]. injection C as <- <-. auto. }
    destruct E1 as [-> ->].
    destruct (SAME e (same_scope_refl e)) as [W1 P1]. split; [exact W1|]. split; [exact P1|].
    intros t o R. inv R; [split; [exact I|discriminate]|].
    destruct (e_has_ret e); [|discriminate].
    destruct (check_expr T strict e g x) eqn:Cx; [discriminate|].
    use_EO (same_scope_refl e) Cx.
    split; [apply ae_inert; assumption|discriminate].
  - (* XRaise *)
    destruct (check_raises T e [c]); [discriminate|]. injection C as <- <-.
    destruct (SAME e (same_scope_refl e)) as [W1 P1]. split; [exact W1|]. split; [exact P1|].
    intros t o R. inv R. split; [cbn; auto|discriminate].
  - (* XPass *)
    injection C as <- <-.
    destruct (SAME e (same_scope_refl e)) as [W1 P1]. split; [exact W1|]. split; [exact P1|].
    intros t o R. inv R. split; [exact I|]. intros _. exists f. split; [reflexivity|exact S].
Qed.

End WithTabs2.

Scheme sruns_mind := Minimality for sruns Sort Prop
  with ssruns_mind := Minimality for ssruns Sort Prop
  with aruns_mind := Minimality for aruns Sort Prop
  with hruns_mind := Minimality for hruns Sort Prop
  with floop_mind := Minimality for floop Sort Prop.
Combined Scheme runs_ind from sruns_mind, ssruns_mind, aruns_mind, hruns_mind, floop_mind.

Ltac chk H :=
  cbn [check_stmt check_stmts check_arms check_harms m_restore m_methods repaired restored as_is] in H;
  repeat match type of H with
  | match ?x with _ => _ end = Ok _ =>
      first [ is_var x; let ea := fresh "ce" in let ga := fresh "cg" in destruct x as [ea ga]
            | let E := fresh "E" in destruct x eqn:E; try discriminate ]
  end.

Section WithTabs3.
Variable T : tabs.

(** traces are balanced: a statement changes only the top frame, a scoped piece nothing *)
Lemma runs_balanced :
  (forall infun G s t o, sruns T infun G s t o -> forall fr rr, exists f', run (fr :: rr) t = f' :: rr) /\
  (forall infun G ss t o, ssruns T infun G ss t o -> forall fr rr, exists f', run (fr :: rr) t = f' :: rr) /\
  (forall infun G a t o, aruns T infun G a t o -> forall fr rr, run (fr :: rr) t = fr :: rr) /\
  (forall infun G hs t o, hruns T infun G hs t o -> forall fr rr, run (fr :: rr) t = fr :: rr) /\
  (forall infun G p b t o, floop T infun G p b t o -> forall fr rr, run (fr :: rr) t = fr :: rr).
Proof.
  assert (EI := fun infun G x t o H => proj1 (eruns_inert T infun G) x t o H).
  assert (DF : forall m p f r, exists f', run (f :: r) (defs m p) = f' :: r).
  { intros m p. induction p as [|y p IH]; intros f0 r; cbn; [eauto|]. apply IH. }
  assert (PF : forall ps f r, exists f', run (f :: r) (pdefs ps) = f' :: r).
  { intros ps. induction ps as [|y p IH]; intros f0 r; cbn; [eauto|]. apply IH. }
  assert (BF : forall b f r, exists f', run (f :: r) (bdef b) = f' :: r).
  { intros [[m x]|] f0 r; cbn; eauto. }
  assert (SC : forall pre t, (forall f r, exists f', run (f :: r) pre = f' :: r) ->
             (forall fr rr, exists f', run (fr :: rr) t = f' :: rr) ->
             forall f r, run (f :: r) (scoped (pre ++ t)) = f :: r).
  { intros pre t HP HT f r. apply run_scoped.
    destruct (HP [] (f :: r)) as [f1 E1]. destruct (HT f1 (f :: r)) as [f2 E2].
    exists f2. rewrite run_app. etransitivity; [|exact E2]. f_equal. exact E1. }
  apply runs_ind; intros;
    repeat match goal with H : eruns _ _ _ _ _ _ |- _ => apply EI in H end.
  - (* simple *) eapply xruns_balanced; eassumption.
  - eapply xruns_balanced; eassumption.
  - (* handle catch *)
    rewrite !run_app. destruct (xruns_balanced fr rr H) as [HA _]. rewrite (HA eq_refl).
    assert (exists f', run (fr :: rr) (predecl x) = f' :: rr) as [f1 ->].
    { destruct x; cbn [predecl]; try (exists fr; reflexivity). apply DF. }
    rewrite H1. eauto.
  - exists fr. apply inert_run; assumption.
  - exists fr. apply inert_run; assumption.
  - exists fr. rewrite run_app, (inert_run _ H). apply (SC [] tt); [intros; cbn; eauto|assumption].
  - exists fr. apply inert_run; assumption.
  - exists fr. rewrite run_app, (inert_run _ H). apply (SC [] tt); [intros; cbn; eauto|assumption].
  - exists fr. rewrite run_app, (inert_run _ H). apply (SC [] tt); [intros; cbn; eauto|assumption].
  - exists fr. apply inert_run; assumption.
  - exists fr. apply inert_run; assumption.
  - exists fr. rewrite run_app, (inert_run _ H). apply H1.
  - exists fr. apply inert_run; assumption.
  - exists fr. rewrite run_app, (inert_run _ H). apply (SC [] tb); [intros; cbn; eauto|assumption].
  - rewrite !run_app, (inert_run _ H).
    change (scoped tb) with (scoped ([] ++ tb)). rewrite (SC [] tb); [apply H3|intros; cbn; eauto|assumption].
  - exists fr. apply inert_run; assumption.
  - exists fr. rewrite run_app, (inert_run _ H). apply H1.
  - exists fr. reflexivity.
  - exists fr. cbn [run fold_left step].
    change (fold_left step (scoped (pdefs ps ++ tb)) (fr :: rr)) with (run (fr :: rr) (scoped (pdefs ps ++ tb))).
    apply SC; [apply PF|assumption].
  - exists fr. reflexivity.
  - apply H0.
  - rewrite run_app. destruct (H0 fr rr) as [f1 ->]. apply H2.
  - apply SC; [apply BF|assumption].
  - apply H0.
  - apply SC; [apply BF|assumption].
  - apply H0.
  - reflexivity.
  - apply SC; [apply DF|assumption].
  - rewrite run_app, SC; [apply H2|apply DF|assumption].
Qed.


Lemma define_fold_WF m p : forall eg, WF (fst eg) -> WF (fst (fold_left (define m) p eg)).
Proof.
  induction p as [|x p IH]; intros [e g] W; cbn [fold_left]; [exact W|].
  apply IH. apply WF_insert. exact W.
Qed.

Lemma check_params_WF ps : forall e g e1 g1, check_params e g ps = Ok (e1, g1) -> WF e -> WF e1.
Proof.
  induction ps as [|[m x] ps IH]; intros e g e1 g1 C W; cbn [check_params] in C.
  - injection C as <- <-. exact W.
  - destruct ((x =? SELF) && negb (e_in_class e)); [discriminate|].
    eapply IH; [exact C|]. apply WF_insert. exact W.
Qed.

Lemma check_simple_WF strict e g x e1 g1 :
  check_simple T strict e g x = Ok (e1, g1) -> WF e -> WF e1.
Proof.
  intros C W. destruct x; cbn [check_simple] in C;
    repeat match type of C with
    | match ?x with _ => _ end = Ok _ => destruct x eqn:?; try discriminate
    | (if ?x then _ else _) = Ok _ => destruct x eqn:?; try discriminate
    end;
    try (injection C as <- <-); try exact W;
    try (apply (define_fold_WF _ _ (_, _)); exact W);
    try (eapply same_scope_WF; [apply ss_unassigned|exact W]).
  - injection C as C. change e1 with (fst (e1, g1)). rewrite <- C. apply (define_fold_WF _ _ (_, _)). exact W.
  - destruct (r =? SELF); [eapply same_scope_WF; [apply ss_unassigned|exact W]|exact W].
Qed.

Scheme stmt_sind := Induction for stmt Sort Prop
  with stmts_sind := Induction for stmts Sort Prop
  with arms_sind := Induction for arms Sort Prop
  with harms_sind := Induction for harms Sort Prop.
Combined Scheme syntax_ind from stmt_sind, stmts_sind, arms_sind, harms_sind.

Lemma check_WF :
  (forall s strict e g e' g', check_stmt T strict e g s = Ok (e', g') -> WF e -> WF e') /\
  (forall ss strict e g e' g', check_stmts T strict e g ss = Ok (e', g') -> WF e -> WF e') /\
  (forall a : arms, True) /\ (forall h : harms, True).
Proof.
  apply syntax_ind; try (intros; exact I).
  - intros x strict e g e' g' C W. eapply check_simple_WF; eassumption.
  - intros x hs _ strict e g e' g' C W. chk C. rename ce into e1, cg into g1, ce0 into u, cg0 into g2.
    injection C as <- <-.
    assert (W1 : WF e1).
    { eapply check_simple_WF; [exact E|]. eapply same_scope_WF; [apply ss_caught|exact W]. }
    destruct (m_restore strict); (eapply same_scope_WF; [|exact W1]);
      (eapply same_scope_trans; [apply ss_caught|apply ss_join]).
  - intros c t _ strict e g e' g' C W. chk C. injection C as <- <-. exact W.
  - intros c t _ el _ strict e g e' g' C W. chk C. injection C as <- <-.
    eapply same_scope_WF; [apply ss_unassigned|exact W].
  - intros c a _ strict e g e' g' C W. chk C. injection C as <- <-.
    eapply same_scope_WF; [apply ss_join|exact W].
  - intros c b _ strict e g e' g' C W. chk C. injection C as <- <-. exact W.
  - intros p col b _ strict e g e' g' C W. chk C. injection C as <- <-. exact W.
  - intros f ps rs ret b _ strict e g e' g' C W. chk C. injection C as <- <-. exact W.
  - intros strict e g e' g' C W. cbn [check_stmts] in C. injection C as <- <-. exact W.
  - intros s IHs ss IHss strict e g e' g' C W. chk C. rename ce into e1, cg into g1.
    eapply IHss; [exact C|]. eapply IHs; eassumption.
Qed.

Lemma run_scoped_body infun G ss t o pre fr rr :
  ssruns T infun G ss t o -> (forall f r, exists f', run (f :: r) pre = f' :: r) ->
  run (fr :: rr) (scoped (pre ++ t)) = fr :: rr.
Proof.
  intros R HP. apply run_scoped.
  destruct (HP [] (fr :: rr)) as [f1 E1].
  destruct (proj1 (proj2 runs_balanced) _ _ _ _ _ R f1 (fr :: rr)) as [f2 E2].
  exists f2. rewrite run_app. etransitivity; [|exact E2]. f_equal. exact E1.
Qed.

Lemma run_scoped_body0 infun G ss t o fr rr :
  ssruns T infun G ss t o -> run (fr :: rr) (scoped t) = fr :: rr.
Proof.
  intros R. change (scoped t) with (scoped ([] ++ t)).
  eapply run_scoped_body; [exact R|]. intros f r. exists f. reflexivity.
Qed.

Definition Vs (infun : bool) (G : list cls) (s : stmt) (t : trace) (o : outcome) : Prop :=
  forall strict e g e' g' fr rr fs, WF e -> sim e (fr :: rr) ->
    check_stmt T strict e g s = Ok (e', g') ->
    all_events var_ok (fr :: rr) fs t /\ WF e' /\
    (o = Norm -> exists f', run (fr :: rr) t = f' :: rr /\ sim e' (f' :: rr)).
Definition Vss (infun : bool) (G : list cls) (ss : stmts) (t : trace) (o : outcome) : Prop :=
  forall strict e g e' g' fr rr fs, WF e -> sim e (fr :: rr) ->
    check_stmts T strict e g ss = Ok (e', g') ->
    all_events var_ok (fr :: rr) fs t /\ WF e' /\
    (o = Norm -> exists f', run (fr :: rr) t = f' :: rr /\ sim e' (f' :: rr)).
Definition Va (infun : bool) (G : list cls) (a : arms) (t : trace) (o : outcome) : Prop :=
  forall strict e g u g' fr rr fs, WF e -> sim e (fr :: rr) ->
    check_arms T strict e g a = Ok (u, g') -> all_events var_ok (fr :: rr) fs t.
Definition Vh (infun : bool) (G : list cls) (hs : harms) (t : trace) (o : outcome) : Prop :=
  forall strict e g u g' fr rr fs, WF e -> sim e (fr :: rr) ->
    check_harms T strict e g hs = Ok (u, g') -> all_events var_ok (fr :: rr) fs t.
Definition Vf (infun : bool) (G : list cls) (p : list var) (b : stmts) (t : trace) (o : outcome) : Prop :=
  forall strict e g x g' fr rr fs, WF e -> sim e (fr :: rr) ->
    check_stmts T strict (set_in_loop true (fst (define_all true e g p))) (snd (define_all true e g p)) b
      = Ok (x, g') ->
    all_events var_ok (fr :: rr) fs t.


(** the body of a compound statement, run in its own scope under an environment of the same scope *)
Lemma body_scoped infun G ss t o strict e g x g' fr rr fs pre :
  Vss infun G ss t o -> ssruns T infun G ss t o ->
  WF e -> check_stmts T strict e g ss = Ok (x, g') ->
  (exists f', run ([] :: fr :: rr) pre = f' :: fr :: rr /\ sim e (f' :: fr :: rr)) ->
  all_events var_ok ([] :: fr :: rr) fs pre ->
  all_events var_ok (fr :: rr) fs (scoped (pre ++ t)).
Proof.
  intros IH R W C [f' [RP SP]] AP. apply ae_scoped.
  eapply ae_app; [exact AP|exact RP|].
  destruct (IH strict e g x g' f' (fr :: rr) fs W SP C) as [A _]. exact A.
Qed.

Lemma body_scoped0 infun G ss t o strict e g x g' fr rr fs :
  Vss infun G ss t o -> ssruns T infun G ss t o ->
  WF e -> sim e (fr :: rr) -> check_stmts T strict e g ss = Ok (x, g') ->
  all_events var_ok (fr :: rr) fs (scoped t).
Proof.
  intros IH R W S C. change (scoped t) with (scoped ([] ++ t)).
  eapply body_scoped; try eassumption.
  - exists []. split; [reflexivity|apply sim_push; exact S].
  - exact I.
Qed.

Theorem runs_var_ok :
  (forall infun G s t o, sruns T infun G s t o -> Vs infun G s t o) /\
  (forall infun G ss t o, ssruns T infun G ss t o -> Vss infun G ss t o) /\
  (forall infun G a t o, aruns T infun G a t o -> Va infun G a t o) /\
  (forall infun G hs t o, hruns T infun G hs t o -> Vh infun G hs t o) /\
  (forall infun G p b t o, floop T infun G p b t o -> Vf infun G p b t o).
Proof.
  assert (EO : forall strict e g fr rr fs infun G x t o, WF e -> sim e (fr :: rr) ->
             eruns T infun G x t o -> check_expr T strict e g x = None ->
             inert t /\ all_events var_ok (fr :: rr) fs t).
  { intros. destruct (@eruns_ok T strict e g (fr :: rr) fs infun G x t o H H0 H1 H2) as [I1 F1].
    split; [exact I1|apply ae_inert; assumption]. }
  apply runs_ind.
  - (* RSimple *)
    intros infun G x t o HX strict e g e' g' fr rr fs W S C. cbn [check_stmt] in C.
    destruct (@simple_sound T strict e g x e' g' fr rr fs infun G W S C) as [W1 [_ HR]].
    destruct (HR _ _ HX) as [A B]. auto.
  - (* RHandleThrough *)
    intros infun G x hs t o HX strict e g e' g' fr rr fs W S C. chk C.
    rename ce into e1, cg into g1, ce0 into u, cg0 into g2. injection C as <- <-.
    set (ec := set_caught (e_caught e ++ hclasses hs) e) in *.
    assert (Wc : WF ec) by (eapply same_scope_WF; [apply ss_caught|exact W]).
    assert (Sc : sim ec (fr :: rr)) by (eapply sim_scope; [apply ss_caught|exact S]).
    destruct (@simple_sound T strict ec g x e1 g1 fr rr fs infun (hclasses hs ++ G) Wc Sc E) as [W1 [_ HR]].
    destruct (HR _ _ HX) as [A B].
    assert (SS : same_scope e1 (join_unassigned
              (if m_restore strict then set_caught (e_caught e) e1 else set_caught (e_caught e1 ++ e_caught e) e1) u)).
    { destruct (m_restore strict); (eapply same_scope_trans; [apply ss_caught|apply ss_join]). }
    split; [exact A|]. split; [eapply same_scope_WF; eassumption|].
    intros ON. destruct (B ON) as [f' [R1 S1]]. exists f'. split; [exact R1|eapply sim_scope; eassumption].
  - (* RHandleCatch *)
    intros infun G x hs t ta o HX HH IH strict e g e' g' fr rr fs W S C. chk C.
    rename ce into e1, cg into g1, ce0 into u, cg0 into g2. injection C as <- <-.
    set (ec := set_caught (e_caught e ++ hclasses hs) e) in *.
    assert (Wc : WF ec) by (eapply same_scope_WF; [apply ss_caught|exact W]).
    assert (Sc : sim ec (fr :: rr)) by (eapply sim_scope; [apply ss_caught|exact S]).
    destruct (@simple_sound T strict ec g x e1 g1 fr rr fs infun (hclasses hs ++ G) Wc Sc E) as [W1 [[f1 [RP SP]] HR]].
    destruct (HR _ _ HX) as [A _].
    destruct (xruns_balanced fr rr HX) as [RA _]. specialize (RA eq_refl).
    set (outer := if m_restore strict then set_caught (e_caught e) e1 else set_caught (e_caught e1 ++ e_caught e) e1) in *.
    assert (SS : same_scope e1 outer) by (unfold outer; destruct (m_restore strict); apply ss_caught).
    assert (Wo : WF outer) by (eapply same_scope_WF; eassumption).
    assert (So : sim outer (f1 :: rr)) by (eapply sim_scope; eassumption).
    assert (AH := IH strict outer g1 u g2 f1 rr fs Wo So E0).
    assert (AP : all_events var_ok (fr :: rr) fs (predecl x)).
    { destruct x; cbn [predecl]; try exact I. apply ae_defs. }
    split; [|split].
    + eapply ae_app; [exact A|exact RA|]. eapply ae_app; [exact AP|exact RP|exact AH].
    + eapply same_scope_WF; [apply ss_join|exact Wo].
    + intros _. exists f1. rewrite !run_app, RA, RP.
      split; [apply (proj1 (proj2 (proj2 (proj2 runs_balanced))) _ _ _ _ _ HH)|].
      eapply sim_scope; [apply ss_join|exact So].
  - (* RIfA *)
    intros infun G c t tc HC strict e g e' g' fr rr fs W S C. chk C. rename ce into x, cg into g1. injection C as <- <-.
    destruct (EO strict e g fr rr fs _ _ _ _ _ W S HC E) as [I1 A1].
    split; [exact A1|]. split; [exact W|discriminate].
  - (* RIfSkip *)
    intros infun G c t tc HC strict e g e' g' fr rr fs W S C. chk C. rename ce into x, cg into g1. injection C as <- <-.
    destruct (EO strict e g fr rr fs _ _ _ _ _ W S HC E) as [I1 A1].
    split; [exact A1|]. split; [exact W|]. intros _. exists fr. rewrite (inert_run _ I1). auto.
  - (* RIfThen *)
    intros infun G c t tc tt o HC HB IH strict e g e' g' fr rr fs W S C. chk C. rename ce into x, cg into g1. injection C as <- <-.
    destruct (EO strict e g fr rr fs _ _ _ _ _ W S HC E) as [I1 A1].
    split; [|split; [exact W|]].
    + eapply ae_app; [exact A1|apply inert_run; exact I1|]. eapply body_scoped0; eassumption.
    + intros _. exists fr. rewrite run_app, (inert_run _ I1), (run_scoped_body0 fr rr HB). auto.
  - (* RIfElseA *)
    intros infun G c t el tc HC strict e g e' g' fr rr fs W S C. chk C.
    rename ce into et, cg into g1, ce0 into ee, cg0 into g2. injection C as <- <-.
    destruct (EO strict e g fr rr fs _ _ _ _ _ W S HC E) as [I1 A1].
    split; [exact A1|]. split; [eapply same_scope_WF; [apply ss_unassigned|exact W]|discriminate].
  - (* RIfElseT *)
    intros infun G c t el tc tt o HC HB IH strict e g e' g' fr rr fs W S C. chk C.
    rename ce into et, cg into g1, ce0 into ee, cg0 into g2. injection C as <- <-.
    destruct (EO strict e g fr rr fs _ _ _ _ _ W S HC E) as [I1 A1].
    split; [|split; [eapply same_scope_WF; [apply ss_unassigned|exact W]|]].
    + eapply ae_app; [exact A1|apply inert_run; exact I1|]. eapply body_scoped0; eassumption.
    + intros _. exists fr. rewrite run_app, (inert_run _ I1), (run_scoped_body0 fr rr HB).
      split; [reflexivity|eapply sim_scope; [apply ss_unassigned|exact S]].
  - (* RIfElseE *)
    intros infun G c t el tc tt o HC HB IH strict e g e' g' fr rr fs W S C. chk C.
    rename ce into et, cg into g1, ce0 into ee, cg0 into g2. injection C as <- <-.
    destruct (EO strict e g fr rr fs _ _ _ _ _ W S HC E) as [I1 A1].
    split; [|split; [eapply same_scope_WF; [apply ss_unassigned|exact W]|]].
    + eapply ae_app; [exact A1|apply inert_run; exact I1|]. eapply body_scoped0; eassumption.
    + intros _. exists fr. rewrite run_app, (inert_run _ I1), (run_scoped_body0 fr rr HB).
      split; [reflexivity|eapply sim_scope; [apply ss_unassigned|exact S]].
  - (* RMatchA *)
    intros infun G c a tc HC strict e g e' g' fr rr fs W S C. chk C. rename ce into u, cg into g1. injection C as <- <-.
    destruct (EO strict e g fr rr fs _ _ _ _ _ W S HC E) as [I1 A1].
    split; [exact A1|]. split; [eapply same_scope_WF; [apply ss_join|exact W]|discriminate].
  - (* RMatchNone *)
    intros infun G c a tc HC strict e g e' g' fr rr fs W S C. chk C. rename ce into u, cg into g1. injection C as <- <-.
    destruct (EO strict e g fr rr fs _ _ _ _ _ W S HC E) as [I1 A1].
    split; [exact A1|]. split; [eapply same_scope_WF; [apply ss_join|exact W]|].
    intros _. exists fr. rewrite (inert_run _ I1).
    split; [reflexivity|eapply sim_scope; [apply ss_join|exact S]].
  - (* RMatchArm *)
    intros infun G c a tc ta o HC HA IH strict e g e' g' fr rr fs W S C. chk C. rename ce into u, cg into g1. injection C as <- <-.
    destruct (EO strict e g fr rr fs _ _ _ _ _ W S HC E) as [I1 A1].
    split; [|split; [eapply same_scope_WF; [apply ss_join|exact W]|]].
    + eapply ae_app; [exact A1|apply inert_run; exact I1|]. eapply IH; eassumption.
    + intros _. exists fr. rewrite run_app, (inert_run _ I1).
      rewrite (proj1 (proj2 (proj2 runs_balanced)) _ _ _ _ _ HA).
      split; [reflexivity|eapply sim_scope; [apply ss_join|exact S]].
  - (* RWhileExit *)
    intros infun G c b tc o HC strict e g e' g' fr rr fs W S C. chk C. rename ce into x, cg into g1. injection C as <- <-.
    destruct (EO strict e g fr rr fs _ _ _ _ _ W S HC E) as [I1 A1].
    split; [exact A1|]. split; [exact W|]. intros _. exists fr. rewrite (inert_run _ I1). auto.
  - (* RWhileLast *)
    intros infun G c b tc tb o HC HB IH strict e g e' g' fr rr fs W S C. chk C. rename ce into x, cg into g1. injection C as <- <-.
    destruct (EO strict e g fr rr fs _ _ _ _ _ W S HC E) as [I1 A1].
    assert (Wl : WF (set_in_loop true e)) by (eapply same_scope_WF; [apply ss_in_loop|exact W]).
    assert (Sl : sim (set_in_loop true e) (fr :: rr)) by (eapply sim_scope; [apply ss_in_loop|exact S]).
    split; [|split; [exact W|]].
    + eapply ae_app; [exact A1|apply inert_run; exact I1|]. eapply body_scoped0; eassumption.
    + intros _. exists fr. rewrite run_app, (inert_run _ I1), (run_scoped_body0 fr rr HB). auto.
  - (* RWhileIter *)
    intros infun G c b tc tb ob tr o HC HB IHB HW IHW strict e g e' g' fr rr fs W S C.
    destruct (IHW strict e g e' g' fr rr fs W S C) as [AW [WW RW]].
    chk C. rename ce into x, cg into g1. injection C as <- <-.
    destruct (EO strict e g fr rr fs _ _ _ _ _ W S HC E) as [I1 A1].
    assert (Wl : WF (set_in_loop true e)) by (eapply same_scope_WF; [apply ss_in_loop|exact W]).
    assert (Sl : sim (set_in_loop true e) (fr :: rr)) by (eapply sim_scope; [apply ss_in_loop|exact S]).
    assert (RB := run_scoped_body0 fr rr HB).
    split; [|split; [exact W|]].
    + eapply ae_app; [exact A1|apply inert_run; exact I1|].
      eapply ae_app; [eapply body_scoped0; eassumption|exact RB|exact AW].
    + intros ON. rewrite !run_app, (inert_run _ I1), RB. exact (RW ON).
  - (* RForA *)
    intros infun G p col b tc HC strict e g e' g' fr rr fs W S C. chk C. rename ce into x, cg into g1. injection C as <- <-.
    destruct (EO strict e g fr rr fs _ _ _ _ _ W S HC E) as [I1 A1].
    split; [exact A1|]. split; [exact W|discriminate].
  - (* RFor *)
    intros infun G p col b tc tl o HC HL IH strict e g e' g' fr rr fs W S C. chk C. rename ce into x, cg into g1. injection C as <- <-.
    destruct (EO strict e g fr rr fs _ _ _ _ _ W S HC E) as [I1 A1].
    split; [|split; [exact W|]].
    + eapply ae_app; [exact A1|apply inert_run; exact I1|]. eapply IH; eassumption.
    + intros _. exists fr. rewrite run_app, (inert_run _ I1).
      rewrite (proj2 (proj2 (proj2 (proj2 runs_balanced))) _ _ _ _ _ _ HL). auto.
  - (* RFunSkip *)
    intros infun G f ps rs ret b strict e g e' g' fr rr fs W S C. chk C.
    rename ce into e1, cg into g1, ce0 into x, cg0 into g2. injection C as <- <-.
    split; [cbn; auto|]. split; [exact W|]. intros _. exists fr. auto.
  - (* RFunBody *)
    intros infun G f ps rs ret b tb o HB IH strict e g e' g' fr rr fs W S C. chk C.
    rename ce into e1, cg into g1, ce0 into x, cg0 into g2. injection C as <- <-.
    destruct (@check_params_sim ps e g e1 g1 [] (fr :: rr) E W (sim_push S)) as [W1 [_ [f1 [RP SP]]]].
    set (e4 := if ret then _ else _) in E1.
    assert (SS : same_scope e1 e4).
    { unfold e4. destruct ret;
        repeat (eapply same_scope_trans; [|first [apply ss_has_ret|apply ss_caught|apply ss_in_fun|apply ss_unassigned]]);
        apply same_scope_refl. }
    assert (W4 : WF e4) by (eapply same_scope_WF; eassumption).
    split; [|split; [exact W|]].
    + cbn [all_events]. split; [exact I|]. cbn [step].
      eapply body_scoped with (e := e4); try eassumption.
      * exists f1. split; [exact RP|eapply sim_scope; eassumption].
      * apply ae_pdefs.
    + intros _. exists fr. split; [|exact S]. cbn [run fold_left step].
      change (fold_left step (scoped (pdefs ps ++ tb)) (fr :: rr)) with (run (fr :: rr) (scoped (pdefs ps ++ tb))).
      eapply run_scoped_body; [exact HB|].
      intros f0 r0. clear. induction ps as [|y p IH] in f0 |- *; cbn; [eauto|apply IH].
  - (* RSNil *)
    intros infun G strict e g e' g' fr rr fs W S C. cbn [check_stmts] in C. injection C as <- <-.
    split; [exact I|]. split; [exact W|]. intros _. exists fr. auto.
  - (* RSConsA *)
    intros infun G s r t HS IH strict e g e' g' fr rr fs W S C. chk C. rename ce into e1, cg into g1.
    destruct (IH strict e g e1 g1 fr rr fs W S E) as [A [W1 _]].
    split; [exact A|]. split; [|discriminate].
    eapply (proj1 (proj2 check_WF)); eassumption.
  - (* RSCons *)
    intros infun G s r t tr o HS IHS HR IHR strict e g e' g' fr rr fs W S C. chk C. rename ce into e1, cg into g1.
    destruct (IHS strict e g e1 g1 fr rr fs W S E) as [A [W1 B]].
    destruct (B eq_refl) as [f1 [R1 S1]].
    destruct (IHR strict e1 g1 e' g' f1 rr fs W1 S1 C) as [A2 [W2 B2]].
    split; [|split; [exact W2|]].
    + eapply ae_app; [exact A|exact R1|exact A2].
    + intros ON. rewrite run_app, R1. exact (B2 ON).
  - (* RArmHere *)
    intros infun G b body rest t o HB IH strict e g u g' fr rr fs W S C. chk C.
    rename ce into be, cg into g1, ce0 into u1, cg0 into g2.
    destruct (bind_arm_sim g b W (sim_push S)) as [Wb [f1 [RP SP]]].
    eapply body_scoped; try eassumption.
    * exists f1. split; assumption.
    * apply ae_bdef.
  - (* RArmLater *)
    intros infun G b body rest t o HA IH strict e g u g' fr rr fs W S C. chk C.
    rename ce into be, cg into g1, ce0 into u1, cg0 into g2. eapply IH; eassumption.
  - (* RHArmHere *)
    intros infun G c b body rest t o HB IH strict e g u g' fr rr fs W S C. chk C.
    rename ce into be, cg into g1, ce0 into u1, cg0 into g2.
    destruct (bind_arm_sim g b W (sim_push S)) as [Wb [f1 [RP SP]]].
    eapply body_scoped; try eassumption.
    * exists f1. split; assumption.
    * apply ae_bdef.
  - (* RHArmLater *)
    intros infun G c b body rest t o HA IH strict e g u g' fr rr fs W S C. chk C.
    rename ce into be, cg into g1, ce0 into u1, cg0 into g2. eapply IH; eassumption.
  - (* RFDone *)
    intros infun G p b strict e g x g' fr rr fs W S C. exact I.
  - (* RFLast *)
    intros infun G p b tb o HB IH strict e g x g' fr rr fs W S C.
    destruct (define_all_sim true p g W (sim_push S)) as [Wd [f1 [RP SP]]].
    eapply body_scoped with (e := set_in_loop true (fst (define_all true e g p))); try eassumption.
    * exists f1. split; [exact RP|eapply sim_scope; [apply ss_in_loop|exact SP]].
    * apply ae_defs.
  - (* RFIter *)
    intros infun G p b tb ob tr o HB IHB HL IHL strict e g x g' fr rr fs W S C.
    destruct (define_all_sim true p g W (sim_push S)) as [Wd [f1 [RP SP]]].
    eapply ae_app.
    + eapply body_scoped with (e := set_in_loop true (fst (define_all true e g p))); try eassumption.
      * exists f1. split; [exact RP|eapply sim_scope; [apply ss_in_loop|exact SP]].
      * apply ae_defs.
    + eapply run_scoped_body; [exact HB|]. intros f0 r0. clear.
      induction p as [|y p IH] in f0 |- *; cbn; [eauto|apply IH].
    + exact (IHL strict e g x g' fr rr fs W S C).
Qed.

End WithTabs3.

(** ** C08: raises are guarded *)

Lemma has_parent_sound ct o : forall fuel c, has_parent fuel ct c o = HpT -> ancestor ct o c.
Proof.
  induction fuel as [|k IH]; intros c H; cbn [has_parent] in H; [discriminate|].
  destruct (alook c ct) as [ps|] eqn:E; [|discriminate].
  destruct (c =? o) eqn:Eq.
  - apply Nat.eqb_eq in Eq. subst. eapply AncRefl; eassumption.
  - match type of H with ?go ps false = HpT =>
      assert (GO : forall l found, go l found = HpT ->
                 found = true \/ exists p, In p l /\ has_parent k ct p o = HpT) end.
    { induction l as [|p l IHl]; intros found Hg; cbn in Hg.
      - destruct found; [left; reflexivity|discriminate].
      - destruct (has_parent k ct p o) eqn:Hp; try discriminate.
        + right. exists p. split; [left; reflexivity|exact Hp].
        + destruct (IHl _ Hg) as [->|[q [I1 I2]]]; [left; reflexivity|].
          right. exists q. split; [right; exact I1|exact I2]. }
    destruct (GO ps false H) as [D|[p [I1 I2]]]; [discriminate|].
    eapply AncStep; [exact E|exact I1|apply IH; exact I2].
Qed.

Definition rok (ct : list (cls * list cls)) (ev : event) : Prop := raise_ok ct [] [] ev.

Lemma all_events_raise ct st fs t : all_events (raise_ok ct) st fs t <-> Forall (rok ct) t.
Proof.
  revert st fs. induction t as [|ev t IH]; intros st fs; cbn [all_events].
  - split; auto.
  - rewrite IH. split.
    + intros [A B]. constructor; [destruct ev; exact A|exact B].
    + intros F. inversion F; subst. split; [destruct ev; assumption|assumption].
Qed.

Definition GI (e : env) (infun : bool) (G : list cls) : Prop :=
  e_in_fun e = infun /\ (infun = true -> incl (e_caught e) G).

Lemma GI_guard e e' infun G : same_guard e e' -> GI e infun G -> GI e' infun G.
Proof. intros [A B] [C D]. split; [congruence|]. intros H. rewrite <- A. auto. Qed.

Section C08.
Variable T : tabs.
Notation ct := (t_cls T).

Lemma any_caught_sound c caught :
  any_caught T c caught = HpT -> exists g, In g caught /\ ancestor ct g c.
Proof.
  induction caught as [|g r IH]; cbn [any_caught]; [discriminate|].
  destruct (has_parent (fuel_of T) ct c g) eqn:H; intros A; try discriminate.
  - exists g. split; [left; reflexivity|eapply has_parent_sound; exact H].
  - destruct (IH A) as [g' [I1 I2]]. exists g'. split; [right; exact I1|exact I2].
  - destruct (IH A) as [g' [I1 I2]]. exists g'. split; [right; exact I1|exact I2].
Qed.

Lemma check_raises_sound e cs :
  check_raises T e cs = None -> e_in_fun e = true ->
  forall c, In c cs -> exists g, In g (e_caught e) /\ ancestor ct g c.
Proof.
  intros C F. induction cs as [|d r IH]; intros c I; [destruct I|].
  cbn [check_raises] in C. rewrite F in C.
  destruct (alook d ct); [|discriminate].
  destruct (any_caught T d (e_caught e)) eqn:A; try discriminate.
  destruct I as [<-|I]; [apply any_caught_sound; exact A|apply IH; assumption].
Qed.

Lemma raise_event_ok e infun G c cs :
  GI e infun G -> check_raises T e cs = None -> In c cs -> rok ct (EvRaise c infun G).
Proof.
  intros [F I] C HI. unfold rok, raise_ok. destruct infun; [|exact Logic.I].
  destruct (check_raises_sound e cs C F c HI) as [g [I1 I2]].
  exists g. split; [apply I; [reflexivity|exact I1]|exact I2].
Qed.

Lemma eruns_rok e g infun G :
  GI e infun G ->
  (forall x t o, eruns T infun G x t o -> check_expr T repaired e g x = None -> Forall (rok ct) t) /\
  (forall xs t o, esruns T infun G xs t o -> check_exprs T repaired e g xs = None -> Forall (rok ct) t).
Proof.
  intros HG.
  apply eruns_esruns_ind; intros; cbn [check_expr check_exprs] in *;
    repeat match goal with
    | H : match ?x with _ => _ end = None |- _ => destruct x eqn:?; try discriminate
    | H : (if ?x then _ else _) = None |- _ => destruct x eqn:?; try discriminate
    end;
    repeat first [ apply Forall_nil | apply Forall_cons; [exact I|]
                 | apply Forall_app; split | solve [auto] ].
  all: try (destruct infun; repeat first [apply Forall_nil | apply Forall_cons; [exact I|]]; fail).
  - (* call raises *)
    destruct infun; repeat first [apply Forall_nil | apply Forall_cons; [exact I|]].
    all: constructor; [|constructor]; eapply raise_event_ok; try eassumption;
      unfold raises_of in *; rewrite Heqo0 in *; exact H1.
  - (* method raises *)
    constructor; [|constructor]. eapply raise_event_ok; try eassumption.
Qed.


Lemma simple_guard strict e g x e1 g1 :
  check_simple T strict e g x = Ok (e1, g1) -> same_guard e e1.
Proof.
  intros C. destruct x; cbn [check_simple] in C;
    repeat match type of C with
    | match ?x with _ => _ end = Ok _ => destruct x eqn:?; try discriminate
    | (if ?x then _ else _) = Ok _ => destruct x eqn:?; try discriminate
    end;
    try (injection C as <- <-); try (split; reflexivity).
  - injection C as C. change e1 with (fst (e1, g1)). rewrite <- C. apply (define_fold_guard _ _ (_, _)).
  - destruct (r =? SELF); split; reflexivity.
Qed.

(** In strict mode no statement changes the caught set or the in-function flag of the environment
    it hands on: this is [handle_restores] for the repaired threading. *)
Lemma restore_guard_preserved md : m_restore md = true ->
  (forall s e g e' g', check_stmt T md e g s = Ok (e', g') -> same_guard e e') /\
  (forall ss e g e' g', check_stmts T md e g ss = Ok (e', g') -> same_guard e e') /\
  (forall a : arms, True) /\ (forall h : harms, True).
Proof.
  intros HM.
  apply syntax_ind; try (intros; exact I).
  - intros x e g e' g' C. eapply simple_guard; exact C.
  - intros x hs _ e g e' g' C. cbn [check_stmt] in C. rewrite HM in C. chk C.
    rename ce into e1, cg into g1, ce0 into u, cg0 into g2.
    injection C as <- <-. destruct (simple_guard _ _ _ _ E) as [A B]. cbn in A, B.
    destruct u; split; cbn; congruence.
  - intros c t _ e g e' g' C. chk C. injection C as <- <-. split; reflexivity.
  - intros c t _ el _ e g e' g' C. chk C. injection C as <- <-. split; reflexivity.
  - intros c a _ e g e' g' C. chk C. injection C as <- <-. destruct ce; split; reflexivity.
  - intros c b _ e g e' g' C. chk C. injection C as <- <-. split; reflexivity.
  - intros p col b _ e g e' g' C. chk C. injection C as <- <-. split; reflexivity.
  - intros f ps rs ret b _ e g e' g' C. chk C. injection C as <- <-. split; reflexivity.
  - intros e g e' g' C. cbn [check_stmts] in C. injection C as <- <-. split; reflexivity.
  - intros s IHs ss IHss e g e' g' C. chk C.
    destruct (IHs _ _ _ _ E) as [A B]. destruct (IHss _ _ _ _ C) as [A2 B2]. split; congruence.
Qed.

Lemma strict_guard_preserved :
  (forall s e g e' g', check_stmt T repaired e g s = Ok (e', g') -> same_guard e e') /\
  (forall ss e g e' g', check_stmts T repaired e g ss = Ok (e', g') -> same_guard e e') /\
  (forall a : arms, True) /\ (forall h : harms, True).
Proof. exact (restore_guard_preserved repaired eq_refl). Qed.

Lemma rok_defs m p : Forall (rok ct) (defs m p).
Proof. apply Forall_forall. intros ev HI. apply in_map_iff in HI. destruct HI as [? [<- _]]. exact I. Qed.
Lemma rok_pdefs ps : Forall (rok ct) (pdefs ps).
Proof. apply Forall_forall. intros ev HI. apply in_map_iff in HI. destruct HI as [? [<- _]]. exact I. Qed.
Lemma rok_bdef b : Forall (rok ct) (bdef b).
Proof. destruct b as [[m x]|]; repeat constructor. Qed.
Lemma rok_scoped t : Forall (rok ct) t -> Forall (rok ct) (scoped t).
Proof. intros H. constructor; [exact I|]. apply Forall_app; split; [exact H|repeat constructor]. Qed.
Lemma rok_writes p : Forall (rok ct) (map EvWrite p).
Proof. apply Forall_forall. intros ev HI. apply in_map_iff in HI. destruct HI as [? [<- _]]. exact I. Qed.

Lemma xruns_rok e g e1 g1 infun G x t o :
  GI e infun G -> xruns T infun G x t o -> check_simple T repaired e g x = Ok (e1, g1) -> Forall (rok ct) t.
Proof.
  intros HG R C.
  assert (EO : forall e', same_guard e e' -> forall y t o, eruns T infun G y t o ->
                 check_expr T repaired e' g y = None -> Forall (rok ct) t).
  { intros e' SG y t0 o0 HR HC. eapply (proj1 (eruns_rok g (GI_guard SG HG))); eassumption. }
  assert (SG0 : same_guard e e) by (split; reflexivity).
  inv R; cbn [check_simple oexpr] in C;
    repeat match type of C with
    | match ?x with _ => _ end = Ok _ => destruct x eqn:?; try discriminate
    | (if ?x then _ else _) = Ok _ => destruct x eqn:?; try discriminate
    end;
    repeat first [ apply Forall_nil | apply rok_defs | apply rok_writes
                 | apply Forall_cons; [exact I|] | apply Forall_app; split
                 | solve [eapply (EO e SG0); eassumption] ].
  - (* aug, abrupt *) cbn [check_expr] in Heqo0.
    destruct (check_expr T repaired e g x0) eqn:Cx; [discriminate|]. eapply (EO e SG0); eassumption.
  - cbn [check_expr] in Heqo0.
    destruct (check_expr T repaired e g x0) eqn:Cx; [discriminate|]. eapply (EO e SG0); eassumption.
  - (* field set *)
    eapply (EO (if r =? SELF then set_unassigned (remove_all f (e_unassigned e)) e else e)); try eassumption.
    destruct (r =? SELF); split; reflexivity.
  - eapply (EO (if r =? SELF then set_unassigned (remove_all f (e_unassigned e)) e else e)); try eassumption.
    destruct (r =? SELF); split; reflexivity.
  - (* raise *)
    constructor; [|constructor]. eapply raise_event_ok; [exact HG|eassumption|left; reflexivity].
Qed.

Definition Qs (infun : bool) (G : list cls) (s : stmt) (t : trace) (o : outcome) : Prop :=
  forall e g e' g', GI e infun G -> check_stmt T repaired e g s = Ok (e', g') -> Forall (rok ct) t.
Definition Qss (infun : bool) (G : list cls) (ss : stmts) (t : trace) (o : outcome) : Prop :=
  forall e g e' g', GI e infun G -> check_stmts T repaired e g ss = Ok (e', g') -> Forall (rok ct) t.
Definition Qa (infun : bool) (G : list cls) (a : arms) (t : trace) (o : outcome) : Prop :=
  forall e g u g', GI e infun G -> check_arms T repaired e g a = Ok (u, g') -> Forall (rok ct) t.
Definition Qh (infun : bool) (G : list cls) (hs : harms) (t : trace) (o : outcome) : Prop :=
  forall e g u g', GI e infun G -> check_harms T repaired e g hs = Ok (u, g') -> Forall (rok ct) t.
Definition Qf (infun : bool) (G : list cls) (p : list var) (b : stmts) (t : trace) (o : outcome) : Prop :=
  forall e g x g', GI e infun G ->
    check_stmts T repaired (set_in_loop true (fst (define_all true e g p))) (snd (define_all true e g p)) b
      = Ok (x, g') -> Forall (rok ct) t.

Lemma GI_bind e g b infun G : GI e infun G -> GI (fst (bind_arm e g b)) infun G.
Proof. intros H. destruct b as [[m x]|]; exact H. Qed.

Lemma GI_define_all e g p infun G : GI e infun G -> GI (set_in_loop true (fst (define_all true e g p))) infun G.
Proof.
  intros H. eapply GI_guard; [|exact H].
  destruct (define_fold_guard true p (e, g)) as [A B]. split; [exact A|exact B].
Qed.

Theorem runs_raise_ok :
  (forall infun G s t o, sruns T infun G s t o -> Qs infun G s t o) /\
  (forall infun G ss t o, ssruns T infun G ss t o -> Qss infun G ss t o) /\
  (forall infun G a t o, aruns T infun G a t o -> Qa infun G a t o) /\
  (forall infun G hs t o, hruns T infun G hs t o -> Qh infun G hs t o) /\
  (forall infun G p b t o, floop T infun G p b t o -> Qf infun G p b t o).
Proof.
  assert (EO : forall e g infun G x t o, GI e infun G -> eruns T infun G x t o ->
                 check_expr T repaired e g x = None -> Forall (rok ct) t).
  { intros e g infun G x t o HG HR HC. eapply (proj1 (eruns_rok g HG)); eassumption. }
  apply runs_ind.
  - (* RSimple *)
    intros infun G x t o HX e g e' g' HG C. cbn [check_stmt] in C. eapply xruns_rok; eassumption.
  - (* RHandleThrough *)
    intros infun G x hs t o HX e g e' g' HG C. chk C.
    eapply xruns_rok; [|exact HX|exact E].
    destruct HG as [F I]. split; [exact F|]. intros Ht. cbn. apply incl_app;
      [apply incl_appr; auto|apply incl_appl; apply incl_refl].
  - (* RHandleCatch *)
    intros infun G x hs t ta o HX HH IH e g e' g' HG C. chk C.
    rename ce into e1, cg into g1, ce0 into u, cg0 into g2.
    apply Forall_app; split; [|apply Forall_app; split].
    + eapply xruns_rok; [|exact HX|exact E].
      destruct HG as [F I]. split; [exact F|]. intros Ht. cbn. apply incl_app;
        [apply incl_appr; auto|apply incl_appl; apply incl_refl].
    + destruct x; cbn [predecl]; try apply Forall_nil. apply rok_defs.
    + eapply IH; [|exact E0]. destruct (simple_guard _ _ _ _ E) as [A B]. cbn in A, B.
      destruct HG as [F I]. split; [cbn; congruence|]. cbn. exact I.
  - intros infun G c t tc HC e g e' g' HG C. chk C. eapply EO; eassumption.
  - intros infun G c t tc HC e g e' g' HG C. chk C. eapply EO; eassumption.
  - intros infun G c t tc tt o HC HB IH e g e' g' HG C. chk C.
    apply Forall_app; split; [eapply EO; eassumption|apply rok_scoped; eapply IH; eassumption].
  - intros infun G c t el tc HC e g e' g' HG C. chk C. eapply EO; eassumption.
  - intros infun G c t el tc tt o HC HB IH e g e' g' HG C. chk C.
    apply Forall_app; split; [eapply EO; eassumption|apply rok_scoped; eapply IH; eassumption].
  - intros infun G c t el tc tt o HC HB IH e g e' g' HG C. chk C.
    apply Forall_app; split; [eapply EO; eassumption|apply rok_scoped; eapply IH; eassumption].
  - intros infun G c a tc HC e g e' g' HG C. chk C. eapply EO; eassumption.
  - intros infun G c a tc HC e g e' g' HG C. chk C. eapply EO; eassumption.
  - intros infun G c a tc ta o HC HA IH e g e' g' HG C. chk C.
    apply Forall_app; split; [eapply EO; eassumption|eapply IH; eassumption].
  - intros infun G c b tc o HC e g e' g' HG C. chk C. eapply EO; eassumption.
  - intros infun G c b tc tb o HC HB IH e g e' g' HG C. chk C.
    apply Forall_app; split; [eapply EO; eassumption|apply rok_scoped; eapply IH; [|eassumption]; exact HG].
  - intros infun G c b tc tb ob tr o HC HB IHB HW IHW e g e' g' HG C.
    assert (FW := IHW e g e' g' HG C). chk C.
    apply Forall_app; split; [eapply EO; eassumption|].
    apply Forall_app; split; [apply rok_scoped; eapply IHB; [|eassumption]; exact HG|exact FW].
  - intros infun G p col b tc HC e g e' g' HG C. chk C. eapply EO; eassumption.
  - intros infun G p col b tc tl o HC HL IH e g e' g' HG C. chk C.
    apply Forall_app; split; [eapply EO; eassumption|eapply IH; eassumption].
  - intros infun G f ps rs ret b e g e' g' HG C. repeat constructor.
  - (* RFunBody *)
    intros infun G f ps rs ret b tb o HB IH e g e' g' HG C. chk C.
    constructor; [exact I|]. apply rok_scoped. apply Forall_app; split; [apply rok_pdefs|].
    eapply IH; [|exact E1]. destruct ret; split; cbn; try reflexivity; intros _; apply incl_refl.
  - intros infun G e g e' g' HG C. constructor.
  - intros infun G s r t HS IH e g e' g' HG C. chk C. eapply IH; eassumption.
  - intros infun G s r t tr o HS IHS HR IHR e g e' g' HG C. chk C.
    apply Forall_app; split; [eapply IHS; eassumption|].
    eapply IHR; [|exact C]. eapply GI_guard; [|exact HG].
    eapply (proj1 strict_guard_preserved); exact E.
  - intros infun G b body rest t o HB IH e g u g' HG C. chk C.
    apply rok_scoped. apply Forall_app; split; [apply rok_bdef|].
    eapply IH; [|exact E]. apply GI_bind; exact HG.
  - intros infun G b body rest t o HA IH e g u g' HG C. chk C. eapply IH; eassumption.
  - intros infun G c b body rest t o HB IH e g u g' HG C. chk C.
    apply rok_scoped. apply Forall_app; split; [apply rok_bdef|].
    eapply IH; [|exact E]. apply GI_bind; exact HG.
  - intros infun G c b body rest t o HA IH e g u g' HG C. chk C. eapply IH; eassumption.
  - intros infun G p b e g x g' HG C. constructor.
  - intros infun G p b tb o HB IH e g x g' HG C.
    apply rok_scoped. apply Forall_app; split; [apply rok_defs|].
    eapply IH; [|exact C]. apply GI_define_all; exact HG.
  - intros infun G p b tb ob tr o HB IHB HL IHL e g x g' HG C.
    apply Forall_app; split; [|eapply IHL; eassumption].
    apply rok_scoped. apply Forall_app; split; [apply rok_defs|].
    eapply IHB; [|exact C]. apply GI_define_all; exact HG.
Qed.

End C08.

(** ** the two syntactic classes that delimit known findings *)

(** D12: a top-level call is [ordered] when its function was defined earlier in the same or an
    enclosing block (calls inside function bodies run later and are not judged lexically) *)
Fixpoint ord_expr (F : list fname) (x : expr) : bool :=
  match x with
  | EBin a b => ord_expr F a && ord_expr F b
  | ECall f args => mem f F && ord_exprs F args
  | EPrint args => ord_exprs F args
  | EMCall _ _ args => ord_exprs F args
  | _ => true
  end
with ord_exprs (F : list fname) (xs : exprs) : bool :=
  match xs with ENil => true | ECons x r => ord_expr F x && ord_exprs F r end.

Definition ord_simple (F : list fname) (x : simple) : bool :=
  match x with
  | XExpr e | XDef _ _ (Some e) | XAssign _ e | XAug _ e | XFieldSet _ _ e | XReturn (Some e) => ord_expr F e
  | _ => true
  end.

Definition after (s : stmt) (F : list fname) : list fname :=
  match s with SFun f _ _ _ _ => f :: F | _ => F end.

Fixpoint ord_stmt (F : list fname) (s : stmt) : bool :=
  match s with
  | SSimple x => ord_simple F x
  | SHandle x hs => ord_simple F x && ord_harms F hs
  | SIf c t => ord_expr F c && ord_stmts F t
  | SIfElse c t el => ord_expr F c && ord_stmts F t && ord_stmts F el
  | SMatch c a => ord_expr F c && ord_arms F a
  | SWhile c b => ord_expr F c && ord_stmts F b
  | SFor _ col b => ord_expr F col && ord_stmts F b
  | SFun _ _ _ _ _ => true
  end
with ord_stmts (F : list fname) (ss : stmts) : bool :=
  match ss with SNil => true | SCons s r => ord_stmt F s && ord_stmts (after s F) r end
with ord_arms (F : list fname) (a : arms) : bool :=
  match a with ANil => true | ACons _ body rest => ord_stmts F body && ord_arms F rest end
with ord_harms (F : list fname) (hs : harms) : bool :=
  match hs with HNil => true | HCons _ _ body rest => ord_stmts F body && ord_harms F rest end.

(** D11: no assignment to a field declared fin *)
Definition fin_field (fl : list (field * bool)) (f : field) : bool :=
  match alook f fl with Some false => true | _ => false end.
Definition nf_simple (fl : list (field * bool)) (x : simple) : bool :=
  match x with XFieldSet _ f _ => negb (fin_field fl f) | _ => true end.
Fixpoint nf_stmt (fl : list (field * bool)) (s : stmt) : bool :=
  match s with
  | SSimple x => nf_simple fl x
  | SHandle x hs => nf_simple fl x && nf_harms fl hs
  | SIf _ t => nf_stmts fl t
  | SIfElse _ t el => nf_stmts fl t && nf_stmts fl el
  | SMatch _ a => nf_arms fl a
  | SWhile _ b => nf_stmts fl b
  | SFor _ _ b => nf_stmts fl b
  | SFun _ _ _ _ b => nf_stmts fl b
  end
with nf_stmts (fl : list (field * bool)) (ss : stmts) : bool :=
  match ss with SNil => true | SCons s r => nf_stmt fl s && nf_stmts fl r end
with nf_arms (fl : list (field * bool)) (a : arms) : bool :=
  match a with ANil => true | ACons _ body rest => nf_stmts fl body && nf_arms fl rest end
with nf_harms (fl : list (field * bool)) (hs : harms) : bool :=
  match hs with HNil => true | HCons _ _ body rest => nf_stmts fl body && nf_harms fl rest end.

Definition fld_ok (fl : list (field * bool)) (ev : event) : Prop :=
  match ev with EvWriteFld _ f => alook f fl <> Some false | _ => True end.

Fixpoint fok (fs : list fname) (t : trace) : Prop :=
  match t with
  | [] => True
  | ev :: r => match ev with EvReadF f => In f fs | _ => True end /\ fok (fstep fs ev) r
  end.

Lemma all_events_fread st fs t : all_events fread_ok st fs t <-> fok fs t.
Proof.
  revert st fs. induction t as [|ev t IH]; intros st fs; cbn [all_events fok]; [tauto|].
  rewrite IH. destruct ev; cbn; tauto.
Qed.

Lemma fok_app fs a b : fok fs (a ++ b) <-> fok fs a /\ fok (frun fs a) b.
Proof. revert fs. induction a as [|ev a IH]; intros fs; cbn; [tauto|]. rewrite IH. tauto. Qed.

Lemma frun_incl fs t : incl fs (frun fs t).
Proof.
  revert fs. induction t as [|ev t IH]; intros fs; cbn; [apply incl_refl|].
  eapply incl_tran; [|apply IH]. destruct ev; cbn; try apply incl_refl. apply incl_tl, incl_refl.
Qed.

Lemma fok_inert fs t : inert t -> (fok fs t <-> Forall (fun ev => match ev with EvReadF f => In f fs | _ => True end) t).
Proof.
  intros H. revert fs. induction H as [|ev t E I IH]; intros fs; cbn [fok].
  - split; auto.
  - assert (S2 : fstep fs ev = fs) by (destruct ev; cbn in E; try contradiction; reflexivity).
    rewrite S2, IH. split.
    + intros [A B]. constructor; assumption.
    + intros F. inversion F; subst. split; assumption.
Qed.

Lemma fok_nof fs t : Forall (fun ev => match ev with EvReadF _ => False | _ => True end) t -> fok fs t.
Proof.
  intros H. revert fs. induction H as [|ev t E _ IH]; intros fs; cbn; [exact I|].
  split; [destruct ev; try exact I; contradiction|apply IH].
Qed.

Lemma fok_scoped fs t : fok fs t -> fok fs (scoped t).
Proof.
  intros H. unfold scoped. cbn. split; [exact I|]. apply fok_app. split; [exact H|cbn; auto].
Qed.
Lemma frun_scoped fs t : frun fs (scoped t) = frun fs t.
Proof.
  unfold scoped. change (frun fs (EvPush :: t ++ [EvPop])) with (frun fs (t ++ [EvPop])).
  rewrite frun_app. reflexivity.
Qed.

Lemma mem_In x l : mem x l = true -> In x l.
Proof.
  induction l as [|y l IH]; cbn; [discriminate|]. intros H. apply orb_prop in H.
  destruct H as [H|H]; [left; apply Nat.eqb_eq in H; congruence|right; auto].
Qed.

Section Classes.
Variable T : tabs.
Variable fl : list (field * bool).

Definition cls_ev (fs : list fname) (ev : event) : Prop :=
  match ev with EvReadF f => In f fs | _ => True end /\ fld_ok fl ev.

Lemma eruns_classes infun G F fs :
  incl F fs ->
  (forall x t o, eruns T infun G x t o -> (infun = false -> ord_expr F x = true) -> Forall (cls_ev fs) t) /\
  (forall xs t o, esruns T infun G xs t o -> (infun = false -> ord_exprs F xs = true) -> Forall (cls_ev fs) t).
Proof.
  intros HI.
  assert (OK : forall ev, match ev with EvReadF _ | EvWriteFld _ _ => False | _ => True end -> cls_ev fs ev).
  { intros ev H. destruct ev; try contradiction; split; exact I. }
  apply eruns_esruns_ind; intros; cbn [ord_expr ord_exprs] in *;
    repeat match goal with
    | H : ?a = false -> ?b && ?c = true |- _ =>
        assert (a = false -> b = true) by (intros X; apply H in X; apply andb_prop in X; tauto);
        assert (a = false -> c = true) by (intros X; apply H in X; apply andb_prop in X; tauto);
        clear H
    end;
    repeat first [ apply Forall_nil | apply Forall_cons; [apply OK; exact I|]
                 | apply Forall_app; split | solve [auto] ].
  all: destruct infun; repeat first [apply Forall_nil | apply Forall_cons; [apply OK; exact I|]].
  all: constructor; [split; [|exact I]|repeat first [apply Forall_nil | apply Forall_cons; [apply OK; exact I|]]].
  all: apply HI, mem_In; auto.
Qed.

Lemma xruns_classes infun G F fs x t o :
  incl F fs -> xruns T infun G x t o -> (infun = false -> ord_simple F x = true) -> nf_simple fl x = true ->
  Forall (cls_ev fs) t.
Proof.
  intros HI R HO HN.
  assert (OK : forall ev, match ev with EvReadF _ | EvWriteFld _ _ => False | _ => True end -> cls_ev fs ev).
  { intros ev H. destruct ev; try contradiction; split; exact I. }
  assert (EO := proj1 (eruns_classes infun G HI)).
  assert (DF : forall m p, Forall (cls_ev fs) (defs m p)).
  { intros. apply Forall_forall. intros ev H. apply in_map_iff in H. destruct H as [? [<- _]]. apply OK. exact I. }
  assert (WR : forall p, Forall (cls_ev fs) (map EvWrite p)).
  { intros. apply Forall_forall. intros ev H. apply in_map_iff in H. destruct H as [? [<- _]]. apply OK. exact I. }
  inv R; cbn [ord_simple nf_simple] in *;
    repeat first [ apply Forall_nil | apply DF | apply WR | apply Forall_cons; [apply OK; exact I|]
                 | apply Forall_app; split | solve [eapply EO; eauto] ].
  constructor; [|constructor]. split; [exact I|]. cbn. unfold fin_field in HN.
  destruct (alook f fl) as [[|]|]; try discriminate; congruence.
Qed.

Definition Ks (infun : bool) (G : list cls) (s : stmt) (t : trace) (o : outcome) : Prop :=
  forall F fs, (infun = false -> ord_stmt F s = true) -> nf_stmt fl s = true -> incl F fs ->
    fok fs t /\ Forall (fld_ok fl) t.
Definition Kss (infun : bool) (G : list cls) (ss : stmts) (t : trace) (o : outcome) : Prop :=
  forall F fs, (infun = false -> ord_stmts F ss = true) -> nf_stmts fl ss = true -> incl F fs ->
    fok fs t /\ Forall (fld_ok fl) t.
Definition Ka (infun : bool) (G : list cls) (a : arms) (t : trace) (o : outcome) : Prop :=
  forall F fs, (infun = false -> ord_arms F a = true) -> nf_arms fl a = true -> incl F fs ->
    fok fs t /\ Forall (fld_ok fl) t.
Definition Kh (infun : bool) (G : list cls) (hs : harms) (t : trace) (o : outcome) : Prop :=
  forall F fs, (infun = false -> ord_harms F hs = true) -> nf_harms fl hs = true -> incl F fs ->
    fok fs t /\ Forall (fld_ok fl) t.
Definition Kf (infun : bool) (G : list cls) (p : list var) (b : stmts) (t : trace) (o : outcome) : Prop :=
  forall F fs, (infun = false -> ord_stmts F b = true) -> nf_stmts fl b = true -> incl F fs ->
    fok fs t /\ Forall (fld_ok fl) t.

Lemma cls_split fs t : inert t -> Forall (cls_ev fs) t -> fok fs t /\ Forall (fld_ok fl) t.
Proof.
  intros I F. split.
  - apply fok_inert; [exact I|]. eapply Forall_impl; [|exact F]. intros ev [A _]. exact A.
  - eapply Forall_impl; [|exact F]. intros ev [_ B]. exact B.
Qed.

Lemma K_app fs a b :
  fok fs a /\ Forall (fld_ok fl) a -> fok (frun fs a) b /\ Forall (fld_ok fl) b ->
  fok fs (a ++ b) /\ Forall (fld_ok fl) (a ++ b).
Proof. intros [A1 A2] [B1 B2]. split; [apply fok_app; split; assumption|apply Forall_app; split; assumption]. Qed.

Lemma K_scoped fs t :
  fok fs t /\ Forall (fld_ok fl) t -> fok fs (scoped t) /\ Forall (fld_ok fl) (scoped t).
Proof.
  intros [A B]. split; [apply fok_scoped; exact A|].
  constructor; [exact I|]. apply Forall_app; split; [exact B|repeat constructor].
Qed.

Lemma K_quiet fs t :
  Forall (fun ev => match ev with EvReadF _ | EvWriteFld _ _ => False | _ => True end) t ->
  fok fs t /\ Forall (fld_ok fl) t.
Proof.
  intros H. split.
  - apply fok_nof. eapply Forall_impl; [|exact H]. intros ev; destruct ev; auto.
  - eapply Forall_impl; [|exact H]. intros ev; destruct ev; cbn; tauto.
Qed.

Lemma quiet_defs m p : Forall (fun ev => match ev with EvReadF _ | EvWriteFld _ _ => False | _ => True end) (defs m p).
Proof. apply Forall_forall. intros ev H. apply in_map_iff in H. destruct H as [? [<- _]]. exact I. Qed.
Lemma quiet_pdefs ps : Forall (fun ev => match ev with EvReadF _ | EvWriteFld _ _ => False | _ => True end) (pdefs ps).
Proof. apply Forall_forall. intros ev H. apply in_map_iff in H. destruct H as [? [<- _]]. exact I. Qed.
Lemma quiet_bdef b : Forall (fun ev => match ev with EvReadF _ | EvWriteFld _ _ => False | _ => True end) (bdef b).
Proof. destruct b as [[m x]|]; repeat constructor. Qed.

Ltac bsplit H :=
  repeat match type of H with
  | _ && _ = true => let A := fresh "N" in apply andb_prop in H; destruct H as [A H]
  end.
Ltac osplit H :=
  repeat match goal with
  | H0 : ?a = false -> ?b && ?c = true |- _ =>
      let A := fresh "O" in
      assert (A : a = false -> b = true) by (intros X; apply H0 in X; apply andb_prop in X; tauto);
      assert (a = false -> c = true) by (intros X; apply H0 in X; apply andb_prop in X; tauto);
      clear H0
  end.

Definition nodf (t : trace) : Prop := Forall (fun ev => match ev with EvDefF _ => False | _ => True end) t.

Lemma nodf_frun fs t : nodf t -> frun fs t = fs.
Proof.
  intros H. revert fs. induction H as [|ev t E _ IH]; intros fs; [reflexivity|].
  cbn. rewrite <- (IH fs) at 2. destruct ev; cbn in E; try contradiction; reflexivity.
Qed.

Lemma nodf_fok fs t : nodf t -> Forall (cls_ev fs) t -> fok fs t /\ Forall (fld_ok fl) t.
Proof.
  intros N F. split.
  - revert fs F. induction N as [|ev t E _ IH]; intros fs F; cbn [fok]; [exact I|].
    inversion F; subst.
    assert (S2 : fstep fs ev = fs) by (destruct ev; cbn in E; try contradiction; reflexivity).
    rewrite S2. split; [apply H1|apply IH; assumption].
  - eapply Forall_impl; [|exact F]. intros ev [_ B]. exact B.
Qed.

Lemma xruns_nodf infun G x t o : xruns T infun G x t o -> nodf t.
Proof.
  assert (EI : forall x t o, eruns T infun G x t o -> nodf t).
  { intros y t0 o0 H. apply (proj1 (eruns_inert T infun G)) in H.
    eapply Forall_impl; [|exact H]. intros ev; destruct ev; cbn; auto. }
  assert (DF : forall m p, nodf (defs m p)).
  { intros. apply Forall_forall. intros ev H. apply in_map_iff in H. destruct H as [? [<- _]]. exact I. }
  assert (WR : forall p, nodf (map EvWrite p)).
  { intros. apply Forall_forall. intros ev H. apply in_map_iff in H. destruct H as [? [<- _]]. exact I. }
  intros R. inv R; unfold nodf;
    repeat first [ apply Forall_nil | apply DF | apply WR | apply Forall_cons; [exact I|]
                 | apply Forall_app; split | solve [eapply EI; eauto] ].
Qed.

Lemma after_incl infun G s t o F fs :
  sruns T infun G s t o -> incl F fs -> incl (after s F) (frun fs t).
Proof.
  intros R HI. destruct s; cbn [after]; try (eapply incl_tran; [exact HI|apply frun_incl]).
  intros x [<-|Hx].
  - inv R.
    + left; reflexivity.
    + change (In f (frun (f :: fs) (scoped (pdefs ps ++ tb)))). apply frun_incl. left; reflexivity.
  - apply frun_incl, HI, Hx.
Qed.

Theorem runs_classes :
  (forall infun G s t o, sruns T infun G s t o -> Ks infun G s t o) /\
  (forall infun G ss t o, ssruns T infun G ss t o -> Kss infun G ss t o) /\
  (forall infun G a t o, aruns T infun G a t o -> Ka infun G a t o) /\
  (forall infun G hs t o, hruns T infun G hs t o -> Kh infun G hs t o) /\
  (forall infun G p b t o, floop T infun G p b t o -> Kf infun G p b t o).
Proof.
  assert (EI := fun infun G x t o H => proj1 (eruns_inert T infun G) x t o H).
  assert (EO : forall infun G F fs x t o, incl F fs -> eruns T infun G x t o ->
            (infun = false -> ord_expr F x = true) -> fok fs t /\ Forall (fld_ok fl) t).
  { intros. assert (I1 := EI _ _ _ _ _ H0).
    exact (cls_split I1 (proj1 (eruns_classes infun G H) _ _ _ H0 H1)). }
  assert (XO : forall infun G F fs x t o, incl F fs -> xruns T infun G x t o ->
            (infun = false -> ord_simple F x = true) -> nf_simple fl x = true ->
            fok fs t /\ Forall (fld_ok fl) t).
  { intros. apply nodf_fok; [eapply xruns_nodf; eassumption|eapply xruns_classes; eassumption]. }
  assert (UP : forall F fs t, incl F fs -> incl F (frun fs t)).
  { intros F fs t H. eapply incl_tran; [exact H|apply frun_incl]. }
  apply runs_ind.
  - (* RSimple *)
    intros infun G x t o HX F fs HO HN HI. cbn [ord_stmt nf_stmt] in *. eapply XO; eassumption.
  - (* RHandleThrough *)
    intros infun G x hs t o HX F fs HO HN HI. cbn [ord_stmt nf_stmt] in *. bsplit HN. osplit HO.
    eapply XO; eassumption.
  - (* RHandleCatch *)
    intros infun G x hs t ta o HX HH IH F fs HO HN HI. cbn [ord_stmt nf_stmt] in *. bsplit HN. osplit HO.
    apply K_app; [eapply XO; eassumption|].
    apply K_app; [apply K_quiet; destruct x; cbn [predecl]; try apply Forall_nil; apply quiet_defs|].
    apply (IH F); auto.
  - intros infun G c t tc HC F fs HO HN HI. cbn [ord_stmt nf_stmt] in *. osplit HO. eapply EO; eassumption.
  - intros infun G c t tc HC F fs HO HN HI. cbn [ord_stmt nf_stmt] in *. osplit HO. eapply EO; eassumption.
  - intros infun G c t tc tt o HC HB IH F fs HO HN HI. cbn [ord_stmt nf_stmt] in *. osplit HO.
    apply K_app; [eapply EO; eassumption|]. apply K_scoped. apply (IH F); auto.
  - intros infun G c t el tc HC F fs HO HN HI. cbn [ord_stmt nf_stmt] in *. bsplit HN. osplit HO. eapply EO; eassumption.
  - intros infun G c t el tc tt o HC HB IH F fs HO HN HI. cbn [ord_stmt nf_stmt] in *. bsplit HN. osplit HO.
    apply K_app; [eapply EO; eassumption|]. apply K_scoped. apply (IH F); auto.
  - intros infun G c t el tc tt o HC HB IH F fs HO HN HI. cbn [ord_stmt nf_stmt] in *. bsplit HN. osplit HO.
    apply K_app; [eapply EO; eassumption|]. apply K_scoped. apply (IH F); auto.
  - intros infun G c a tc HC F fs HO HN HI. cbn [ord_stmt nf_stmt] in *. osplit HO. eapply EO; eassumption.
  - intros infun G c a tc HC F fs HO HN HI. cbn [ord_stmt nf_stmt] in *. osplit HO. eapply EO; eassumption.
  - intros infun G c a tc ta o HC HA IH F fs HO HN HI. cbn [ord_stmt nf_stmt] in *. osplit HO.
    apply K_app; [eapply EO; eassumption|]. apply (IH F); auto.
  - intros infun G c b tc o HC F fs HO HN HI. cbn [ord_stmt nf_stmt] in *. osplit HO. eapply EO; eassumption.
  - intros infun G c b tc tb o HC HB IH F fs HO HN HI. cbn [ord_stmt nf_stmt] in *. osplit HO.
    apply K_app; [eapply EO; eassumption|]. apply K_scoped. apply (IH F); auto.
  - intros infun G c b tc tb ob tr o HC HB IHB HW IHW F fs HO HN HI.
    assert (HO' := HO). assert (HN' := HN). cbn [ord_stmt nf_stmt] in HO, HN. osplit HO.
    apply K_app; [eapply EO; eassumption|].
    apply K_app; [apply K_scoped; apply (IHB F); auto|]. apply (IHW F); auto.
  - intros infun G p col b tc HC F fs HO HN HI. cbn [ord_stmt nf_stmt] in *. osplit HO. eapply EO; eassumption.
  - intros infun G p col b tc tl o HC HL IH F fs HO HN HI. cbn [ord_stmt nf_stmt] in *. osplit HO.
    apply K_app; [eapply EO; eassumption|]. apply (IH F); auto.
  - intros infun G f ps rs ret b F fs HO HN HI. apply K_quiet. repeat constructor.
  - (* RFunBody *)
    intros infun G f ps rs ret b tb o HB IH F fs HO HN HI. cbn [nf_stmt] in HN.
    assert (KB : fok (f :: fs) (scoped (pdefs ps ++ tb)) /\ Forall (fld_ok fl) (scoped (pdefs ps ++ tb))).
    { apply K_scoped. apply K_app; [apply K_quiet; apply quiet_pdefs|].
      apply (IH F); [discriminate|exact HN|]. apply UP. apply incl_tl. exact HI. }
    destruct KB as [K1 K2]. split; [cbn [fok fstep]; split; [exact I|exact K1]|constructor; [exact I|exact K2]].
  - intros infun G F fs HO HN HI. split; [exact I|constructor].
  - intros infun G s r t HS IH F fs HO HN HI. cbn [ord_stmts nf_stmts] in *. bsplit HN. osplit HO. apply (IH F); auto.
  - intros infun G s r t tr o HS IHS HR IHR F fs HO HN HI. cbn [ord_stmts nf_stmts] in *. bsplit HN. osplit HO.
    apply K_app; [apply (IHS F); auto|]. apply (IHR (after s F)); auto. eapply after_incl; eassumption.
  - intros infun G b body rest t o HB IH F fs HO HN HI. cbn [ord_arms nf_arms] in *. bsplit HN. osplit HO.
    apply K_scoped. apply K_app; [apply K_quiet; apply quiet_bdef|]. apply (IH F); auto.
  - intros infun G b body rest t o HA IH F fs HO HN HI. cbn [ord_arms nf_arms] in *. bsplit HN. osplit HO. apply (IH F); auto.
  - intros infun G c b body rest t o HB IH F fs HO HN HI. cbn [ord_harms nf_harms] in *. bsplit HN. osplit HO.
    apply K_scoped. apply K_app; [apply K_quiet; apply quiet_bdef|]. apply (IH F); auto.
  - intros infun G c b body rest t o HA IH F fs HO HN HI. cbn [ord_harms nf_harms] in *. bsplit HN. osplit HO. apply (IH F); auto.
  - intros infun G p b F fs HO HN HI. split; [exact I|constructor].
  - intros infun G p b tb o HB IH F fs HO HN HI.
    apply K_scoped. apply K_app; [apply K_quiet; apply quiet_defs|]. apply (IH F); auto.
  - intros infun G p b tb ob tr o HB IHB HL IHL F fs HO HN HI.
    apply K_app; [|apply (IHL F); auto].
    apply K_scoped. apply K_app; [apply K_quiet; apply quiet_defs|]. apply (IHB F); auto.
Qed.

End Classes.

(** field writes alone (D11 class), independent of the ordering class *)
Section FieldClass.
Variable T : tabs.
Variable fl : list (field * bool).

Definition nofld (t : trace) : Prop :=
  Forall (fun ev => match ev with EvWriteFld _ _ => False | _ => True end) t.
Lemma nofld_ok t : nofld t -> Forall (fld_ok fl) t.
Proof. intros H. eapply Forall_impl; [|exact H]. intros ev; destruct ev; cbn; tauto. Qed.

Lemma eruns_nofld infun G :
  (forall x t o, eruns T infun G x t o -> nofld t) /\
  (forall xs t o, esruns T infun G xs t o -> nofld t).
Proof.
  apply eruns_esruns_ind; intros; unfold nofld in *; destruct infun;
    repeat first [ assumption | apply Forall_nil | apply Forall_cons; [exact I|]
                 | apply Forall_app; split ].
Qed.

Lemma fld_defs m p : Forall (fld_ok fl) (defs m p).
Proof. apply Forall_forall. intros ev H. apply in_map_iff in H. destruct H as [? [<- _]]. exact I. Qed.
Lemma fld_pdefs ps : Forall (fld_ok fl) (pdefs ps).
Proof. apply Forall_forall. intros ev H. apply in_map_iff in H. destruct H as [? [<- _]]. exact I. Qed.
Lemma fld_bdef b : Forall (fld_ok fl) (bdef b).
Proof. destruct b as [[m x]|]; repeat constructor. Qed.
Lemma fld_writes p : Forall (fld_ok fl) (map EvWrite p).
Proof. apply Forall_forall. intros ev H. apply in_map_iff in H. destruct H as [? [<- _]]. exact I. Qed.
Lemma fld_scoped t : Forall (fld_ok fl) t -> Forall (fld_ok fl) (scoped t).
Proof. intros H. constructor; [exact I|]. apply Forall_app; split; [exact H|repeat constructor]. Qed.

Lemma xruns_fld infun G x t o : xruns T infun G x t o -> nf_simple fl x = true -> Forall (fld_ok fl) t.
Proof.
  assert (EO : forall y t0 o0, eruns T infun G y t0 o0 -> Forall (fld_ok fl) t0).
  { intros. apply nofld_ok. eapply (proj1 (eruns_nofld infun G)); eassumption. }
  intros R HN. inv R; cbn [nf_simple] in HN;
    repeat first [ apply Forall_nil | apply fld_defs | apply fld_writes | apply Forall_cons; [exact I|]
                 | apply Forall_app; split | solve [eapply EO; eauto] ].
  constructor; [|constructor]. cbn. unfold fin_field in HN.
  destruct (alook f fl) as [[|]|]; try discriminate; congruence.
Qed.

Definition Ns (infun : bool) (G : list cls) (s : stmt) (t : trace) (o : outcome) : Prop :=
  nf_stmt fl s = true -> Forall (fld_ok fl) t.
Definition Nss (infun : bool) (G : list cls) (ss : stmts) (t : trace) (o : outcome) : Prop :=
  nf_stmts fl ss = true -> Forall (fld_ok fl) t.
Definition Na (infun : bool) (G : list cls) (a : arms) (t : trace) (o : outcome) : Prop :=
  nf_arms fl a = true -> Forall (fld_ok fl) t.
Definition Nh (infun : bool) (G : list cls) (hs : harms) (t : trace) (o : outcome) : Prop :=
  nf_harms fl hs = true -> Forall (fld_ok fl) t.
Definition Nf (infun : bool) (G : list cls) (p : list var) (b : stmts) (t : trace) (o : outcome) : Prop :=
  nf_stmts fl b = true -> Forall (fld_ok fl) t.

Theorem runs_fld :
  (forall infun G s t o, sruns T infun G s t o -> Ns infun G s t o) /\
  (forall infun G ss t o, ssruns T infun G ss t o -> Nss infun G ss t o) /\
  (forall infun G a t o, aruns T infun G a t o -> Na infun G a t o) /\
  (forall infun G hs t o, hruns T infun G hs t o -> Nh infun G hs t o) /\
  (forall infun G p b t o, floop T infun G p b t o -> Nf infun G p b t o).
Proof.
  assert (EO : forall infun G y t0 o0, eruns T infun G y t0 o0 -> Forall (fld_ok fl) t0).
  { intros. apply nofld_ok. eapply (proj1 (eruns_nofld infun G)); eassumption. }
  apply runs_ind; unfold Ns, Nss, Na, Nh, Nf; intros;
    repeat match goal with H : eruns _ _ _ _ _ _ |- _ => apply EO in H end;
    cbn [nf_stmt nf_stmts nf_arms nf_harms] in *;
    repeat match goal with
    | H : _ && _ = true |- _ => let A := fresh "N" in apply andb_prop in H; destruct H as [A H]
    end;
    repeat first [ apply Forall_nil | apply fld_defs | apply fld_pdefs | apply fld_bdef
                 | apply Forall_cons; [exact I|] | apply Forall_app; split | apply fld_scoped
                 | solve [eapply xruns_fld; eassumption] | solve [auto] ].
  destruct x; cbn [predecl]; try apply Forall_nil. apply fld_defs.
Qed.

End FieldClass.

(** * The property statements *)

Lemma sim_env0 : sim env0 [[]].
Proof. intros x. reflexivity. Qed.

(** flow reading: lexical visibility implies that a definition came earlier on the trace *)
Lemma read_ok_preceded t : forall st fs seen,
  (forall x, vis st x <> None -> In x seen) ->
  all_events read_ok st fs t -> preceded seen t.
Proof.
  induction t as [|ev t IH]; intros st fs seen HV H; [exact I|].
  cbn [all_events] in H. destruct H as [A B].
  assert (TL : forall x, vis (tl st) x <> None -> vis st x <> None).
  { intros x. destruct st as [|f r]; cbn; [auto|]. destruct (alook x f); [discriminate|auto]. }
  destruct ev; cbn [preceded]; try (eapply IH; [|exact B]; cbn [step]; auto; fail).
  - (* def *) eapply IH; [|exact B]. intros y Hy.
    destruct (Nat.eq_dec x y) as [->|N]; [left; reflexivity|right; apply HV].
    destruct st as [|f r]; cbn in Hy |- *.
    + destruct (y =? x) eqn:E; [apply Nat.eqb_eq in E; congruence|]. congruence.
    + destruct (y =? x) eqn:E; [apply Nat.eqb_eq in E; congruence|]. exact Hy.
  - (* read *) split; [apply HV; exact A|]. eapply IH; [|exact B]. exact HV.
Qed.

Definition recv_ok (st : stack) (fs : list fname) (ev : event) : Prop :=
  match ev with EvWriteFld r _ => vis st r = Some true | _ => True end.

Section Main.
Variable T : tabs.

Theorem vars_sound strict p e g t o :
  check_program T strict p = Ok (e, g) -> ssruns T false [] p t o ->
  all_events read_ok [[]] [] t /\ all_events write_ok [[]] [] t /\ all_events recv_ok [[]] [] t.
Proof.
  intros C R.
  destruct (proj1 (proj2 (runs_var_ok T)) _ _ _ _ _ R strict env0 [] e g [] [] [] WF_env0 sim_env0 C) as [A _].
  repeat split; (eapply all_events_impl; [|exact A]); intros s f ev H; destruct ev; cbn in *; auto.
Qed.

(** C09 soundness for variables: lexical and flow form *)
Theorem C09_sound_vars strict p e g t o :
  check_program T strict p = Ok (e, g) -> ssruns T false [] p t o ->
  all_events read_ok [[]] [] t /\ preceded [] t.
Proof.
  intros C R. destruct (vars_sound strict C R) as [A _]. split; [exact A|].
  eapply read_ok_preceded; [|exact A]. intros x H. cbn in H. congruence.
Qed.

(** C07 soundness for variables and receivers *)
Theorem C07_sound_vars strict p e g t o :
  check_program T strict p = Ok (e, g) -> ssruns T false [] p t o ->
  all_events write_ok [[]] [] t /\ all_events recv_ok [[]] [] t.
Proof. intros C R. destruct (vars_sound strict C R) as [_ B]. exact B. Qed.

Lemma nf_nil :
  (forall s, nf_stmt [] s = true) /\ (forall ss, nf_stmts [] ss = true) /\
  (forall a, nf_arms [] a = true) /\ (forall h, nf_harms [] h = true).
Proof.
  apply syntax_ind; intros; cbn [nf_stmt nf_stmts nf_arms nf_harms];
    repeat match goal with H : _ = true |- _ => rewrite H end; try reflexivity;
    destruct s; reflexivity.
Qed.

(** D12 class: ordered programs find every function they call at top level *)
Theorem ordered_sound p t o :
  ssruns T false [] p t o -> ord_stmts [] p = true -> all_events fread_ok [[]] [] t.
Proof.
  intros R HO. apply all_events_fread.
  destruct (proj1 (proj2 (runs_classes T [])) _ _ _ _ _ R [] []
              (fun _ => HO) (proj1 (proj2 nf_nil) p) (incl_refl _)) as [A _].
  exact A.
Qed.

(** D11 class: without assignments to fin fields every field write is to a non-fin field *)
Theorem nofin_sound fl infun G p t o :
  ssruns T infun G p t o -> nf_stmts fl p = true -> Forall (fld_ok fl) t.
Proof. intros R HN. eapply (proj1 (proj2 (runs_fld T fl))); eassumption. Qed.

(** C08 for the repaired threading *)
Theorem C08_sound_strict p e g t o :
  check_program T repaired p = Ok (e, g) -> ssruns T false [] p t o ->
  all_events (raise_ok (t_cls T)) [[]] [] t.
Proof.
  intros C R. apply all_events_raise.
  eapply (proj1 (proj2 (runs_raise_ok T))); [exact R| |exact C].
  split; [reflexivity|discriminate].
Qed.

End Main.
