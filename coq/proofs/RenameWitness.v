(** * Renamings that touch a reserved name: witnesses that [conv] is NOT equivariant there,
      and examples showing the hypotheses of the positive theorems are satisfiable *)
From Coq Require Import List String Bool Arith Lia.
From MambaModel Require Import model.Core gen.Names model.Convert model.Rename
  proofs.ConvertProps proofs.RenameProps proofs.RenameTypes proofs.RenameConv.
Import ListNotations.
Local Open Scope string_scope.

(** exchange two names *)
Definition swap (a b s : string) : string :=
  if String.eqb s a then b else if String.eqb s b then a else s.

Lemma swap_invol a b s : swap a b (swap a b s) = s.
Proof.
  unfold swap.
  destruct (String.eqb_spec s a) as [->|Na].
  - destruct (String.eqb_spec b a) as [->|Nb]; [reflexivity|]. rewrite String.eqb_refl. reflexivity.
  - destruct (String.eqb_spec s b) as [->|Nb].
    + rewrite String.eqb_refl. reflexivity.
    + destruct (String.eqb_spec s a); [contradiction|]. destruct (String.eqb_spec s b); [contradiction|]. reflexivity.
Qed.
Lemma swap_injective a b : injective (swap a b).
Proof. intros x y E. rewrite <- (swap_invol a b x), <- (swap_invol a b y), E. reflexivity. Qed.

Lemma swap_other a b s : s <> a -> s <> b -> swap a b s = s.
Proof.
  intros Na Nb. unfold swap. destruct (String.eqb_spec s a); [contradiction|].
  destruct (String.eqb_spec s b); [contradiction|]. reflexivity.
Qed.

Definition mem (s : string) (l : list string) : bool := existsb (String.eqb s) l.
Lemma mem_false s l : mem s l = false -> ~ In s l.
Proof.
  intros H Hin. unfold mem in H. assert (existsb (String.eqb s) l = true); [|congruence].
  apply existsb_exists. exists s. split; [exact Hin | apply String.eqb_refl].
Qed.

(** exchanging two names outside a list fixes the list *)
Lemma swap_fixes a b R : mem a R = false -> mem b R = false -> fixes (swap a b) R.
Proof.
  intros Ha Hb s Hs. apply swap_other; intros ->; [apply (mem_false _ _ Ha Hs) | apply (mem_false _ _ Hb Hs)].
Qed.
(** exchanging a member with an outsider fixes the other members *)
Lemma swap_fixes_but a b R : mem b R = false -> forall s, In s R -> s <> a -> swap a b s = s.
Proof. intros Hb s Hs Na. apply swap_other; [exact Na | intros ->; apply (mem_false _ _ Hb Hs)]. Qed.

Definition idf (s : string) : string := s.

(** ** the hypotheses are satisfiable, non-trivially *)
Definition int_ty : nm := NM [TN false "Int" []].
Definition opt_int : nm := NM [TN true "Int" []].

(** [def f(x: Int?) -> Int => x ? 1 ; def a: Int := f(None) ; class Point(def px: Int) ; print(sqrt a)] *)
Definition sample : ast :=
  A None (NBlock [
    A None (NFunDef (A None (NId "f"))
              [A None (NFunArg false (A (Some opt_int) (NId "x")) (Some opt_int) None)]
              (Some int_ty)
              (Some (A (Some int_ty) (NBin SQuestion (A (Some opt_int) (NId "x")) (A (Some int_ty) (NInt "1"))))));
    A None (NVarDef (A (Some int_ty) (NId "a")) (Some int_ty)
              (Some (A (Some int_ty) (NCall "f" [] [A None NUndefined]))));
    A None (NClass "Point" [] [A None (NVarDef (A (Some int_ty) (NId "px")) (Some int_ty) None)] [] None);
    A None (NCall "print" [] [A None (NUn SSqrt (A (Some int_ty) (NId "a")))])]).

Definition rho_ok : string -> string := swap "f" "size_of" .

Example rho_ok_good : injective rho_ok /\ fixes rho_ok reserved.
Proof. split; [apply swap_injective | apply swap_fixes; vm_compute; reflexivity]. Qed.

Example sample_renamed_differs :
  exists g, gen true sample = Some g /\ gen true (ren_ast rho_ok idf sample) = Some (ren_core rho_ok idf g)
            /\ ren_core rho_ok idf g <> g.
Proof.
  eexists. split; [vm_compute; reflexivity|]. split; [vm_compute; reflexivity|]. vm_compute. discriminate.
Qed.

(** ** [size]: the definition is renamed to [__size__], call sites are not (D14) *)
Definition size_prog : ast :=
  A None (NBlock [
    A None (NFunDef (A None (NId "size")) [] (Some int_ty) (Some (A (Some int_ty) (NInt "3"))));
    A None (NCall "print" [] [A (Some int_ty) (NCall "size" [] [])])]).

Example size_def_and_call_disagree :
  gen false size_prog =
  Some (Block [FunDef [] "__size__" [] None (Un CuReturn (Int "3"));
               FunctionCall (Type_ "print" []) [FunctionCall (Type_ "size" []) []]]).
Proof. vm_compute. reflexivity. Qed.

Lemma size_refuted :
  exists rho a,
    injective rho /\ (forall s, In s reserved -> s <> "size" -> rho s = s) /\
    gen false (ren_ast rho idf a) <> option_map (ren_core rho idf) (gen false a).
Proof.
  exists (swap "size" "count"), size_prog. split; [apply swap_injective|]. split.
  - apply swap_fixes_but. vm_compute. reflexivity.
  - vm_compute. discriminate.
Qed.

(** ** a user class spelled like a built-in class is emitted under the Python spelling *)
Definition list_prog : ast :=
  A None (NBlock [
    A None (NClass "Stack" [] [] [] None);
    A None (NVarDef (A None (NId "s")) None (Some (A None (NCall "Stack" [] []))))]).

Lemma builtin_spelling_refuted :
  exists rho a,
    injective rho /\ (forall s, In s reserved -> s <> "List" -> rho s = s) /\
    gen false (ren_ast rho idf a) <> option_map (ren_core rho idf) (gen false a).
Proof.
  exists (swap "List" "Stack"), list_prog. split; [apply swap_injective|]. split.
  - apply swap_fixes_but. vm_compute. reflexivity.
  - vm_compute. discriminate.
Qed.

(** ** a user definition named like a module the generator imports is captured (D20) *)
Definition math_prog : ast :=
  A None (NBlock [
    A None (NVarDef (A (Some int_ty) (NId "m")) None (Some (A (Some int_ty) (NInt "3"))));
    A None (NCall "print" [] [A None (NUn SSqrt (A (Some int_ty) (NInt "4")))])]).

Lemma import_capture_refuted :
  exists rho a,
    injective rho /\ (forall s, In s reserved -> s <> "math" -> rho s = s) /\
    gen false (ren_ast rho idf a) <> option_map (ren_core rho idf) (gen false a).
Proof.
  exists (swap "math" "m"), math_prog. split; [apply swap_injective|]. split.
  - apply swap_fixes_but. vm_compute. reflexivity.
  - vm_compute. discriminate.
Qed.

(** the capture itself: the emitted module imports [math] and then binds [math] to the user's value *)
Example no_capture_refuted :
  exists rest, gen false (ren_ast (swap "math" "m") idf math_prog)
               = Some (Block (Import None [Id "math"] [] :: VarDef (Id "math") None (Some (Int "3")) :: rest)).
Proof. eexists. vm_compute. reflexivity. Qed.

(** ** Union members: the checker hands them over in name order, so the order of the arguments of
       [Union[..]] follows the spelling of the names; renaming does not commute with re-sorting *)
Fixpoint insert_tn (t : tn) (l : list tn) : list tn :=
  match l with
  | [] => [t]
  | u :: r =>
      match t, u with
      | TN _ a _, TN _ b _ => if str_ltb a b then t :: l else u :: insert_tn t r
      end
  end.
Definition sort_tns (l : list tn) : list tn := fold_right insert_tn [] l.
(** renaming as the implementation sees it: the members of the renamed union, in name order again *)
Definition ren_nm_sorted (rho : string -> string) (n : nm) : nm :=
  match n with NM ms => NM (sort_tns (map (ren_tn rho) ms)) end.

Lemma union_order_refuted :
  exists rho n,
    injective rho /\ fixes rho reserved /\ (match n with NM ms => sort_tns ms = ms end) /\
    fst (nm_to_py (ren_nm_sorted rho n) imports0) <> ren_core rho idf (fst (nm_to_py n imports0)).
Proof.
  exists (swap "Ab" "Zb"), (NM [TN false "Ab" []; TN false "Bc" []]).
  split; [apply swap_injective|]. split; [apply swap_fixes; vm_compute; reflexivity|].
  split; [vm_compute; reflexivity|]. vm_compute. discriminate.
Qed.

(** ** Every reserved name is needed: one program on which exchanging ANY single reserved name with a
       fresh name breaks the equation (so [reserved] is exactly the set the theorem needs) *)
Definition fresh : string := "q_q".
Definition tyA : nm := NM [TN false "Aa" []].
Definition mention (s : string) : ast := A None (NId s).
Definition opdef (s : string) : ast :=
  A None (NFunDef (A None (NId s)) [A None (NFunArg false (A None (NId "self")) None None)] None (Some (A None NPass))).

Definition univ : ast :=
  A None (NBlock (
     map mention (map fst renamed_rows) ++
     map opdef (map snd dunder) ++
     [ A None (NCall "Tuple" [] []); A None (NCall "Callable" [] []); A None (NCall "Any" [] []);
       A None (NVarDef (A None (NId "u")) (Some (NM [TN false "Aa" []; TN true "Bb" []])) None);
       A None (NFunDef (A None (NId "g")) [A None (NFunArg false (A None (NId "self")) (Some tyA) None)] None None);
       A None (NFunDef (A None (NId "size")) [] None None);
       A None (NClass "Cc" [] [A None (NVarDef (A None (NId "px")) None None)] []
                 (Some (A None (NBlock [A None NPass; A None (NVarDef (A None (NId fresh)) None None)]))));
       A None (NTypeAlias "Al" [] tyA);
       A None (NTypeDef "Td" [] None (Some (A None (NBlock [A None (NFunDef (A None (NId "am")) [] None None)]))) false);
       A None (NUn SSqrt (A None (NInt "4")));
       A None (NRange (A None (NInt "0")) (A None (NInt "3")) false None);
       A None (NSlice (A None (NInt "0")) (A None (NInt "3")) false None) ])).

Example univ_converts : exists g, gen true univ = Some g.
Proof. eexists. vm_compute. reflexivity. Qed.

Theorem reserved_needed : forall r, In r reserved ->
  injective (swap r fresh) /\ (forall s, In s reserved -> s <> r -> swap r fresh s = s) /\
  gen true (ren_ast (swap r fresh) idf univ) <> option_map (ren_core (swap r fresh) idf) (gen true univ).
Proof.
  intros r Hr. split; [apply swap_injective|]. split; [apply swap_fixes_but; vm_compute; reflexivity|].
  revert r Hr. apply Forall_forall.
  assert (E : reserved = ltac:(let x := eval vm_compute in reserved in exact x)) by (vm_compute; reflexivity).
  rewrite E. repeat (apply Forall_cons; [vm_compute; discriminate|]). apply Forall_nil.
Qed.
