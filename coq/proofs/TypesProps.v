(** * Properties of the assignability relation (model/Types.v)

    Part A  general lemmas (sequencing combinators, [nub])
    Part B  the non-generic fragment: for every table satisfying [ctx_ok] that is acyclic, on names whose members
            are [plain], [super] always answers [Ok r] and [r] is characterised by the declarative relation
            [nsup] (ancestor search + nullable rule + "every member covered")
    Part C  the algebraic laws, proved on [nsup] and transported through the characterisation
    Part D  refutations (witnesses evaluated on the generated table) *)
From Coq Require Import List String Bool Arith Lia Permutation.
From MambaModel Require Import model.Types.
Import ListNotations.
Local Open Scope string_scope.

(** ** Part A: general lemmas *)

Lemma mapM_ok_iff {A : Type} (f : A -> res bool) (P : A -> Prop) (l : list A) :
  (forall x, In x l -> exists r, f x = Ok r /\ (r = true <-> P x)) ->
  exists rs, mapM f l = Ok rs /\ List.length rs = List.length l /\
             (existsb (fun b => b) rs = true <-> exists x, In x l /\ P x) /\
             (forallb negb rs = true <-> forall x, In x l -> ~ P x).
Proof.
  induction l as [|x l IH]; intros H.
  - exists []. cbn. repeat split; try discriminate; auto; try (intros [x [[] _]]); try (intros _ x []).
  - destruct (H x (or_introl eq_refl)) as [r [Hr Hp]].
    destruct IH as [rs [Hrs [Hlen [Hex Hall]]]]. { intros y Hy. apply H. right. exact Hy. }
    exists (r :: rs). cbn [mapM]. rewrite Hr. cbn [bind]. rewrite Hrs. cbn [bind].
    split; [reflexivity|]. split; [cbn; lia|]. split.
    + cbn [existsb]. rewrite orb_true_iff, Hex, Hp. split.
      * intros [Hx | [y [Hy Py]]]; [exists x | exists y]; cbn; auto.
      * intros [y [[<- | Hy] Py]]; [left | right; exists y]; auto.
    + cbn [forallb]. rewrite andb_true_iff, Hall, negb_true_iff. split.
      * intros [Hx Hr'] y [<- | Hy]; [|auto]. intros Py. apply Hp in Py. congruence.
      * intros Hn. split.
        -- destruct r; [|reflexivity]. exfalso. apply (Hn x); [left; reflexivity | apply Hp; reflexivity].
        -- intros y Hy. apply Hn. right. exact Hy.
Qed.

Lemma mapM_all_ok {A B : Type} (f : A -> res B) (l : list A) :
  (forall x, In x l -> exists y, f x = Ok y) -> exists ys, mapM f l = Ok ys.
Proof.
  induction l as [|x l IH]; intros H; [exists []; reflexivity|].
  destruct (H x (or_introl eq_refl)) as [y Hy].
  destruct IH as [ys Hys]. { intros z Hz. apply H. right. exact Hz. }
  exists (y :: ys). cbn [mapM]. rewrite Hy. cbn [bind]. rewrite Hys. reflexivity.
Qed.

Lemma mapM_id {A : Type} (f : A -> res A) (l : list A) :
  (forall x, In x l -> f x = Ok x) -> mapM f l = Ok l.
Proof.
  induction l as [|x l IH]; intros H; [reflexivity|].
  cbn [mapM]. rewrite (H x (or_introl eq_refl)). cbn [bind]. rewrite IH; [reflexivity|].
  intros y Hy. apply H. right. exact Hy.
Qed.

Section Nub.
  Context {A : Type} (eqb : A -> A -> bool).

  Lemma nub_in (l : list A) x : In x (nub eqb l) -> In x l.
  Proof.
    revert x. induction l as [|y l IH]; intros x; cbn [nub]; [auto|].
    intros [<- | H]; [left; reflexivity|]. apply filter_In in H. right. apply IH. apply H.
  Qed.

  (** when [eqb] decides equality on the members of the list, [nub] keeps exactly the members, once each *)
  Lemma nub_complete (l : list A) :
    (forall a b, In a l -> In b l -> (eqb a b = true <-> a = b)) ->
    forall x, In x l -> In x (nub eqb l).
  Proof.
    induction l as [|y l IH]; intros Heq x; [intros []|].
    cbn [nub]. intros [<- | Hx]; [left; reflexivity|].
    destruct (eqb y x) eqn:E.
    - left. apply (Heq y x); [left; reflexivity | right; exact Hx | exact E].
    - right. apply filter_In. split; [|rewrite E; reflexivity].
      apply IH; [|exact Hx]. intros a b Ha Hb. apply Heq; right; assumption.
  Qed.

  Lemma nub_nodup (l : list A) :
    (forall a b, In a l -> In b l -> (eqb a b = true <-> a = b)) -> NoDup (nub eqb l).
  Proof.
    induction l as [|y l IH]; intros Heq; cbn [nub]; [constructor|].
    constructor.
    - intros H. apply filter_In in H. destruct H as [Hin Hn].
      assert (E : eqb y y = true).
      { apply (Heq y y); [left; reflexivity | left; reflexivity | reflexivity]. }
      rewrite E in Hn. discriminate.
    - apply NoDup_filter. apply IH. intros a b Ha Hb. apply Heq; right; assumption.
  Qed.
End Nub.

(** ** Part B: the non-generic fragment *)

(** the hierarchy has a topological numbering (for a finite table: it has no cycle) *)
Definition acyclic (cx : ctx) : Prop :=
  exists rank : string -> nat,
    (forall c, In c cx -> rank (cl_name c) < List.length cx) /\
    (forall c p, In c cx -> In p (cl_parents c) -> rank (tcname p) < rank (cl_name c)).

(** [anc cx a b]: class [a] is [b] or an ancestor of [b] in the table *)
Inductive anc (cx : ctx) : string -> string -> Prop :=
| anc_refl : forall a, anc cx a a
| anc_step : forall a b c p,
    find_cls cx b = Some c -> In p (cl_parents c) -> anc cx a (tcname p) -> anc cx a b.

(** the declarative relation *)
Definition psup (cx : ctx) (a b : string) : Prop := a = ANY \/ anc cx a b.
Definition tsup (cx : ctx) (t1 t2 : ty) : Prop :=
  (tnull t1 = true /\ is_null t2 = true) \/
  ((tnull t1 = true \/ tnull t2 = false) /\ psup cx (tcname t1) (tcname t2)).
Definition nsup (cx : ctx) (A B : name) : Prop :=
  (B = [] -> A = []) /\ forall o, In o B -> exists s, In s A /\ tsup cx s o.

Lemma find_cls_some cx s c : find_cls cx s = Some c -> cl_name c = s /\ In c cx.
Proof.
  unfold find_cls. intros H. apply find_some in H. destruct H as [Hin He].
  apply String.eqb_eq in He. auto.
Qed.

Lemma ty_eqb_plain_l n s t : ty_eqb (TN n s []) t = true <-> t = TN n s [].
Proof.
  destruct t as [n2 s2 g2]. cbn [ty_eqb]. split.
  - intros H. apply andb_true_iff in H. destruct H as [H Hg]. apply andb_true_iff in H. destruct H as [Hn Hs].
    apply eqb_prop in Hn. apply String.eqb_eq in Hs. destruct g2; [|discriminate]. subst. reflexivity.
  - intros H. injection H as -> -> ->. rewrite eqb_reflx, String.eqb_refl. reflexivity.
Qed.

Lemma plain_inv cx t :
  plain cx t = true ->
  exists n s c, t = TN n s [] /\ find_cls cx s = Some c /\ cl_gen c = [] /\ s <> "()" /\ s <> TUPLE /\
                (n = true -> s <> NONE).
Proof.
  destruct t as [n s g]. unfold plain, is_plain_class. cbn [tgens tcname tnull is_null].
  intros H. repeat (apply andb_true_iff in H; destruct H as [H ?]).
  destruct g; [|discriminate].
  destruct (find_cls cx s) as [c|] eqn:F; [|discriminate].
  destruct (cl_gen c) eqn:G; [|discriminate].
  exists n, s, c. repeat split; auto.
  - intros ->. discriminate.
  - intros ->. discriminate.
  - intros -> ->. discriminate.
Qed.

Lemma plain_class_inv cx s :
  is_plain_class cx s = true -> exists c, find_cls cx s = Some c /\ cl_gen c = [] /\ s <> "()" /\ s <> TUPLE.
Proof.
  unfold is_plain_class. intros H. repeat (apply andb_true_iff in H; destruct H as [H ?]).
  destruct (find_cls cx s) as [c|] eqn:F; [|discriminate].
  destruct (cl_gen c) eqn:G; [|discriminate].
  exists c. repeat split; auto; intros ->; discriminate.
Qed.

Lemma subst_plain p : tgens p = [] -> subst_ty [] p = Ok p.
Proof. destruct p as [n s g]. cbn [tgens]. intros ->. reflexivity. Qed.

Section Plain.
  Variable cx : ctx.
  Hypothesis Hok : ctx_ok cx = true.
  Variable rank : string -> nat.
  Hypothesis rank_bound : forall c, In c cx -> rank (cl_name c) < List.length cx.
  Hypothesis rank_dec : forall c p, In c cx -> In p (cl_parents c) -> rank (tcname p) < rank (cl_name c).

  Lemma Hclosed : plain_closed cx = true.
  Proof. pose proof Hok as H. unfold ctx_ok in H. apply andb_true_iff in H. destruct H as [H _]. apply andb_true_iff in H. apply H. Qed.
  Lemma Hspecial : specials_ok cx = true.
  Proof. pose proof Hok as H. unfold ctx_ok in H. apply andb_true_iff in H. apply H. Qed.

  (** parents of a non-generic class are non-generic classes of the table, without arguments *)
  Lemma parents_plain s c p :
    find_cls cx s = Some c -> cl_gen c = [] -> In p (cl_parents c) ->
    tgens p = [] /\ is_plain_class cx (tcname p) = true /\ rank (tcname p) < rank s.
  Proof.
    intros F G Hp. destruct (find_cls_some _ _ _ F) as [Hn Hin].
    pose proof Hclosed as Hc. unfold plain_closed in Hc. rewrite forallb_forall in Hc.
    specialize (Hc c Hin). rewrite G in Hc. rewrite forallb_forall in Hc. specialize (Hc p Hp).
    destruct (tgens p); [|discriminate]. split; [reflexivity|]. split; [exact Hc|].
    rewrite <- Hn. apply rank_dec; assumption.
  Qed.

  Lemma parents_eqb s c :
    find_cls cx s = Some c -> cl_gen c = [] ->
    forall a b, In a (cl_parents c) -> In b (cl_parents c) -> (ty_eqb a b = true <-> a = b).
  Proof.
    intros F G a b Ha Hb. destruct (parents_plain _ _ _ F G Ha) as [Ga _].
    destruct a as [n s' g]. cbn [tgens] in Ga. subst g. rewrite ty_eqb_plain_l. split; intros H; symmetry; exact H.
  Qed.

  Lemma lookup_plain f : forall s c,
    find_cls cx s = Some c -> cl_gen c = [] -> s <> TUPLE -> rank s < f ->
    lookup f cx (s, []) = Ok {| k_name := (s, []); k_parents := nub ty_eqb (cl_parents c) |}.
  Proof.
    induction f as [|f IH]; intros s c F G Ht Hr; [lia|].
    cbn [lookup fst snd]. rewrite F.
    destruct (String.eqb s TUPLE) eqn:E; [apply String.eqb_eq in E; contradiction|].
    rewrite G. cbn [zip_longest].
    destruct (find_cls_some _ _ _ F) as [Hn Hin]. rewrite Hn.
    unfold subst_sn, of_sn. cbn [fst snd]. rewrite subst_plain by reflexivity. cbn [bind variant tcname tgens].
    rewrite mapM_id.
    2:{ intros p Hp. apply subst_plain. apply (parents_plain _ _ _ F G Hp). }
    cbn [bind].
    destruct (mapM_all_ok (fun p => lookup f cx (variant p)) (nub ty_eqb (cl_parents c))) as [ys Hys].
    { intros p Hp. apply nub_in in Hp. destruct (parents_plain _ _ _ F G Hp) as [Gp [Pp Rp]].
      destruct (plain_class_inv _ _ Pp) as [cp [Fp [Gcp [_ Tp]]]].
      eexists. unfold variant. rewrite Gp. apply (IH _ cp); auto. lia. }
    rewrite Hys. reflexivity.
  Qed.

  Lemma hp_plain lf : List.length cx < lf -> forall f s c a,
    find_cls cx s = Some c -> cl_gen c = [] -> s <> TUPLE -> rank s < f ->
    exists r, hp f lf cx {| k_name := (s, []); k_parents := nub ty_eqb (cl_parents c) |} (a, []) = Ok r
              /\ (r = true <-> psup cx a s).
  Proof.
    intros Hlf. induction f as [|f IH]; intros s c a F G Ht Hr; [lia|].
    cbn [hp k_name k_parents]. unfold sn_eqb. cbn [fst snd gens_eqb]. rewrite andb_true_r.
    destruct (String.eqb s a) eqn:Esa.
    { apply String.eqb_eq in Esa. subst a. cbn [orb]. exists true. split; [reflexivity|].
      split; [intros _; right; constructor | reflexivity]. }
    destruct (String.eqb a ANY) eqn:Eany.
    { apply String.eqb_eq in Eany. cbn [orb]. exists true. split; [reflexivity|].
      split; [intros _; left; exact Eany | reflexivity]. }
    cbn [orb]. unfold is_contender. cbn [fst snd].
    destruct (String.eqb s TUPLE) eqn:E; [apply String.eqb_eq in E; contradiction|].
    rewrite Esa. cbn [andb orb bind].
    destruct (mapM_ok_iff
                (fun p => bind (lookup lf cx (variant p)) (fun kp => hp f lf cx kp (a, [])))
                (fun p => psup cx a (tcname p)) (nub ty_eqb (cl_parents c))) as [rs [Hrs [_ [Hex _]]]].
    { intros p Hp. apply nub_in in Hp. destruct (parents_plain _ _ _ F G Hp) as [Gp [Pp Rp]].
      destruct (plain_class_inv _ _ Pp) as [cp [Fp [Gcp [_ Tp]]]].
      unfold variant. rewrite Gp. rewrite (lookup_plain lf _ cp) by (auto;
        destruct (find_cls_some _ _ _ Fp) as [Hn Hin]; specialize (rank_bound cp Hin); rewrite Hn in rank_bound; lia).
      cbn [bind]. apply IH; auto. lia. }
    rewrite Hrs. cbn [bind]. eexists. split; [reflexivity|]. rewrite Hex. split.
    - intros [p [Hp Pp]]. apply nub_in in Hp. destruct Pp as [Pp | Pp]; [left; exact Pp|].
      right. econstructor; eauto.
    - intros [Pa | Pa]; [rewrite Pa in Eany; discriminate|].
      inversion Pa as [|a' b' c' p F' Hp Hanc]; subst.
      + rewrite String.eqb_refl in Esa. discriminate.
      + rewrite F in F'. injection F' as <-. exists p. split; [|right; exact Hanc].
        apply nub_complete; [apply (parents_eqb _ _ F G) | exact Hp].
  Qed.

  (** fuel that is enough for plain arguments *)
  Definition enough (f lf : nat) : Prop := List.length cx <= f /\ List.length cx < lf.

  Lemma rank_lt s c : find_cls cx s = Some c -> rank s < List.length cx.
  Proof. intros F. destruct (find_cls_some _ _ _ F) as [Hn Hin]. rewrite <- Hn. apply rank_bound. exact Hin. Qed.

  Lemma sn_empty_plain s : s <> "()" -> s <> TUPLE -> sn_is_empty (s, []) = false.
  Proof.
    intros H1 H2. unfold sn_is_empty, sn_eqb. cbn [fst snd gens_eqb].
    destruct (String.eqb s "()") eqn:E1; [apply String.eqb_eq in E1; contradiction|].
    destruct (String.eqb s TUPLE) eqn:E2; [apply String.eqb_eq in E2; contradiction|]. reflexivity.
  Qed.

  Lemma tn_super_plain f lf t1 t2 :
    enough f lf -> plain cx t1 = true -> plain cx t2 = true ->
    exists r, tn_super f lf cx t1 t2 = Ok r /\ (r = true <-> tsup cx t1 t2).
  Proof.
    intros [Hf Hlf] P1 P2.
    destruct (plain_inv _ _ P1) as [n1 [s1 [c1 [-> [F1 [G1 [E1 [T1 N1]]]]]]]].
    destruct (plain_inv _ _ P2) as [n2 [s2 [c2 [-> [F2 [G2 [E2 [T2 N2]]]]]]]].
    unfold tn_super, tsup, variant, is_null. cbn [tcname tgens tnull].
    rewrite !sn_empty_plain by assumption. cbn [negb andb].
    destruct (n1 && String.eqb s2 NONE) eqn:Enull.
    { exists true. split; [reflexivity|]. apply andb_true_iff in Enull. split; auto. }
    destruct (n1 || negb n1 && negb n2) eqn:Ens.
    - unfold sn_super. rewrite (lookup_plain lf _ c2) by (auto; pose proof (rank_lt _ _ F2); lia).
      cbn [bind].
      destruct (hp_plain lf Hlf f s2 c2 s1 F2 G2 T2) as [r [Hr Hp]]; [pose proof (rank_lt _ _ F2); lia|].
      exists r. split; [exact Hr|]. rewrite Hp. split.
      + intros H. right. split; [|exact H]. destruct n1; [left; reflexivity|]. destruct n2; [discriminate|right; reflexivity].
      + intros [[H1 H2] | [_ H]]; [|exact H]. rewrite H1, H2 in Enull. discriminate.
    - exists false. split; [reflexivity|]. split; [discriminate|].
      intros [[H1 H2] | [[H | H] _]].
      + rewrite H1, H2 in Enull. discriminate.
      + rewrite H in Ens. discriminate.
      + rewrite H in Ens. destruct n1; discriminate.
  Qed.

  Lemma name_empty_plain A : plainN cx A = true -> name_is_empty A = match A with [] => true | _ => false end.
  Proof.
    destruct A as [|t A]; [reflexivity|]. intros H. cbn [plainN forallb] in H. apply andb_true_iff in H.
    destruct H as [P _]. destruct (plain_inv _ _ P) as [n [s [c [-> [F [G [E [T N]]]]]]]].
    unfold name_is_empty. cbn [forallb]. unfold variant. cbn [tcname tgens]. rewrite sn_empty_plain by assumption. reflexivity.
  Qed.

  Lemma super_loop_plain f lf A : enough f lf -> plainN cx A = true ->
    forall B acc, plainN cx B = true ->
    exists r, super_loop (tn_super f lf cx) A false B acc = Ok r /\
              (r = true <-> forall o, In o B -> exists s, In s A /\ tsup cx s o).
  Proof.
    intros He PA. induction B as [|o B IH]; intros acc PB.
    - exists true. split; [reflexivity|]. split; [intros _ o []|reflexivity].
    - cbn [plainN forallb] in PB. apply andb_true_iff in PB. destruct PB as [Po PB].
      cbn [super_loop].
      destruct (mapM_ok_iff (fun s => tn_super f lf cx s o) (fun s => tsup cx s o) A) as [rs [Hrs [_ [Hex Hall]]]].
      { intros s Hs. apply tn_super_plain; auto. unfold plainN in PA. rewrite forallb_forall in PA. auto. }
      rewrite Hrs. cbn [bind negb andb].
      destruct (forallb negb rs) eqn:Efa.
      + exists false. split; [reflexivity|]. split; [discriminate|].
        intros H. destruct (H o (or_introl eq_refl)) as [s [Hs Ts]].
        exfalso. apply (proj1 Hall eq_refl s Hs Ts).
      + destruct (IH (acc || existsb (fun b => b) rs) PB) as [r [Hr Hiff]].
        exists r. split; [exact Hr|]. rewrite Hiff. split.
        * intros H o' [<- | Ho']; [|auto].
          destruct (existsb (fun b => b) rs) eqn:Eex.
          -- apply Hex. reflexivity.
          -- exfalso. assert (Hn : forallb negb rs = true).
             { clear -Eex. induction rs as [|b rs IHr]; [reflexivity|]. cbn in *.
               apply orb_false_iff in Eex. destruct Eex as [-> E]. rewrite IHr by exact E. reflexivity. }
             congruence.
        * intros H o' Ho'. apply H. right. exact Ho'.
  Qed.

  (** the characterisation: on plain names the relation always answers, and answers [nsup] *)
  Theorem super_char A B :
    plainN cx A = true -> plainN cx B = true ->
    exists r, super cx A B = Ok r /\ (r = true <-> nsup cx A B).
  Proof.
    intros PA PB. unfold super, is_superset, name_super, mkN. cbn [members inter].
    rewrite (name_empty_plain A PA), (name_empty_plain B PB).
    assert (He : enough (hfuel cx A) (lfuel cx)).
    { unfold enough, hfuel, lfuel. split; [nia|lia]. }
    destruct (super_loop_plain _ _ A He PA B false PB) as [r [Hr Hiff]].
    destruct A as [|a A]; destruct B as [|b B]; cbn [negb andb].
    - exists r. split; [exact Hr|]. rewrite Hiff. unfold nsup. tauto.
    - exists r. split; [exact Hr|]. rewrite Hiff. unfold nsup. split; [intros H; split; [discriminate|exact H]|tauto].
    - exists false. split; [reflexivity|]. split; [discriminate|]. intros [H _]. specialize (H eq_refl). discriminate.
    - exists r. split; [exact Hr|]. rewrite Hiff. unfold nsup. split; [intros H; split; [discriminate|exact H]|tauto].
  Qed.
End Plain.

(** ** Part C: the laws *)

Lemma anc_trans cx a b c : anc cx a b -> anc cx b c -> anc cx a c.
Proof. intros Hab Hbc. induction Hbc; [exact Hab|]. econstructor; eauto. Qed.

Lemma specials_inv cx :
  specials_ok cx = true ->
  (exists ca, find_cls cx ANY = Some ca /\ cl_parents ca = []) /\
  (exists cn, find_cls cx NONE = Some cn /\ cl_parents cn = []) /\
  (forall c p, In c cx -> In p (cl_parents c) -> tcname p <> NONE).
Proof.
  unfold specials_ok. intros H.
  destruct (find_cls cx ANY) as [ca|]; [|discriminate].
  destruct (find_cls cx NONE) as [cn|]; [|discriminate].
  destruct (cl_gen ca); [|discriminate]. destruct (cl_parents ca) eqn:Pa; [|discriminate].
  destruct (cl_gen cn); [|discriminate]. destruct (cl_parents cn) eqn:Pn; [|discriminate].
  split; [exists ca; auto|]. split; [exists cn; auto|].
  intros c p Hc Hp. rewrite forallb_forall in H. specialize (H c Hc). rewrite forallb_forall in H.
  specialize (H p Hp). intros E. rewrite E in H. discriminate.
Qed.

Lemma anc_any cx a : specials_ok cx = true -> anc cx a ANY -> a = ANY.
Proof.
  intros Hs H. destruct (specials_inv _ Hs) as [[ca [Fa Pa]] _].
  inversion H as [|a' b' c p F Hp _]; subst; [reflexivity|].
  rewrite Fa in F. injection F as <-. rewrite Pa in Hp. destruct Hp.
Qed.

Lemma anc_none cx a : specials_ok cx = true -> anc cx a NONE -> a = NONE.
Proof.
  intros Hs H. destruct (specials_inv _ Hs) as [_ [[cn [Fn Pn]] _]].
  inversion H as [|a' b' c p F Hp _]; subst; [reflexivity|].
  rewrite Fn in F. injection F as <-. rewrite Pn in Hp. destruct Hp.
Qed.

Lemma anc_from_none cx c : specials_ok cx = true -> anc cx NONE c -> c = NONE.
Proof.
  intros Hs H. destruct (specials_inv _ Hs) as [_ [_ Hno]].
  remember NONE as a eqn:Ea. induction H as [|a b c' p F Hp Hanc IH]; [reflexivity|].
  subst a. specialize (IH eq_refl Hno). exfalso.
  destruct (find_cls_some _ _ _ F) as [_ Hin]. exact (Hno c' p Hin Hp IH).
Qed.

Lemma psup_refl cx a : psup cx a a.
Proof. right. constructor. Qed.

Lemma psup_trans cx a b c : specials_ok cx = true -> psup cx a b -> psup cx b c -> psup cx a c.
Proof.
  intros Hs [Hab | Hab] Hbc; [left; exact Hab|].
  destruct Hbc as [Hbc | Hbc].
  - subst b. left. apply (anc_any _ _ Hs Hab).
  - right. eapply anc_trans; eauto.
Qed.

Lemma tsup_refl cx t : tsup cx t t.
Proof. right. split; [destruct (tnull t); auto | apply psup_refl]. Qed.

Lemma ANY_ne_NONE : NONE <> ANY.
Proof. discriminate. Qed.

Lemma tsup_trans cx t1 t2 t3 :
  specials_ok cx = true -> tsup cx t1 t2 -> tsup cx t2 t3 -> tsup cx t1 t3.
Proof.
  intros Hs H12 H23. unfold tsup in *. unfold is_null in *.
  destruct H23 as [[N2 E3] | [F23 P23]].
  - left. split; [|exact E3]. destruct H12 as [[N1 _] | [[N1 | N2'] _]]; auto. congruence.
  - destruct H12 as [[N1 E2] | [F12 P12]].
    + apply String.eqb_eq in E2. rewrite E2 in P23. destruct P23 as [P | P]; [exfalso; exact (ANY_ne_NONE P)|].
      apply (anc_from_none _ _ Hs) in P. left. split; [exact N1|]. rewrite P. reflexivity.
    + right. split; [|eapply psup_trans; eauto].
      destruct F12 as [N1 | N2]; [left; exact N1|]. destruct F23 as [N2' | N3]; [congruence|right; exact N3].
Qed.

Lemma nsup_refl cx A : nsup cx A A.
Proof. split; [auto|]. intros o Ho. exists o. split; [exact Ho | apply tsup_refl]. Qed.

Lemma nsup_trans cx A B C : specials_ok cx = true -> nsup cx A B -> nsup cx B C -> nsup cx A C.
Proof.
  intros Hs [E1 H1] [E2 H2]. split; [auto|].
  intros o Ho. destruct (H2 o Ho) as [s [Hs2 T2]]. destruct (H1 s Hs2) as [s' [Hs1 T1]].
  exists s'. split; [exact Hs1 | eapply tsup_trans; eauto].
Qed.

(** membership is all that matters *)
Definition same_set (A B : name) : Prop := forall t, In t A <-> In t B.

Lemma same_set_nil A : same_set A [] -> A = [].
Proof. destruct A as [|a A]; [reflexivity|]. intros H. destruct (proj1 (H a) (or_introl eq_refl)). Qed.

Lemma nsup_same_l cx A A' B : same_set A A' -> nsup cx A B -> nsup cx A' B.
Proof.
  intros S [E H]. split.
  - intros HB. specialize (E HB). subst A. apply same_set_nil. intros t. symmetry. apply S.
  - intros o Ho. destruct (H o Ho) as [s [Hs T]]. exists s. split; [apply S; exact Hs | exact T].
Qed.

Lemma nsup_same_r cx A B B' : same_set B B' -> nsup cx A B -> nsup cx A B'.
Proof.
  intros S [E H]. split.
  - intros HB. apply E. subst B'. apply same_set_nil. exact S.
  - intros o Ho. apply H. apply S. exact Ho.
Qed.

Lemma plainN_same cx A A' : same_set A A' -> plainN cx A = true -> plainN cx A' = true.
Proof. unfold plainN. rewrite !forallb_forall. intros S H t Ht. apply H. apply S. exact Ht. Qed.

Lemma perm_same A A' : Permutation A A' -> same_set A A'.
Proof. intros P t. split; apply Permutation_in; [exact P | apply Permutation_sym; exact P]. Qed.

Section Laws.
  Variable cx : ctx.
  Hypothesis Hok : ctx_ok cx = true.
  Hypothesis Hacyc : acyclic cx.

  Lemma Hspec : specials_ok cx = true.
  Proof. pose proof Hok as H. unfold ctx_ok in H. apply andb_true_iff in H. apply H. Qed.

  Lemma char A B : plainN cx A = true -> plainN cx B = true ->
    exists r, super cx A B = Ok r /\ (r = true <-> nsup cx A B).
  Proof. destruct Hacyc as [rank [Hb Hd]]. apply (super_char cx Hok rank Hb Hd). Qed.

  Lemma super_true A B : plainN cx A = true -> plainN cx B = true ->
    (super cx A B = Ok true <-> nsup cx A B).
  Proof.
    intros PA PB. destruct (char A B PA PB) as [r [Hr Hiff]]. rewrite Hr. rewrite <- Hiff.
    split; [intros H; injection H; auto | intros ->; reflexivity].
  Qed.

  Lemma super_false A B : plainN cx A = true -> plainN cx B = true ->
    (super cx A B = Ok false <-> ~ nsup cx A B).
  Proof.
    intros PA PB. destruct (char A B PA PB) as [r [Hr Hiff]]. rewrite Hr. rewrite <- Hiff.
    split; [intros H; injection H as ->; discriminate | intros H; destruct r; [exfalso; auto | reflexivity]].
  Qed.

  (** the relation is total on plain names: never an error, never divergence *)
  Theorem super_total A B : plainN cx A = true -> plainN cx B = true ->
    super cx A B = Ok true \/ super cx A B = Ok false.
  Proof. intros PA PB. destruct (char A B PA PB) as [[|] [Hr _]]; auto. Qed.

  Theorem super_refl A : plainN cx A = true -> super cx A A = Ok true.
  Proof. intros PA. apply super_true; auto. apply nsup_refl. Qed.

  Theorem super_trans A B C :
    plainN cx A = true -> plainN cx B = true -> plainN cx C = true ->
    super cx A B = Ok true -> super cx B C = Ok true -> super cx A C = Ok true.
  Proof.
    intros PA PB PC H1 H2. apply super_true in H1; auto. apply super_true in H2; auto.
    apply super_true; auto. eapply nsup_trans; eauto. apply Hspec.
  Qed.

  Lemma plain_any : is_plain_class cx ANY = true.
  Proof.
    destruct (specials_inv _ Hspec) as [[ca [Fa Pa]] _]. unfold is_plain_class. rewrite Fa.
    pose proof Hspec as H. unfold specials_ok in H. rewrite Fa in H.
    destruct (find_cls cx NONE); [|discriminate]. destruct (cl_gen ca); [reflexivity|discriminate].
  Qed.

  Theorem any_top A :
    plainN cx A = true -> A <> [] -> forallb (fun t => negb (tnull t)) A = true ->
    super cx [cls_ty ANY] A = Ok true.
  Proof.
    intros PA Hne Hnn. apply super_true; auto.
    - cbn. unfold plain. cbn [tgens tcname tnull cls_ty]. rewrite plain_any. reflexivity.
    - split; [intros ->; contradiction|]. intros o Ho. exists (cls_ty ANY). split; [left; reflexivity|].
      right. rewrite forallb_forall in Hnn. specialize (Hnn o Ho). apply negb_true_iff in Hnn.
      split; [right; exact Hnn | left; reflexivity].
  Qed.

  Lemma plain_cls a : is_plain_class cx a = true -> plainN cx [cls_ty a] = true.
  Proof. intros H. cbn. unfold plain. cbn [tgens tcname tnull cls_ty]. rewrite H. reflexivity. Qed.

  Theorem ancestor a c :
    is_plain_class cx a = true -> is_plain_class cx c = true ->
    anc cx a c -> super cx [cls_ty a] [cls_ty c] = Ok true.
  Proof.
    intros Pa Pc H. apply super_true; auto using plain_cls.
    split; [discriminate|]. intros o [<- | []]. exists (cls_ty a). split; [left; reflexivity|].
    right. split; [right; reflexivity | right; exact H].
  Qed.

  Theorem unrelated a c :
    is_plain_class cx a = true -> is_plain_class cx c = true ->
    ~ anc cx a c -> a <> ANY -> super cx [cls_ty a] [cls_ty c] = Ok false.
  Proof.
    intros Pa Pc Hn Hany. apply super_false; auto using plain_cls.
    intros [_ H]. destruct (H (cls_ty c) (or_introl eq_refl)) as [s [[<- | []] T]].
    destruct T as [[N _] | [_ [P | P]]]; [discriminate | contradiction | contradiction].
  Qed.

  (** *** nullable rules (C06, rule level) *)
  Lemma plain_nullable t : is_plain_class cx t = true -> t <> NONE -> plainN cx [TN true t []] = true.
  Proof.
    intros H Hn. cbn. unfold plain, is_null. cbn [tgens tcname tnull]. rewrite H.
    destruct (String.eqb t NONE) eqn:E; [apply String.eqb_eq in E; contradiction | reflexivity].
  Qed.

  Lemma plain_none : is_plain_class cx NONE = true.
  Proof.
    destruct (specials_inv _ Hspec) as [_ [[cn [Fn Pn]] _]]. unfold is_plain_class. rewrite Fn.
    pose proof Hspec as H. unfold specials_ok in H. rewrite Fn in H.
    destruct (find_cls cx ANY) as [ca|]; [|discriminate].
    destruct (cl_gen ca); [|discriminate]. destruct (cl_parents ca); [|discriminate].
    destruct (cl_gen cn); [reflexivity|discriminate].
  Qed.

  Theorem nullable_accepts_none t :
    is_plain_class cx t = true -> t <> NONE -> super cx [TN true t []] [cls_ty NONE] = Ok true.
  Proof.
    intros P Hn. apply super_true; auto using plain_nullable, plain_cls, plain_none.
    split; [discriminate|]. intros o [<- | []]. exists (TN true t []). split; [left; reflexivity|].
    left. split; reflexivity.
  Qed.

  Theorem nullable_accepts_base t :
    is_plain_class cx t = true -> t <> NONE -> super cx [TN true t []] [cls_ty t] = Ok true.
  Proof.
    intros P Hn. apply super_true; auto using plain_nullable, plain_cls.
    split; [discriminate|]. intros o [<- | []]. exists (TN true t []). split; [left; reflexivity|].
    right. split; [left; reflexivity | apply psup_refl].
  Qed.

  Theorem base_rejects_nullable t u :
    is_plain_class cx t = true -> is_plain_class cx u = true -> u <> NONE ->
    super cx [cls_ty t] [TN true u []] = Ok false.
  Proof.
    intros P Pu Hn. apply super_false; auto using plain_nullable, plain_cls.
    intros [_ H]. destruct (H (TN true u []) (or_introl eq_refl)) as [s [[<- | []] T]].
    destruct T as [[N _] | [[N | N] _]]; discriminate.
  Qed.

  Theorem base_rejects_none t :
    is_plain_class cx t = true -> t <> NONE -> t <> ANY -> super cx [cls_ty t] [cls_ty NONE] = Ok false.
  Proof.
    intros P Hn Ha. apply super_false; auto using plain_cls, plain_none.
    intros [_ H]. destruct (H (cls_ty NONE) (or_introl eq_refl)) as [s [[<- | []] T]].
    destruct T as [[N _] | [_ [E | E]]]; [discriminate | contradiction |].
    apply (anc_none _ _ Hspec) in E. contradiction.
  Qed.

  (** *** the answer depends on the members only, not on their order or multiplicity *)
  Theorem super_same_set A A' B B' :
    plainN cx A = true -> plainN cx B = true -> same_set A A' -> same_set B B' ->
    super cx A B = super cx A' B'.
  Proof.
    intros PA PB SA SB.
    pose proof (plainN_same _ _ _ SA PA) as PA'. pose proof (plainN_same _ _ _ SB PB) as PB'.
    destruct (char A B PA PB) as [r [Hr Hiff]]. destruct (char A' B' PA' PB') as [r' [Hr' Hiff']].
    rewrite Hr, Hr'. f_equal.
    assert (E : nsup cx A B <-> nsup cx A' B').
    { split; intros H.
      - apply (nsup_same_l _ _ _ _ SA). apply (nsup_same_r _ _ _ _ SB). exact H.
      - assert (SA' : same_set A' A) by (intros t; symmetry; apply SA).
        assert (SB' : same_set B' B) by (intros t; symmetry; apply SB).
        apply (nsup_same_l _ _ _ _ SA'). apply (nsup_same_r _ _ _ _ SB'). exact H. }
    destruct r, r'; auto.
    - symmetry. apply Hiff'. apply E. apply Hiff. reflexivity.
    - apply Hiff. apply E. apply Hiff'. reflexivity.
  Qed.

  Theorem order_irrelevant A A' B B' :
    plainN cx A = true -> plainN cx B = true -> Permutation A A' -> Permutation B B' ->
    super cx A B = super cx A' B'.
  Proof. intros PA PB P1 P2. apply super_same_set; auto using perm_same. Qed.
End Laws.

(** *** unions *)
Local Open Scope list_scope.

Definition flat (l : name) : Prop := forall t, In t l -> tgens t = [].

Lemma flat_eqb l : flat l -> forall a b, In a l -> In b l -> (ty_eqb a b = true <-> a = b).
Proof.
  intros Hf a b Ha Hb. specialize (Hf a Ha). destruct a as [n s g]. cbn [tgens] in Hf. subst g.
  rewrite ty_eqb_plain_l. split; intros H; symmetry; exact H.
Qed.

Lemma plain_flat cx l : plainN cx l = true -> flat l.
Proof.
  unfold plainN. rewrite forallb_forall. intros H t Ht. specialize (H t Ht).
  destruct (plain_inv _ _ H) as [n [s [c [-> _]]]]. reflexivity.
Qed.

Lemma flat_app a b : flat a -> flat b -> flat (a ++ b).
Proof. intros Ha Hb t Ht. apply in_app_or in Ht. destruct Ht; auto. Qed.

Lemma in_nub_flat l x : flat l -> (In x (nub ty_eqb l) <-> In x l).
Proof. intros Hf. split; [apply nub_in | apply nub_complete; apply flat_eqb; exact Hf]. Qed.

Lemma nodup_nub_flat l : flat l -> NoDup (nub ty_eqb l).
Proof. intros Hf. apply nub_nodup. apply flat_eqb. exact Hf. Qed.

Lemma existsb_same {A : Type} (f : A -> bool) l l' :
  (forall x, In x l <-> In x l') -> existsb f l = existsb f l'.
Proof.
  intros S. destruct (existsb f l) eqn:E1; destruct (existsb f l') eqn:E2; auto.
  - apply existsb_exists in E1. destruct E1 as [x [Hx Fx]].
    assert (existsb f l' = true) by (apply existsb_exists; exists x; split; [apply S; exact Hx | exact Fx]). congruence.
  - apply existsb_exists in E2. destruct E2 as [x [Hx Fx]].
    assert (existsb f l = true) by (apply existsb_exists; exists x; split; [apply S; exact Hx | exact Fx]). congruence.
Qed.

Definition mixed (ns : name) : bool := existsb is_null ns && Nat.ltb 1 (List.length ns).
(** the union rewrites its members: a null member next to another member *)
Definition mixes (a b : name) : bool := mixed (nub ty_eqb (a ++ b)).

Lemma union_unfold a b :
  union_members a b =
  if mixes a b then nub ty_eqb (map as_nullable (filter (fun t => negb (is_null t)) (nub ty_eqb (a ++ b))))
  else nub ty_eqb (a ++ b).
Proof. reflexivity. Qed.

Lemma flat_nullable l : flat l -> flat (map as_nullable l).
Proof.
  intros Hf t Ht. apply in_map_iff in Ht. destruct Ht as [x [<- Hx]]. specialize (Hf x Hx).
  destruct x as [n s g]. exact Hf.
Qed.

Lemma union_in_nomix a b x : flat a -> flat b -> mixes a b = false ->
  (In x (union_members a b) <-> In x a \/ In x b).
Proof.
  intros Fa Fb M. rewrite union_unfold, M. rewrite in_nub_flat by (apply flat_app; assumption).
  apply in_app_iff.
Qed.

Lemma union_in_mix a b y : flat a -> flat b -> mixes a b = true ->
  (In y (union_members a b) <-> exists x, (In x a \/ In x b) /\ is_null x = false /\ y = as_nullable x).
Proof.
  intros Fa Fb M. rewrite union_unfold, M.
  assert (Fab : flat (a ++ b)) by (apply flat_app; assumption).
  rewrite in_nub_flat.
  2:{ apply flat_nullable. intros t Ht. apply filter_In in Ht. destruct Ht as [Ht _].
      apply nub_in in Ht. apply Fab. exact Ht. }
  rewrite in_map_iff. split.
  - intros [x [<- Hx]]. apply filter_In in Hx. destruct Hx as [Hx Hn]. apply nub_in in Hx.
    exists x. split; [apply in_app_iff; exact Hx|]. split; [apply negb_true_iff; exact Hn | reflexivity].
  - intros [x [Hx [Hn ->]]]. exists x. split; [reflexivity|]. apply filter_In. split.
    + apply in_nub_flat; [exact Fab | apply in_app_iff; exact Hx].
    + rewrite Hn. reflexivity.
Qed.

(** a plain member that is null is the class None itself *)
Lemma plain_null cx t : plain cx t = true -> is_null t = true -> t = cls_ty NONE.
Proof.
  intros P N. destruct (plain_inv _ _ P) as [n [s [c [-> [_ [_ [_ [_ Hn]]]]]]]].
  unfold is_null in N. cbn [tcname] in N. apply String.eqb_eq in N. subst s.
  destruct n; [exfalso; apply Hn; reflexivity | reflexivity].
Qed.

Lemma mixed_has_nonnull cx ns :
  plainN cx ns = true -> NoDup ns -> mixed ns = true -> exists x, In x ns /\ is_null x = false.
Proof.
  intros P ND M. unfold mixed in M. apply andb_true_iff in M. destruct M as [_ L].
  apply Nat.ltb_lt in L. destruct ns as [|x [|y r]]; cbn in L; try lia.
  unfold plainN in P. rewrite forallb_forall in P.
  destruct (is_null x) eqn:Nx; [|exists x; split; [left; reflexivity | exact Nx]].
  destruct (is_null y) eqn:Ny; [|exists y; split; [right; left; reflexivity | exact Ny]].
  exfalso. apply plain_null with (cx := cx) in Nx; [|apply P; left; reflexivity].
  apply plain_null with (cx := cx) in Ny; [|apply P; right; left; reflexivity].
  inversion ND as [|? ? Hnin _]. apply Hnin. left. congruence.
Qed.

Section UnionLaws.
  Variable cx : ctx.
  Hypothesis Hok : ctx_ok cx = true.
  Hypothesis Hacyc : acyclic cx.

  Lemma plain_nub_app A B : plainN cx A = true -> plainN cx B = true -> plainN cx (nub ty_eqb (A ++ B)) = true.
  Proof.
    intros PA PB. unfold plainN in *. rewrite forallb_forall in *. intros t Ht. apply nub_in in Ht.
    apply in_app_or in Ht. destruct Ht; auto.
  Qed.

  Lemma plain_as_nullable t : plain cx t = true -> is_null t = false -> plain cx (as_nullable t) = true.
  Proof.
    intros P N. destruct (plain_inv _ _ P) as [n [s [c [-> _]]]].
    unfold plain in *. unfold is_null in *. cbn [as_nullable tgens tcname tnull] in *.
    rewrite N. rewrite andb_false_r. cbn [negb]. rewrite andb_true_r.
    apply andb_true_iff in P. destruct P as [P _]. exact P.
  Qed.

  Lemma union_plain A B : plainN cx A = true -> plainN cx B = true -> plainN cx (union_members A B) = true.
  Proof.
    intros PA PB. pose proof (plain_flat _ _ PA) as FA. pose proof (plain_flat _ _ PB) as FB.
    destruct (mixes A B) eqn:M.
    - unfold plainN. rewrite forallb_forall. intros y Hy. apply (union_in_mix _ _ _ FA FB M) in Hy.
      destruct Hy as [x [Hx [Hn ->]]]. apply plain_as_nullable; [|exact Hn].
      unfold plainN in PA, PB. rewrite forallb_forall in PA, PB. destruct Hx; auto.
    - unfold plainN. rewrite forallb_forall. intros y Hy. apply (union_in_nomix _ _ _ FA FB M) in Hy.
      unfold plainN in PA, PB. rewrite forallb_forall in PA, PB. destruct Hy; auto.
  Qed.

  Lemma tsup_nullable_self t : tsup cx (as_nullable t) t.
  Proof. destruct t as [n s g]. right. split; [left; reflexivity | apply psup_refl]. Qed.

  (** a member of either side is covered by the union *)
  Lemma union_covers A B o :
    plainN cx A = true -> plainN cx B = true -> In o A \/ In o B ->
    exists s, In s (union_members A B) /\ tsup cx s o.
  Proof.
    intros PA PB Ho. pose proof (plain_flat _ _ PA) as FA. pose proof (plain_flat _ _ PB) as FB.
    destruct (mixes A B) eqn:M.
    - destruct (is_null o) eqn:No.
      + destruct (mixed_has_nonnull cx (nub ty_eqb (A ++ B))) as [x [Hx Nx]].
        * apply plain_nub_app; assumption.
        * apply nodup_nub_flat. apply flat_app; assumption.
        * exact M.
        * apply nub_in in Hx. apply in_app_or in Hx.
          exists (as_nullable x). split.
          -- apply (union_in_mix _ _ _ FA FB M). exists x. auto.
          -- left. split; [destruct x; reflexivity | exact No].
      + exists (as_nullable o). split; [|apply tsup_nullable_self].
        apply (union_in_mix _ _ _ FA FB M). exists o. auto.
    - exists o. split; [|apply tsup_refl]. apply (union_in_nomix _ _ _ FA FB M). exact Ho.
  Qed.

  Lemma nsup_union_l A B : plainN cx A = true -> plainN cx B = true -> A <> [] -> nsup cx (union_members A B) A.
  Proof. intros PA PB Hne. split; [intros E; contradiction|]. intros o Ho. apply union_covers; auto. Qed.

  Lemma nsup_union_r A B : plainN cx A = true -> plainN cx B = true -> B <> [] -> nsup cx (union_members A B) B.
  Proof. intros PA PB Hne. split; [intros E; contradiction|]. intros o Ho. apply union_covers; auto. Qed.

  (** the union of two types accepts both *)
  Theorem union_upper A B :
    plainN cx A = true -> plainN cx B = true -> A <> [] -> B <> [] ->
    super cx (union_members A B) A = Ok true /\ super cx (union_members A B) B = Ok true.
  Proof.
    intros PA PB HA HB. split; apply (super_true cx Hok Hacyc); auto using union_plain, nsup_union_l, nsup_union_r.
  Qed.

  (** whatever accepts the union accepts each side *)
  Theorem union_member_fwd U A B :
    plainN cx U = true -> plainN cx A = true -> plainN cx B = true -> A <> [] -> B <> [] ->
    super cx U (union_members A B) = Ok true -> super cx U A = Ok true /\ super cx U B = Ok true.
  Proof.
    intros PU PA PB HA HB H. apply (super_true cx Hok Hacyc) in H; auto using union_plain.
    split; apply (super_true cx Hok Hacyc); auto; (eapply nsup_trans; [apply (Hspec cx Hok) | exact H |]);
      auto using nsup_union_l, nsup_union_r.
  Qed.

  Lemma nsup_union_bwd U A B :
    plainN cx A = true -> plainN cx B = true ->
    mixes A B = false \/ forallb tnull U = true ->
    nsup cx U A -> nsup cx U B -> nsup cx U (union_members A B).
  Proof.
    intros PA PB Hk [EA HA] [EB HB]. pose proof (plain_flat _ _ PA) as FA. pose proof (plain_flat _ _ PB) as FB.
    split.
    - intros E. apply EA. destruct A as [|a A]; [reflexivity|]. exfalso.
      destruct (union_covers (a :: A) B a PA PB (or_introl (or_introl eq_refl))) as [s [Hs _]].
      rewrite E in Hs. destruct Hs.
    - intros o Ho. destruct (mixes A B) eqn:M.
      + destruct Hk as [Hk | Hk]; [discriminate|].
        apply (union_in_mix _ _ _ FA FB M) in Ho. destruct Ho as [x [Hx [Nx ->]]].
        assert (Hc : exists s, In s U /\ tsup cx s x) by (destruct Hx; auto).
        destruct Hc as [s [Hs T]]. exists s. split; [exact Hs|].
        rewrite forallb_forall in Hk. specialize (Hk s Hs).
        destruct T as [[_ N] | [_ P]]; [congruence|].
        right. split; [left; exact Hk|]. destruct x as [n sx g]. exact P.
      + apply (union_in_nomix _ _ _ FA FB M) in Ho. destruct Ho; auto.
  Qed.

  (** a union is accepted when each side is: outside the known class [mixes A B] (D23), or when every member
      of the accepting name is nullable *)
  Theorem union_member_bwd_outside_known U A B :
    plainN cx U = true -> plainN cx A = true -> plainN cx B = true ->
    mixes A B = false \/ forallb tnull U = true ->
    super cx U A = Ok true -> super cx U B = Ok true -> super cx U (union_members A B) = Ok true.
  Proof.
    intros PU PA PB Hk H1 H2. apply (super_true cx Hok Hacyc) in H1; auto. apply (super_true cx Hok Hacyc) in H2; auto.
    apply (super_true cx Hok Hacyc); auto using union_plain, nsup_union_bwd.
  Qed.

  Lemma mixes_comm A B : flat A -> flat B -> mixes A B = mixes B A.
  Proof.
    intros FA FB. unfold mixes, mixed.
    assert (S : forall x, In x (nub ty_eqb (A ++ B)) <-> In x (nub ty_eqb (B ++ A))).
    { intros x. rewrite !in_nub_flat by (apply flat_app; assumption). rewrite !in_app_iff. tauto. }
    rewrite (existsb_same is_null _ _ S). f_equal. f_equal.
    apply Permutation_length. apply NoDup_Permutation; auto using nodup_nub_flat, flat_app.
  Qed.

  Theorem union_comm A B : plainN cx A = true -> plainN cx B = true ->
    same_set (union_members A B) (union_members B A).
  Proof.
    intros PA PB. pose proof (plain_flat _ _ PA) as FA. pose proof (plain_flat _ _ PB) as FB.
    intros t. destruct (mixes A B) eqn:M.
    - rewrite (union_in_mix _ _ _ FA FB M). rewrite (mixes_comm _ _ FA FB) in M.
      rewrite (union_in_mix _ _ _ FB FA M). split; intros [x [Hx R]]; exists x; (split; [tauto | exact R]).
    - rewrite (union_in_nomix _ _ _ FA FB M). rewrite (mixes_comm _ _ FA FB) in M.
      rewrite (union_in_nomix _ _ _ FB FA M). tauto.
  Qed.

  Theorem union_idem_outside_known A : plainN cx A = true -> mixes A A = false ->
    same_set (union_members A A) A.
  Proof.
    intros PA M. pose proof (plain_flat _ _ PA) as FA. intros t.
    rewrite (union_in_nomix _ _ _ FA FA M). tauto.
  Qed.

  Lemma no_null_nomix A B : existsb is_null (A ++ B) = false -> flat A -> flat B -> mixes A B = false.
  Proof.
    intros H FA FB. unfold mixes, mixed.
    rewrite (existsb_same is_null _ (A ++ B)); [rewrite H; reflexivity|].
    intros x. apply in_nub_flat. apply flat_app; assumption.
  Qed.

  Theorem union_assoc_outside_known A B C :
    plainN cx A = true -> plainN cx B = true -> plainN cx C = true ->
    existsb is_null (A ++ B ++ C) = false ->
    same_set (union_members (union_members A B) C) (union_members A (union_members B C)).
  Proof.
    intros PA PB PC Hn. pose proof (plain_flat _ _ PA) as FA. pose proof (plain_flat _ _ PB) as FB.
    pose proof (plain_flat _ _ PC) as FC.
    rewrite !existsb_app in Hn. apply orb_false_iff in Hn. destruct Hn as [NA Hn].
    apply orb_false_iff in Hn. destruct Hn as [NB NC].
    assert (MAB : mixes A B = false) by (apply no_null_nomix; auto; rewrite existsb_app, NA, NB; reflexivity).
    assert (MBC : mixes B C = false) by (apply no_null_nomix; auto; rewrite existsb_app, NB, NC; reflexivity).
    pose proof (plain_flat _ _ (union_plain _ _ PA PB)) as FAB.
    pose proof (plain_flat _ _ (union_plain _ _ PB PC)) as FBC.
    assert (NAB : existsb is_null (union_members A B) = false).
    { rewrite (existsb_same is_null _ (A ++ B)); [rewrite existsb_app, NA, NB; reflexivity|].
      intros x. rewrite (union_in_nomix _ _ _ FA FB MAB). symmetry. apply in_app_iff. }
    assert (NBC : existsb is_null (union_members B C) = false).
    { rewrite (existsb_same is_null _ (B ++ C)); [rewrite existsb_app, NB, NC; reflexivity|].
      intros x. rewrite (union_in_nomix _ _ _ FB FC MBC). symmetry. apply in_app_iff. }
    assert (M1 : mixes (union_members A B) C = false) by (apply no_null_nomix; auto; rewrite existsb_app, NAB, NC; reflexivity).
    assert (M2 : mixes A (union_members B C) = false) by (apply no_null_nomix; auto; rewrite existsb_app, NA, NBC; reflexivity).
    intros t. rewrite (union_in_nomix _ _ _ FAB FC M1), (union_in_nomix _ _ _ FA FBC M2).
    rewrite (union_in_nomix _ _ _ FA FB MAB), (union_in_nomix _ _ _ FB FC MBC). tauto.
  Qed.
End UnionLaws.

(** ** Part D: the decidable acyclicity check implies [acyclic]; divergence on a cyclic table *)

Definition hstep (g : ty -> option nat) (p : ty) (acc : option nat) : option nat :=
  match g p, acc with
  | Some h, Some a => Some (Nat.max (S h) a)
  | _, _ => None
  end.

Lemma height_S f cx s :
  height (S f) cx s =
  match find_cls cx s with
  | None => Some 0
  | Some c => fold_right (hstep (fun p => height f cx (tcname p))) (Some 0) (cl_parents c)
  end.
Proof. reflexivity. Qed.

Lemma hfold_inv g ps h :
  fold_right (hstep g) (Some 0) ps = Some h -> forall p, In p ps -> exists hp, g p = Some hp /\ hp < h.
Proof.
  revert h. induction ps as [|q ps IH]; intros h H p Hp; [destruct Hp|].
  cbn [fold_right] in H. unfold hstep at 1 in H.
  destruct (g q) as [hq|] eqn:Gq; [|discriminate].
  destruct (fold_right (hstep g) (Some 0) ps) as [a|] eqn:Fa; [|discriminate].
  injection H as <-. destruct Hp as [<- | Hp].
  - exists hq. split; [exact Gq | destruct a; lia].
  - destruct (IH a eq_refl p Hp) as [hp [G L]]. exists hp. split; [exact G | destruct a; lia].
Qed.

Lemma hfold_ext g g' ps h :
  (forall p hp, In p ps -> g p = Some hp -> g' p = Some hp) ->
  fold_right (hstep g) (Some 0) ps = Some h -> fold_right (hstep g') (Some 0) ps = Some h.
Proof.
  revert h. induction ps as [|q ps IH]; intros h E H; [exact H|].
  cbn [fold_right] in *. unfold hstep at 1 in H. unfold hstep at 1.
  destruct (g q) as [hq|] eqn:Gq; [|discriminate].
  destruct (fold_right (hstep g) (Some 0) ps) as [a|] eqn:Fa; [|discriminate].
  rewrite (E q hq (or_introl eq_refl) Gq). rewrite (IH a); [exact H | | reflexivity].
  intros p hp Hp. apply E. right. exact Hp.
Qed.

Lemma hfold_bound g ps h n :
  (forall p hp, In p ps -> g p = Some hp -> hp < n) ->
  fold_right (hstep g) (Some 0) ps = Some h -> h <= n.
Proof.
  revert h. induction ps as [|q ps IH]; intros h B H.
  - injection H as <-. lia.
  - cbn [fold_right] in H. unfold hstep at 1 in H.
    destruct (g q) as [hq|] eqn:Gq; [|discriminate].
    destruct (fold_right (hstep g) (Some 0) ps) as [a|] eqn:Fa; [|discriminate].
    injection H as <-. specialize (B q hq (or_introl eq_refl) Gq) as Bq.
    assert (a <= n). { apply (IH a); [|reflexivity]. intros p hp Hp. apply B. right. exact Hp. }
    destruct a; lia.
Qed.

Lemma height_lt f cx : forall s h, height f cx s = Some h -> h < f.
Proof.
  induction f as [|f IH]; intros s h H; [discriminate|].
  rewrite height_S in H. destruct (find_cls cx s) as [c|]; [|injection H as <-; lia].
  apply (hfold_bound _ _ _ f) in H; [lia|]. intros p hp _ Hp. apply (IH _ _ Hp).
Qed.

Lemma height_mono f cx : forall s h, height f cx s = Some h -> height (S f) cx s = Some h.
Proof.
  induction f as [|f IH]; intros s h H; [discriminate|].
  rewrite height_S in H. rewrite height_S. destruct (find_cls cx s) as [c|]; [|exact H].
  eapply hfold_ext; [|exact H]. intros p hp _ Hp. apply IH. exact Hp.
Qed.

Lemma find_cls_unique cx c :
  uniqueb (map cl_name cx) = true -> In c cx -> find_cls cx (cl_name c) = Some c.
Proof.
  induction cx as [|d cx IH]; intros U Hc; [destruct Hc|].
  cbn [map uniqueb] in U. apply andb_true_iff in U. destruct U as [Hn U].
  unfold find_cls. cbn [find]. destruct Hc as [<- | Hc].
  - rewrite String.eqb_refl. reflexivity.
  - destruct (String.eqb (cl_name d) (cl_name c)) eqn:E; [|apply IH; assumption].
    exfalso. apply negb_true_iff in Hn. apply String.eqb_eq in E.
    assert (existsb (String.eqb (cl_name d)) (map cl_name cx) = true); [|congruence].
    apply existsb_exists. exists (cl_name c). split; [apply in_map; exact Hc | rewrite E; apply String.eqb_refl].
Qed.

Theorem acyclicb_acyclic cx :
  uniqueb (map cl_name cx) = true -> acyclicb cx = true -> acyclic cx.
Proof.
  intros U H. unfold acyclicb in H. rewrite forallb_forall in H.
  exists (fun s => match height (List.length cx) cx s with Some h => h | None => 0 end).
  split.
  - intros c Hc. specialize (H c Hc). destruct (height (List.length cx) cx (cl_name c)) as [h|] eqn:E; [|discriminate].
    apply height_lt in E. exact E.
  - intros c p Hc Hp. specialize (H c Hc).
    destruct (height (List.length cx) cx (cl_name c)) as [h|] eqn:E; [|discriminate].
    destruct (List.length cx) as [|n] eqn:L; [discriminate|].
    rewrite height_S in E. rewrite (find_cls_unique _ _ U Hc) in E.
    destruct (hfold_inv _ _ _ E p Hp) as [hp [G Lt]].
    apply height_mono in G. rewrite G. exact Lt.
Qed.

Theorem ctx_acyclic cx : ctx_ok cx = true -> acyclicb cx = true -> acyclic cx.
Proof.
  intros H. apply acyclicb_acyclic. unfold ctx_ok in H. apply andb_true_iff in H. destruct H as [H _].
  apply andb_true_iff in H. apply H.
Qed.

(** a class that inherits from itself: class lookup does not terminate, whatever the fuel (D8) *)
Definition cyclic_table : ctx := [{| cl_name := "A"; cl_gen := []; cl_parents := [cls_ty "A"] |}].

Theorem cyclic_diverges : forall f, lookup f cyclic_table ("A", []) = Div.
Proof.
  induction f as [|f IH]; [reflexivity|].
  cbn [lookup]. change (find_cls cyclic_table (fst ("A", []))) with (Some {| cl_name := "A"; cl_gen := []; cl_parents := [cls_ty "A"] |}).
  change (String.eqb (fst ("A", [])) TUPLE) with false. cbn iota.
  cbn [cl_gen cl_name cl_parents snd zip_longest].
  change (subst_sn [] ("A", [])) with (Ok ("A", @nil name)). cbn [bind].
  change (mapM (subst_ty []) [cls_ty "A"]) with (Ok [cls_ty "A"]). cbn [bind].
  change (nub ty_eqb [cls_ty "A"]) with [cls_ty "A"].
  cbn [mapM]. change (variant (cls_ty "A")) with ("A", @nil name). rewrite IH. reflexivity.
Qed.
