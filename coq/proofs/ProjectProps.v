(** * ProjectProps.v - theorems about the project driver model (property C13) *)
From Coq Require Import List String Ascii Bool Arith Lia Permutation.
Import ListNotations.
From MambaModel Require Import model.Project proofs.ProjectFs.
Local Open Scope string_scope.
Local Open Scope list_scope.

Lemma Forall2_len : forall (A B : Type) (R : A -> B -> Prop) l l', Forall2 R l l' -> List.length l = List.length l'.
Proof. induction 1; cbn; congruence. Qed.

Lemma forall2_impl_in : forall (A B : Type) (R R' : A -> B -> Prop) l l',
  Forall2 R l l' -> (forall x y, In x l -> R x y -> R' x y) -> Forall2 R' l l'.
Proof.
  induction 1; intros H1; constructor; [apply H1; [now left | assumption]|].
  apply IHForall2. intros a b Ia. apply H1. now right.
Qed.

Section Props.
  Variable W : world.
  Notation E := (err (w_msg W)).
  Notation LK := (lookups (w_centry W) (w_dentry W) (w_fentry W)).
  Notation CTX := (context (w_centry W) (w_dentry W) (w_fentry W)).
  Notation DECLS := (decls (w_centry W) (w_dentry W) (w_fentry W)).

  (** ** The pipeline, stage by stage *)
  Definition stripped (dir : path) (source : list input) : list input :=
    map (fun sp : input => (fst sp, option_map (strip_prefix dir) (snd sp))) source.

  Definition parse_errs (src : list input) : list E :=
    flat_map (fun sp : input => match w_parse W (fst sp) with Err m => [EStage SParse (snd sp) m] | Ok _ => [] end) src.
  Definition parse_oks (src : list input) : list (w_ast W * option path) :=
    flat_map (fun sp : input => match w_parse W (fst sp) with Ok a => [(a, snd sp)] | Err _ => [] end) src.
  Definition asts_of (src : list input) : list (w_ast W) :=
    flat_map (fun sp : input => match w_parse W (fst sp) with Ok a => [a] | Err _ => [] end) src.

  Definition check_errs (lk : LK) (l : list (w_ast W * option path)) : list (list E) :=
    flat_map (fun ap => match w_check W lk (fst ap) with
                        | Err ms => [map (EStage SCheck (snd ap)) ms] | Ok _ => [] end) l.
  Definition check_oks (lk : LK) (l : list (w_ast W * option path)) : list (w_tast W * option path) :=
    flat_map (fun ap => match w_check W lk (fst ap) with Ok t => [(t, snd ap)] | Err _ => [] end) l.

  Definition gen_errs (ann : bool) (lk : LK) (l : list (w_tast W * option path)) : list E :=
    flat_map (fun tp => match w_gen W ann lk (fst tp) with
                        | Err m => [EStage SGen (snd tp) m] | Ok _ => [] end) l.
  Definition gen_oks (ann : bool) (lk : LK) (l : list (w_tast W * option path)) : list string :=
    flat_map (fun tp => match w_gen W ann lk (fst tp) with Ok py => [py] | Err _ => [] end) l.

  Lemma parse_all_eq : forall src, parse_all (w_parse W) src = (parse_oks src, parse_errs src).
  Proof.
    induction src as [|[s p] src IH]; [reflexivity|]. cbn [parse_all]. rewrite IH.
    unfold parse_oks, parse_errs. cbn [flat_map fst snd]. destruct (w_parse W s); reflexivity.
  Qed.

  Lemma check_all_eq : forall lk l, check_all (w_check W) lk l = (check_oks lk l, check_errs lk l).
  Proof.
    intros lk. induction l as [|[a p] l IH]; [reflexivity|]. cbn [check_all]. rewrite IH.
    unfold check_oks, check_errs. cbn [flat_map fst snd]. destruct (w_check W lk a); reflexivity.
  Qed.

  Lemma gen_all_eq : forall ann lk l, gen_all (w_gen W) ann lk l = (gen_oks ann lk l, gen_errs ann lk l).
  Proof.
    intros ann lk. induction l as [|[t p] l IH]; [reflexivity|]. cbn [gen_all]. rewrite IH.
    unfold gen_oks, gen_errs. cbn [flat_map fst snd]. destruct (w_gen W ann lk t); reflexivity.
  Qed.

  Lemma asts_of_oks : forall src, map fst (parse_oks src) = asts_of src.
  Proof.
    induction src as [|[s p] src IH]; [reflexivity|]. unfold parse_oks, asts_of in *. cbn [flat_map fst snd].
    rewrite map_app, IH. destruct (w_parse W s); reflexivity.
  Qed.

  Lemma asts_of_stripped : forall dir src, asts_of (stripped dir src) = asts_of src.
  Proof.
    intros dir. induction src as [|[s p] src IH]; [reflexivity|]. unfold asts_of, stripped in *. cbn [map flat_map fst snd].
    now rewrite IH.
  Qed.

  (** the definition of [mamba_to_python], with the partitions written as filters *)
  Definition m2p_spec (ord : enumeration) (ann : bool) (source : list input) (dir : path)
    : res (list string) (list E) :=
    let src := stripped dir source in
    match parse_errs src with
    | e :: es => Err (e :: es)
    | [] =>
        match w_build_ctx W (asts_of source) with
        | Err ms =>
            match w_ctx_blame W (parse_oks src) with
            | [] => Err (map (EStage SCtx None) ms)
            | e :: es => Err (e :: es)
            end
        | Ok ctx =>
            let lk := w_lookups W ord ctx in
            match check_errs lk (parse_oks src) with
            | e :: es => Err (List.concat (e :: es))
            | [] =>
                match gen_errs ann lk (check_oks lk (parse_oks src)) with
                | e :: es => Err (e :: es)
                | [] => Ok (gen_oks ann lk (check_oks lk (parse_oks src)))
                end
            end
        end
    end.

  Lemma m2p_eq : forall ord ann source dir, m2p W ord ann source dir = m2p_spec ord ann source dir.
  Proof.
    intros ord ann source dir. unfold m2p, mamba_to_python, m2p_spec.
    fold (stripped dir source). rewrite parse_all_eq.
    destruct (parse_errs (stripped dir source)) as [|e es]; [|reflexivity].
    rewrite asts_of_oks, asts_of_stripped. unfold w_build_ctx.
    destruct (build_ctx _ _ _ _ _ _ _ _ _ _ _ _ _ _ _ _ (asts_of source)) as [ctx|ms]; [|reflexivity].
    cbv zeta. unfold w_lookups. rewrite check_all_eq.
    destruct (check_errs _ _) as [|e es]; [|reflexivity].
    rewrite gen_all_eq. destruct (gen_errs _ _ _) as [|e es]; reflexivity.
  Qed.

  (** ** What one file becomes, given the look-ups of the shared context *)
  Definition file_out (ann : bool) (lk : LK) (s : string) : option string :=
    match w_parse W s with
    | Ok a => match w_check W lk a with
              | Ok t => match w_gen W ann lk t with Ok py => Some py | Err _ => None end
              | Err _ => None
              end
    | Err _ => None
    end.

  Lemma chain_ok : forall ann lk src,
    parse_errs src = [] -> check_errs lk (parse_oks src) = [] ->
    gen_errs ann lk (check_oks lk (parse_oks src)) = [] ->
    Forall2 (fun (sp : input) py => file_out ann lk (fst sp) = Some py) src
            (gen_oks ann lk (check_oks lk (parse_oks src))).
  Proof.
    intros ann lk. induction src as [|[s p] src IH]; intros H1 H2 H3; [constructor|].
    unfold parse_errs, parse_oks in *. cbn [flat_map fst snd] in *.
    destruct (w_parse W s) as [a|m] eqn:P; [|discriminate]. cbn [app] in *.
    unfold check_errs, check_oks in *. cbn [flat_map fst snd] in *.
    destruct (w_check W lk a) as [t|ms] eqn:C; [|discriminate]. cbn [app] in *.
    unfold gen_errs, gen_oks in *. cbn [flat_map fst snd] in *.
    destruct (w_gen W ann lk t) as [py|m] eqn:G; [|discriminate]. cbn [app] in *.
    constructor; [|now apply IH]. unfold file_out. cbn [fst]. now rewrite P, C, G.
  Qed.

  Lemma chain_ok_inv : forall ann lk src pys,
    Forall2 (fun (sp : input) py => file_out ann lk (fst sp) = Some py) src pys ->
    parse_errs src = [] /\ check_errs lk (parse_oks src) = [] /\
    gen_errs ann lk (check_oks lk (parse_oks src)) = [] /\
    gen_oks ann lk (check_oks lk (parse_oks src)) = pys.
  Proof.
    intros ann lk. induction src as [|[s p] src IH]; intros pys H; inversion H; subst; [repeat split|].
    destruct (IH _ H4) as (I1 & I2 & I3 & I4). unfold file_out in H2. cbn [fst] in H2.
    unfold parse_errs, parse_oks in *. cbn [flat_map fst snd].
    destruct (w_parse W s) as [a|m] eqn:P; [|discriminate]. cbn [app].
    unfold check_errs, check_oks in *. cbn [flat_map fst snd].
    destruct (w_check W lk a) as [t|ms] eqn:C; [|discriminate]. cbn [app].
    unfold gen_errs, gen_oks in *. cbn [flat_map fst snd].
    destruct (w_gen W ann lk t) as [py|m] eqn:G; [|discriminate]. cbn [app].
    injection H2 as <-. repeat split; try assumption. now rewrite I4.
  Qed.

  Lemma file_out_stripped : forall ann lk dir source pys,
    Forall2 (fun (sp : input) py => file_out ann lk (fst sp) = Some py) (stripped dir source) pys <->
    Forall2 (fun (sp : input) py => file_out ann lk (fst sp) = Some py) source pys.
  Proof.
    intros ann lk dir. induction source as [|[s p] source IH]; intros pys; split; intro H; inversion H; subst;
      try constructor; try assumption; now apply IH.
  Qed.

  (** [mamba_to_python] succeeds exactly when the context can be built and every file passes every
      stage against it; the outputs are then the per-file outputs, in input order. *)
  Theorem m2p_ok_iff : forall ord ann source dir pys,
    m2p W ord ann source dir = Ok pys <->
    exists ctx, w_build_ctx W (asts_of source) = Ok ctx /\
                Forall2 (fun (sp : input) py => file_out ann (w_lookups W ord ctx) (fst sp) = Some py) source pys.
  Proof.
    intros ord ann source dir pys. rewrite m2p_eq. unfold m2p_spec. cbv zeta. split.
    - destruct (parse_errs _) eqn:P; [|discriminate].
      destruct (w_build_ctx W _) as [ctx|ms]; [|destruct (w_ctx_blame W _); discriminate].
      destruct (check_errs _ _) eqn:C; [|discriminate].
      destruct (gen_errs _ _ _) eqn:G; [|discriminate]. intros [= <-].
      exists ctx. split; [reflexivity|]. apply (file_out_stripped _ _ dir). now apply chain_ok.
    - intros (ctx & B & F). rewrite B. apply (file_out_stripped _ _ dir) in F.
      destruct (chain_ok_inv _ _ _ _ F) as (-> & -> & -> & ->). reflexivity.
  Qed.

  (** ** Errors: every diagnostic of the parse, check and generate stages carries the (stripped) path
      of a file that fails that stage with that message; a failing file is never dropped. *)
  Lemma in_parse_errs : forall src e, In e (parse_errs src) <->
    exists s p m, In (s, p) src /\ w_parse W s = Err m /\ e = EStage SParse p m.
  Proof.
    intros src e. unfold parse_errs. rewrite in_flat_map. split.
    - intros ([s p] & I & H). cbn [fst snd] in H. destruct (w_parse W s) as [a|m] eqn:P; [destruct H|].
      destruct H as [<-|[]]. now exists s, p, m.
    - intros (s & p & m & I & P & ->). exists (s, p). split; [assumption|]. cbn [fst snd]. rewrite P. now left.
  Qed.

  Lemma in_parse_oks : forall src a p, In (a, p) (parse_oks src) <-> exists s, In (s, p) src /\ w_parse W s = Ok a.
  Proof.
    intros src a p. unfold parse_oks. rewrite in_flat_map. split.
    - intros ([s q] & I & H). cbn [fst snd] in H. destruct (w_parse W s) as [a'|m] eqn:P; [|destruct H].
      destruct H as [[= <- <-]|[]]. now exists s.
    - intros (s & I & P). exists (s, p). split; [assumption|]. cbn [fst snd]. rewrite P. now left.
  Qed.

  Lemma in_check_errs : forall lk l e, In e (List.concat (check_errs lk l)) <->
    exists a p ms m, In (a, p) l /\ w_check W lk a = Err ms /\ In m ms /\ e = EStage SCheck p m.
  Proof.
    intros lk l e. rewrite in_concat. unfold check_errs. split.
    - intros (x & I & Hx). apply in_flat_map in I. destruct I as ([a p] & I & H). cbn [fst snd] in H.
      destruct (w_check W lk a) as [t|ms] eqn:C; [destruct H|]. destruct H as [<-|[]].
      apply in_map_iff in Hx. destruct Hx as (m & <- & Im). now exists a, p, ms, m.
    - intros (a & p & ms & m & I & C & Im & ->). exists (map (EStage SCheck p) ms). split.
      + apply in_flat_map. exists (a, p). split; [assumption|]. cbn [fst snd]. rewrite C. now left.
      + now apply in_map.
  Qed.

  Lemma in_check_oks : forall lk l t p, In (t, p) (check_oks lk l) <-> exists a, In (a, p) l /\ w_check W lk a = Ok t.
  Proof.
    intros lk l t p. unfold check_oks. rewrite in_flat_map. split.
    - intros ([a q] & I & H). cbn [fst snd] in H. destruct (w_check W lk a) as [t'|ms] eqn:C; [|destruct H].
      destruct H as [[= <- <-]|[]]. now exists a.
    - intros (a & I & C). exists (a, p). split; [assumption|]. cbn [fst snd]. rewrite C. now left.
  Qed.

  Lemma in_gen_errs : forall ann lk l e, In e (gen_errs ann lk l) <->
    exists t p m, In (t, p) l /\ w_gen W ann lk t = Err m /\ e = EStage SGen p m.
  Proof.
    intros ann lk l e. unfold gen_errs. rewrite in_flat_map. split.
    - intros ([t p] & I & H). cbn [fst snd] in H. destruct (w_gen W ann lk t) as [py|m] eqn:G; [destruct H|].
      destruct H as [<-|[]]. now exists t, p, m.
    - intros (t & p & m & I & G & ->). exists (t, p). split; [assumption|]. cbn [fst snd]. rewrite G. now left.
  Qed.

  Lemma in_stripped : forall dir source s p, In (s, p) (stripped dir source) <->
    exists p0, In (s, p0) source /\ p = option_map (strip_prefix dir) p0.
  Proof.
    intros dir source s p. unfold stripped. rewrite in_map_iff. split.
    - intros ([s0 p0] & [= <- <-] & I). now exists p0.
    - intros (p0 & I & ->). now exists (s, p0).
  Qed.

  (** *** the context stage: a project's context fails exactly because of files whose own context fails *)
  Notation collectW := (collect (w_c_key W) (w_f_key W) (w_d_name W) (w_decls_of W)).

  Lemma build_ctx_single : forall a ms, w_build_ctx W [a] = Err ms <-> w_decls_of W a = Err ms.
  Proof.
    intros a ms. unfold w_build_ctx, build_ctx. cbn [collect]. destruct (w_decls_of W a) as [d|ms'].
    - split; discriminate.
    - split; intros [= ->]; reflexivity.
  Qed.

  Lemma collect_err : forall asts acc ms, collectW asts acc = Err ms -> exists a, In a asts /\ w_decls_of W a = Err ms.
  Proof.
    induction asts as [|a asts IH]; intros acc ms H; cbn [collect] in H; [discriminate|].
    destruct (w_decls_of W a) as [d|ms'] eqn:D.
    - destruct (IH _ _ H) as (b & Ib & Hb). exists b. split; [now right | assumption].
    - injection H as ->. exists a. split; [now left | assumption].
  Qed.

  Lemma collect_in_err : forall asts acc a ms, In a asts -> w_decls_of W a = Err ms -> exists ms', collectW asts acc = Err ms'.
  Proof.
    induction asts as [|b asts IH]; intros acc a ms I H; [destruct I|]. cbn [collect].
    destruct (w_decls_of W b) as [d|ms'] eqn:D; [|now exists ms'].
    destruct I as [->|I]; [congruence | now apply (IH _ a ms)].
  Qed.

  Lemma build_ctx_err : forall asts ms, w_build_ctx W asts = Err ms -> exists a, In a asts /\ w_build_ctx W [a] = Err ms.
  Proof.
    intros asts ms H. unfold w_build_ctx, build_ctx in H.
    destruct (collectW asts no_decls) as [d|ms'] eqn:Cl; [discriminate|]. injection H as ->.
    destruct (collect_err _ _ _ Cl) as (a & Ia & Da). exists a. split; [assumption | now apply build_ctx_single].
  Qed.

  Lemma build_ctx_in_err : forall asts a ms, In a asts -> w_build_ctx W [a] = Err ms -> exists ms', w_build_ctx W asts = Err ms'.
  Proof.
    intros asts a ms I H. apply build_ctx_single in H. destruct (collect_in_err asts no_decls a ms I H) as [ms' Hc].
    exists ms'. unfold w_build_ctx, build_ctx. now rewrite Hc.
  Qed.

  Lemma in_ctx_blame : forall l e, In e (w_ctx_blame W l) <->
    exists a p ms m, In (a, p) l /\ w_build_ctx W [a] = Err ms /\ In m ms /\ e = EStage SCtx p m.
  Proof.
    intros l e. unfold w_ctx_blame, ctx_blame. rewrite in_flat_map. split.
    - intros ([a p] & I & H). cbn [fst snd] in H. fold (w_build_ctx W [a]) in H.
      destruct (w_build_ctx W [a]) as [c|ms] eqn:B; [destruct H|].
      apply in_map_iff in H. destruct H as (m & <- & Im). now exists a, p, ms, m.
    - intros (a & p & ms & m & I & B & Im & ->). exists (a, p). split; [assumption|]. cbn [fst snd].
      fold (w_build_ctx W [a]). rewrite B. now apply in_map.
  Qed.

  (** the fallback branch (no file fails alone) is only reached with an empty error list *)
  Lemma fallback_empty : forall l ms, w_build_ctx W (map fst l) = Err ms -> w_ctx_blame W l = [] -> ms = [].
  Proof.
    intros l ms B E. destruct (build_ctx_err _ _ B) as (a & Ia & Ba).
    apply in_map_iff in Ia. destruct Ia as ([a' p] & <- & I). cbn [fst] in Ba.
    destruct ms as [|m ms]; [reflexivity|]. exfalso.
    assert (X : In (EStage SCtx p m) (w_ctx_blame W l)).
    { apply in_ctx_blame. exists a', p, (m :: ms), m. repeat split; try assumption. now left. }
    rewrite E in X. destruct X.
  Qed.

  (** which file, failing which stage how, an error stands for *)
  Definition blames (ord : enumeration) (ann : bool) (source : list input) (dir : path) (e : E) : Prop :=
    match e with
    | EStage SParse p m =>
        exists s p0, In (s, p0) source /\ p = option_map (strip_prefix dir) p0 /\ w_parse W s = Err m
    | EStage SCheck p m =>
        exists s p0 a ctx ms, In (s, p0) source /\ p = option_map (strip_prefix dir) p0 /\ w_parse W s = Ok a /\
          w_build_ctx W (asts_of source) = Ok ctx /\ w_check W (w_lookups W ord ctx) a = Err ms /\ In m ms
    | EStage SGen p m =>
        exists s p0 a ctx t, In (s, p0) source /\ p = option_map (strip_prefix dir) p0 /\ w_parse W s = Ok a /\
          w_build_ctx W (asts_of source) = Ok ctx /\ w_check W (w_lookups W ord ctx) a = Ok t /\
          w_gen W ann (w_lookups W ord ctx) t = Err m
    | EStage SCtx p m =>
        (* a file whose own context (its declarations alone) cannot be built *)
        exists s p0 a ms, In (s, p0) source /\ p = option_map (strip_prefix dir) p0 /\ w_parse W s = Ok a /\
          w_build_ctx W [a] = Err ms /\ In m ms
    | _ => False
    end.

  Theorem m2p_errors_blame : forall ord ann source dir es,
    m2p W ord ann source dir = Err es -> Forall (blames ord ann source dir) es.
  Proof.
    intros ord ann source dir es. rewrite m2p_eq. unfold m2p_spec. cbv zeta. intro H. apply Forall_forall. intros e Ie.
    destruct (parse_errs _) eqn:P.
    - destruct (w_build_ctx W _) as [ctx|ms] eqn:B.
      + destruct (check_errs _ _) eqn:C.
        * destruct (gen_errs _ _ _) eqn:G; [discriminate|]. injection H as <-. rewrite <- G in Ie.
          apply in_gen_errs in Ie. destruct Ie as (t & p & m & I & Gm & ->).
          apply in_check_oks in I. destruct I as (a & I & Ca). apply in_parse_oks in I. destruct I as (s & I & Pa).
          apply in_stripped in I. destruct I as (p0 & I & ->). cbn. now exists s, p0, a, ctx, t.
        * injection H as <-. change (In e (List.concat (l :: l0))) in Ie. rewrite <- C in Ie. apply in_check_errs in Ie.
          destruct Ie as (a & p & ms & m & I & Ca & Im & ->).
          apply in_parse_oks in I. destruct I as (s & I & Pa).
          apply in_stripped in I. destruct I as (p0 & I & ->). cbn. now exists s, p0, a, ctx, ms.
      + rewrite <- asts_of_stripped with (dir := dir), <- asts_of_oks in B.
        destruct (w_ctx_blame W (parse_oks (stripped dir source))) as [|e0 es0] eqn:Bl.
        * injection H as <-. rewrite (fallback_empty _ _ B Bl) in Ie. destruct Ie.
        * injection H as <-. rewrite <- Bl in Ie. apply in_ctx_blame in Ie.
          destruct Ie as (a & p & ms' & m & I & Ba & Im & ->).
          apply in_parse_oks in I. destruct I as (s & I & Pa).
          apply in_stripped in I. destruct I as (p0 & I & ->). cbn. now exists s, p0, a, ms'.
    - injection H as <-. rewrite <- P in Ie. apply in_parse_errs in Ie. destruct Ie as (s & p & m & I & Pm & ->).
      apply in_stripped in I. destruct I as (p0 & I & ->). cbn. now exists s, p0.
  Qed.

  (** completeness: a file that does not parse is reported, whatever else happens *)
  Theorem parse_failure_reported : forall ord ann source dir s p0 m,
    In (s, p0) source -> w_parse W s = Err m ->
    exists es, m2p W ord ann source dir = Err es /\
               In (EStage SParse (option_map (strip_prefix dir) p0) m) es /\
               Forall (fun e => exists p m', e = EStage SParse p m') es.
  Proof.
    intros ord ann source dir s p0 m I P. rewrite m2p_eq. unfold m2p_spec. cbv zeta.
    assert (Ie : In (EStage SParse (option_map (strip_prefix dir) p0) m) (parse_errs (stripped dir source))).
    { apply in_parse_errs. exists s, (option_map (strip_prefix dir) p0), m. repeat split; try assumption.
      apply in_stripped. now exists p0. }
    destruct (parse_errs (stripped dir source)) as [|e es] eqn:Pe; [destruct Ie|].
    exists (e :: es). repeat split; try assumption. rewrite <- Pe. apply Forall_forall. intros x Ix.
    apply in_parse_errs in Ix. destruct Ix as (s' & p' & m' & _ & _ & ->). now exists p', m'.
  Qed.

  (** completeness for the check stage: when everything parses and the context builds, every file the
      checker rejects is reported with all its errors, and only check errors are reported *)
  Theorem check_failure_reported : forall ord ann source dir ctx s p0 a ms,
    parse_errs (stripped dir source) = [] -> w_build_ctx W (asts_of source) = Ok ctx ->
    In (s, p0) source -> w_parse W s = Ok a -> w_check W (w_lookups W ord ctx) a = Err ms ->
    exists es, m2p W ord ann source dir = Err es /\
               (forall m, In m ms -> In (EStage SCheck (option_map (strip_prefix dir) p0) m) es) /\
               Forall (fun e => exists p m', e = EStage SCheck p m') es.
  Proof.
    intros ord ann source dir ctx s p0 a ms Pe B I P C. rewrite m2p_eq. unfold m2p_spec. cbv zeta. rewrite Pe, B.
    set (lk := w_lookups W ord ctx) in *.
    assert (Ia : In (a, option_map (strip_prefix dir) p0) (parse_oks (stripped dir source))).
    { apply in_parse_oks. exists s. split; [|assumption]. apply in_stripped. now exists p0. }
    assert (Hall : forall m, In m ms -> In (EStage SCheck (option_map (strip_prefix dir) p0) m)
                                           (List.concat (check_errs lk (parse_oks (stripped dir source))))).
    { intros m Im. apply in_check_errs. now exists a, (option_map (strip_prefix dir) p0), ms, m. }
    assert (Hne : check_errs lk (parse_oks (stripped dir source)) <> []).
    { unfold check_errs. intro F. assert (X : In (map (EStage SCheck (option_map (strip_prefix dir) p0)) ms)
        (flat_map (fun ap => match w_check W lk (fst ap) with Err ms0 => [map (EStage SCheck (snd ap)) ms0] | Ok _ => [] end)
                  (parse_oks (stripped dir source)))).
      { apply in_flat_map. exists (a, option_map (strip_prefix dir) p0). split; [assumption|]. cbn [fst snd]. rewrite C. now left. }
      rewrite F in X. destruct X. }
    destruct (check_errs lk (parse_oks (stripped dir source))) as [|e es] eqn:Ce; [congruence|].
    exists (List.concat (e :: es)). repeat split; try assumption.
    apply Forall_forall. intros x Ix. rewrite <- Ce in Ix. apply in_check_errs in Ix.
    destruct Ix as (a' & p' & ms' & m' & _ & _ & _ & ->). now exists p', m'.
  Qed.
  (** completeness for the context stage: when everything parses, every file whose own context fails
      is reported with all its errors under its own path, and only context errors are reported *)
  Theorem ctx_failure_reported : forall ord ann source dir s p0 a ms,
    parse_errs (stripped dir source) = [] ->
    In (s, p0) source -> w_parse W s = Ok a -> w_build_ctx W [a] = Err ms ->
    exists es, m2p W ord ann source dir = Err es /\
               (forall m, In m ms -> In (EStage SCtx (option_map (strip_prefix dir) p0) m) es) /\
               Forall (fun e => exists p m', e = EStage SCtx p m') es.
  Proof.
    intros ord ann source dir s p0 a ms Pe I P B. rewrite m2p_eq. unfold m2p_spec. cbv zeta. rewrite Pe.
    assert (Ia : In (a, option_map (strip_prefix dir) p0) (parse_oks (stripped dir source))).
    { apply in_parse_oks. exists s. split; [|assumption]. apply in_stripped. now exists p0. }
    assert (Iw : In a (asts_of source)).
    { rewrite <- asts_of_stripped with (dir := dir), <- asts_of_oks. apply in_map_iff. now exists (a, option_map (strip_prefix dir) p0). }
    destruct (build_ctx_in_err _ _ _ Iw B) as [ms' B']. rewrite B'.
    assert (Hall : forall m, In m ms -> In (EStage SCtx (option_map (strip_prefix dir) p0) m)
                                           (w_ctx_blame W (parse_oks (stripped dir source)))).
    { intros m Im. apply in_ctx_blame. now exists a, (option_map (strip_prefix dir) p0), ms, m. }
    destruct (w_ctx_blame W (parse_oks (stripped dir source))) as [|e es] eqn:Bl.
    - exists (map (EStage SCtx None) ms'). split; [reflexivity|]. split.
      + intros m Im. destruct (Hall m Im).
      + apply Forall_forall. intros x Ix. apply in_map_iff in Ix. destruct Ix as (m' & <- & _). now exists None, m'.
    - exists (e :: es). split; [reflexivity|]. split; [assumption|].
      apply Forall_forall. intros x Ix. rewrite <- Bl in Ix. apply in_ctx_blame in Ix.
      destruct Ix as (a' & p' & ms'' & m' & _ & _ & _ & ->). now exists p', m'.
  Qed.

  (** a diagnostic without a path can only come from an input that was given without a path *)
  Theorem pathless_error_pathless_input : forall ord ann source dir es st m,
    m2p W ord ann source dir = Err es -> In (EStage st None m) es -> exists s, In (s, None) source.
  Proof.
    intros ord ann source dir es st m H I. apply m2p_errors_blame in H.
    apply (proj1 (Forall_forall _ _) H) in I. destruct st; cbn in I.
    - destruct I as (s & p0 & I & E & _). destruct p0; [discriminate | now exists s].
    - destruct I as (s & p0 & a & ms & I & E & _). destruct p0; [discriminate | now exists s].
    - destruct I as (s & p0 & a & ctx & ms & I & E & _). destruct p0; [discriminate | now exists s].
    - destruct I as (s & p0 & a & ctx & t & I & E & _). destruct p0; [discriminate | now exists s].
  Qed.
End Props.

(** ** Lists *)
Lemma insert_sorted_in : forall p l x, In x (insert_sorted p l) <-> x = p \/ In x l.
Proof.
  intros p. induction l as [|q l IH]; intros x; cbn [insert_sorted].
  - cbn. intuition.
  - destruct (path_leb p q); cbn [In]; [intuition|]. rewrite IH. intuition.
Qed.

Lemma sort_in : forall l x, In x (sort_paths l) <-> In x l.
Proof.
  induction l as [|p l IH]; intros x; cbn [sort_paths fold_right]; [reflexivity|].
  rewrite insert_sorted_in. fold (sort_paths l). rewrite IH. cbn. intuition.
Qed.

Lemma insert_sorted_nodup : forall p l, ~ In p l -> NoDup l -> NoDup (insert_sorted p l).
Proof.
  intros p. induction l as [|q l IH]; intros N D; cbn [insert_sorted].
  - constructor; [tauto | constructor].
  - destruct (path_leb p q); [now constructor|]. inversion D; subst. constructor.
    + rewrite insert_sorted_in. intros [->|F]; [apply N; now left | contradiction].
    + apply IH; [intro F; apply N; now right | assumption].
Qed.

Lemma sort_nodup : forall l, NoDup l -> NoDup (sort_paths l).
Proof.
  induction l as [|p l IH]; intros D; cbn [sort_paths fold_right]; [constructor|]. inversion D; subst.
  apply insert_sorted_nodup; [fold (sort_paths l); now rewrite sort_in | now apply IH].
Qed.

Lemma nodup_map_on : forall (A B : Type) (f : A -> B) l,
  (forall x y, In x l -> In y l -> f x = f y -> x = y) -> NoDup l -> NoDup (map f l).
Proof.
  intros A B f. induction l as [|a l IH]; intros Inj D; cbn; [constructor|]. inversion D; subst. constructor.
  - intro F. apply in_map_iff in F. destruct F as (y & Fy & Iy).
    assert (y = a) by (apply Inj; [now right | now left | assumption]). now subst.
  - apply IH; [|assumption]. intros x y Ix Iy. apply Inj; now right.
Qed.

Lemma map_snd_combine : forall (A B : Type) (a : list A) (b : list B),
  List.length a = List.length b -> map snd (combine a b) = b.
Proof.
  intros A B. induction a as [|x a IH]; intros [|y b] H; cbn in *; try discriminate; try reflexivity.
  f_equal. apply IH. now injection H.
Qed.

Lemma in_combine_map_r : forall (A B C : Type) (f : B -> C) (a : list A) (b : list B) x z,
  In (x, z) (combine a (map f b)) -> exists y, In (x, y) (combine a b) /\ z = f y.
Proof.
  intros A B C f. induction a as [|x0 a IH]; intros [|y0 b] x z H; cbn in *; try contradiction.
  destruct H as [[= <- <-]|H]; [exists y0; split; [now left | reflexivity]|].
  destruct (IH _ _ _ H) as (y & I & ->). exists y. split; [now right | reflexivity].
Qed.

(** ** transpile_dir *)
Section Dir.
  Variable W : world.
  Notation E := (err (w_msg W)).

  (** the only thing a run that does not reach the write loop does to the tree: the target directory *)
  Definition only_target_created (fs fs1 : FS) (o : path) : Prop :=
    fs1 = fs \/ (exists_ fs o = false /\ fs1 = fs_set fs o Dir).

  Lemma prepare_spec : forall fs o fs1, prepare fs o = Some fs1 ->
    only_target_created fs fs1 o /\ exists_ fs1 o = true.
  Proof.
    intros fs o fs1 H. unfold prepare in H. destruct (exists_ fs o) eqn:X.
    - injection H as <-. split; [now left | assumption].
    - unfold create_dir in H. rewrite X in H. destruct (is_dir fs (parent o)); [|discriminate].
      injection H as <-. split; [right; now split|].
      unfold exists_, is_dir. destruct o; [reflexivity|]. now rewrite get_set_same.
  Qed.

  Lemma not_exists_get : forall fs o, exists_ fs o = false -> o <> [] /\ fs_get fs o = None.
  Proof.
    intros fs o H. unfold exists_, is_dir, is_file in H. destruct o; [discriminate|]. split; [discriminate|].
    destruct (fs_get fs (s :: o)) as [[t|]|]; cbn in H; congruence.
  Qed.

  Lemma only_target_get : forall fs fs1 o q, only_target_created fs fs1 o -> q <> o -> fs_get fs1 q = fs_get fs q.
  Proof. intros fs fs1 o q [->|[_ ->]] N; [reflexivity | apply get_set_other; congruence]. Qed.

  (** no file content changes, appears or disappears *)
  Lemma only_target_files : forall fs fs1 o, only_target_created fs fs1 o ->
    forall q t, fs_get fs1 q = Some (File t) <-> fs_get fs q = Some (File t).
  Proof.
    intros fs fs1 o [->|[X ->]] q t; [reflexivity|]. apply not_exists_get in X. destruct X as [_ X].
    destruct (path_eq_dec o q) as [<-|N].
    - rewrite get_set_same, X. split; discriminate.
    - now rewrite get_set_other.
  Qed.

  Theorem all_or_nothing : forall ord fs dir src target ann fs' es,
    tdir W ord fs dir src target ann = (fs', Err es) ->
    existsb is_write_err es = false ->
    only_target_created fs fs' (out_of dir target).
  Proof.
    intros ord fs dir src target ann fs' es H Hw. unfold tdir, transpile_dir in H.
    destruct (negb (is_file fs (src_of dir src)) && negb (is_dir fs (src_of dir src))).
    { injection H as <- _. now left. }
    destruct (prepare fs (out_of dir target)) as [fs1|] eqn:P.
    2:{ injection H as <- _. now left. }
    apply prepare_spec in P. destruct P as [P _].
    destruct (read_all fs1 _) as [sources|e].
    2:{ injection H as <- _. exact P. }
    destruct (mamba_to_python _ _ _ _ _ _ _ _ _ _ _ _ _ _ _ _ _ _ _ _ _ _ _ _ _ _) as [pys|es'].
    2:{ injection H as <- _. exact P. }
    destruct (write_all fs1 _) as [fs2 [e|]] eqn:Wr; [|discriminate].
    injection H as <- <-. apply write_all_err in Wr. cbn in Hw. now rewrite Wr in Hw.
  Qed.

  Lemma src_kept : forall fs fs1 od sp, only_target_created fs fs1 od ->
    negb (is_file fs sp) && negb (is_dir fs sp) = false ->
    is_file fs1 sp = is_file fs sp /\ is_dir fs1 sp = is_dir fs sp.
  Proof.
    intros fs fs1 od sp [->|[X ->]] H; [now split|].
    assert (N : od <> sp).
    { intros ->. unfold exists_ in X. apply orb_false_iff in X. destruct X as [X1 X2]. now rewrite X1, X2 in H. }
    unfold is_file, is_dir. destruct sp; [now split|]. now rewrite get_set_other.
  Qed.

  (** "if any file fails a stage": the run is an error with exactly the pipeline's diagnostics and the
      tree is as before (up to the empty target directory) *)
  Theorem stage_failure_writes_nothing : forall ord fs dir src target ann fs1 sources es,
    negb (is_file fs (src_of dir src)) && negb (is_dir fs (src_of dir src)) = false ->
    prepare fs (out_of dir target) = Some fs1 ->
    @read_all (w_msg W) fs1 (inputs_of fs1 (src_of dir src)) = Ok sources ->
    m2p W ord ann (combine sources (map Some (inputs_of fs1 (src_of dir src)))) (src_of dir src) = Err es ->
    tdir W ord fs dir src target ann = (fs1, Err es) /\ only_target_created fs fs1 (out_of dir target) /\
    (forall q t, fs_get fs1 q = Some (File t) <-> fs_get fs q = Some (File t)).
  Proof.
    intros ord fs dir src target ann fs1 sources es H0 P R M. unfold tdir, transpile_dir. rewrite H0, P.
    rewrite R. unfold m2p in M. rewrite M. apply prepare_spec in P. destruct P as [P _].
    split; [reflexivity|]. split; [assumption | now apply (only_target_files _ _ (out_of dir target))].
  Qed.

  Lemma read_all_len : forall fs ps (ts : list string), @read_all (w_msg W) fs ps = Ok ts -> List.length ts = List.length ps.
  Proof.
    intros fs. induction ps as [|p ps IH]; intros ts H; cbn [read_all] in H.
    - injection H as <-. reflexivity.
    - destruct (read_source fs p); [|discriminate]. destruct (read_all fs ps) as [ts'|]; [|discriminate].
      injection H as <-. cbn. f_equal. now apply IH.
  Qed.

  Lemma file_dir_excl : forall fs p, is_file fs p = true -> is_dir fs p = false.
  Proof.
    intros fs p H. unfold is_file, is_dir in *. destruct p; [discriminate|]. destruct (fs_get fs (s :: p)) as [[t|]|]; congruence.
  Qed.

  Lemma inputs_len : forall fs1 sp, (is_file fs1 sp || is_dir fs1 sp) = true ->
    List.length (inputs_of fs1 sp) = List.length (relative_files fs1 sp).
  Proof.
    intros fs1 sp H. unfold inputs_of, relative_files. destruct (is_file fs1 sp) eqn:F.
    - now rewrite (file_dir_excl _ _ F).
    - cbn in H. rewrite H. now rewrite map_length.
  Qed.

  Lemma rels_nonempty : forall fs1 sp r, In r (relative_files fs1 sp) -> r <> [].
  Proof.
    intros fs1 sp r H. unfold relative_files in H. destruct (is_file fs1 sp).
    - destruct H as [<-|[]]. discriminate.
    - unfold glob_mamba in H. apply (proj1 (sort_in _ _)) in H. apply in_flat_map in H. destruct H as (e & _ & H).
      destruct (under sp (fst e)) as [r'|] eqn:U; [|destruct H]. destruct (snd e); [|destruct H].
      destruct (is_mamba _); [|destruct H].
      destruct H as [<-|[]]. now apply under_spec in U.
  Qed.

  Lemma out_paths_eq : forall fs1 sp od,
    out_paths fs1 sp od = map with_ext_path (map (fun r => od ++ r) (relative_files fs1 sp)).
  Proof. intros. unfold out_paths. now rewrite map_map. Qed.

  Lemma out_path_shape : forall fs1 sp od out, In out (out_paths fs1 sp od) ->
    out <> [] /\ strict_prefix od out.
  Proof.
    intros fs1 sp od out H. unfold out_paths in H. apply in_map_iff in H. destruct H as (r & <- & I).
    apply rels_nonempty in I. assert (N : od ++ r <> []) by (intro F; apply app_eq_nil in F; tauto).
    split; [now apply with_ext_path_nonempty|].
    destruct (exists_last I) as (r0 & c & ->). unfold with_ext_path.
    destruct (od ++ r0 ++ [c]) eqn:X; [congruence|]. rewrite <- X. rewrite app_assoc, removelast_last, <- app_assoc.
    destruct r0 as [|c0 r0]; cbn.
    - eexists _, []. reflexivity.
    - eexists c0, _. reflexivity.
  Qed.

  (** *** success: the mirrored tree *)
  Theorem mirrored : forall ord fs dir src target ann fs' o,
    tdir W ord fs dir src target ann = (fs', Ok o) ->
    exists fs1 sources pys,
      let sp := src_of dir src in
      let ins := inputs_of fs1 sp in
      let outs := out_paths fs1 sp o in
      o = out_of dir target /\ negb (is_file fs sp) && negb (is_dir fs sp) = false /\
      prepare fs o = Some fs1 /\ only_target_created fs fs1 o /\
      @read_all (w_msg W) fs1 ins = Ok sources /\
      m2p W ord ann (combine sources (map Some ins)) sp = Ok pys /\
      List.length pys = List.length outs /\ List.length sources = List.length outs /\
      (NoDup outs -> forall py out, In (py, out) (combine pys outs) -> fs_get fs' out = Some (File (crlf py))) /\
      (forall out, In out outs -> exists t, fs_get fs' out = Some (File t)) /\
      (forall q, ~ In q outs ->
         fs_get fs' q = fs_get fs1 q \/
         (changed_to_dir fs1 fs' q /\ exists out, In out outs /\ strict_prefix q out)) /\
      keeps_dirs fs1 fs' /\
      (forall py out, In (py, out) (combine pys outs) -> dirs_exist fs' [] (parent out)) /\
      write_all fs1 (combine pys (map (fun r => o ++ r) (relative_files fs1 sp))) = (fs', @None E).
  Proof.
    intros ord fs dir src target ann fs' o H. unfold tdir, transpile_dir in H.
    destruct (negb (is_file fs (src_of dir src)) && negb (is_dir fs (src_of dir src))) eqn:H0; [discriminate|].
    destruct (prepare fs (out_of dir target)) as [fs1|] eqn:P; [|discriminate].
    destruct (read_all fs1 _) as [sources|e] eqn:R; [|discriminate].
    destruct (mamba_to_python _ _ _ _ _ _ _ _ _ _ _ _ _ _ _ _ _ _ _ _ _ _ _ _ _ _) as [pys|es'] eqn:M; [|discriminate].
    destruct (write_all fs1 _) as [fs2 [e|]] eqn:Wr; [discriminate|]. injection H as <- <-.
    exists fs1, sources, pys. cbv zeta.
    destruct (prepare_spec _ _ _ P) as [OT _].
    set (sp := src_of dir src) in *. set (od := out_of dir target) in *.
    assert (HS : (is_file fs1 sp || is_dir fs1 sp) = true).
    { destruct (src_kept _ _ _ _ OT H0) as [-> ->]. apply andb_false_iff in H0.
      destruct H0 as [H0|H0]; apply negb_false_iff in H0; rewrite H0; [reflexivity | apply orb_true_r]. }
    assert (L1 : List.length sources = List.length (inputs_of fs1 sp)) by (apply (read_all_len fs1); exact R).
    assert (L2 : List.length (inputs_of fs1 sp) = List.length (relative_files fs1 sp)) by now apply inputs_len.
    assert (L3 : List.length pys = List.length sources).
    { fold (m2p W ord ann (combine sources (map Some (inputs_of fs1 sp))) sp) in M.
      apply m2p_ok_iff in M. destruct M as (ctx & _ & F). apply Forall2_len in F. unfold input in F. rewrite combine_length, map_length in F. lia. }
    assert (L4 : List.length (out_paths fs1 sp od) = List.length (relative_files fs1 sp)) by (unfold out_paths; now rewrite map_length).
    assert (T : targets (combine pys (map (fun r => od ++ r) (relative_files fs1 sp))) = out_paths fs1 sp od).
    { unfold targets. rewrite <- map_map, map_snd_combine; [now rewrite out_paths_eq | rewrite map_length, L3, L1, L2; reflexivity]. }
    split; [reflexivity|]. split; [exact H0|]. split; [assumption|]. split; [assumption|]. split; [exact R|].
    split; [exact M|]. split; [now rewrite L3, L1, L2, L4|]. split; [now rewrite L1, L2, L4|].
    split; [|split; [|split; [|split; [|split]]]].
    - intros ND py out I. rewrite out_paths_eq in I. apply in_combine_map_r in I. destruct I as (out0 & I & ->).
      apply (write_all_content _ _ _ _ Wr); [now rewrite T | assumption].
    - intros out I. apply (write_all_files _ _ _ _ Wr). now rewrite T.
    - intros q N. rewrite <- T in N. destruct (write_all_other _ _ _ _ Wr q N) as [X|[X (out & Io & Po)]]; [now left|].
      right. split; [assumption|]. exists out. rewrite <- T. now split.
    - now apply (write_all_keeps _ _ _ _ Wr).
    - intros py out I. rewrite out_paths_eq in I. apply in_combine_map_r in I. destruct I as (out0 & I & ->).
      now apply (write_all_dirs _ _ _ _ Wr py).
    - exact Wr.
  Qed.

  (** *** running again into the tree the first run produced *)
  Lemma in_combine_map_fwd : forall (A B C : Type) (f : B -> C) (a : list A) (b : list B) x y,
    In (x, y) (combine a b) -> In (x, f y) (combine a (map f b)).
  Proof.
    intros A B C f. induction a as [|x0 a IH]; intros [|y0 b] x y H; cbn in *; try contradiction.
    destruct H as [[= <- <-]|H]; [now left | right; now apply IH].
  Qed.

  Lemma read_all_agree : forall ps fs fs', (forall p, In p ps -> fs_get fs' p = fs_get fs p) ->
    @read_all (w_msg W) fs' ps = read_all fs ps.
  Proof.
    induction ps as [|p ps IH]; intros fs fs' H; [reflexivity|]. cbn [read_all].
    assert (Hp : @read_source (w_msg W) fs' p = read_source fs p).
    { unfold read_source. destruct p; [reflexivity|]. now rewrite (H _ (or_introl eq_refl)). }
    rewrite Hp, (IH fs fs'); [reflexivity|]. intros q I. apply H. now right.
  Qed.

  Lemma strict_prefix_irrefl : forall p, ~ strict_prefix p p.
  Proof.
    intros p (c & t & H). apply (f_equal (@List.length _)) in H. rewrite app_length in H. cbn in H. lia.
  Qed.

  Theorem rerun_idempotent : forall ord fs dir src target ann fs' o,
    ~ is_prefix (src_of dir src) (out_of dir target) ->
    ~ is_prefix (out_of dir target) (src_of dir src) ->
    (forall fs1, prepare fs (out_of dir target) = Some fs1 ->
                 NoDup (out_paths fs1 (src_of dir src) (out_of dir target))) ->
    tdir W ord fs dir src target ann = (fs', Ok o) ->
    tdir W ord fs' dir src target ann = (fs', Ok o).
  Proof.
    intros ord fs dir src target ann fs' o N1 N2 ND H.
    destruct (mirrored _ _ _ _ _ _ _ _ H) as (fs1 & sources & pys & Ho & H0 & P & OT & R & M & L1 & L2 & Hc & Hf & Hother & Hk & Hd & Wr).
    subst o. set (sp := src_of dir src) in *. set (od := out_of dir target) in *.
    specialize (ND _ P). specialize (Hc ND).
    (* no path at or below the source directory is an output path or an ancestor of one *)
    assert (Sep : forall q out, In out (out_paths fs1 sp od) -> is_prefix q out -> ~ is_prefix sp q).
    { intros q out Io Pq Ps. apply out_path_shape in Io. destruct Io as [_ Po]. apply strict_is_prefix in Po.
      destruct (prefixes_comparable _ _ _ Pq Po) as [X|X].
      - apply N1. now apply (is_prefix_trans _ q).
      - destruct (prefixes_comparable _ _ _ Ps X); contradiction. }
    assert (F1 : forall q, is_prefix sp q -> fs_get fs' q = fs_get fs1 q).
    { intros q Ps. destruct (in_dec path_eq_dec q (out_paths fs1 sp od)) as [I|I].
      - exfalso. apply (Sep q q I (is_prefix_refl q) Ps).
      - destruct (Hother q I) as [X|[_ (out & Io & Po)]]; [assumption|]. exfalso.
        apply (Sep q out Io (strict_is_prefix _ _ Po) Ps). }
    assert (T : targets (combine pys (map (fun r => od ++ r) (relative_files fs1 sp))) = out_paths fs1 sp od).
    { unfold targets. rewrite <- map_map, map_snd_combine; [now rewrite out_paths_eq|].
      rewrite map_length. unfold out_paths in L1. now rewrite map_length in L1. }
    assert (F2 : flat_map (glob_pick sp) fs' = flat_map (glob_pick sp) fs1).
    { destruct (write_all_ops _ _ _ _ Wr) as (ops & -> & Fo). apply pick_ops.
      eapply Forall_impl; [|exact Fo]. cbn. intros e (out & Io & Pe). rewrite T in Io.
      apply under_none_of. now apply (Sep _ out). }
    assert (F3 : is_file fs' sp = is_file fs1 sp /\ is_dir fs' sp = is_dir fs1 sp).
    { unfold is_file, is_dir. destruct sp as [|c sp0] eqn:Esp; [now split|]. rewrite (F1 _ (is_prefix_refl _)). now split. }
    destruct F3 as [F3a F3b]. destruct (src_kept _ _ _ _ OT H0) as [K1 K2].
    assert (F4 : relative_files fs' sp = relative_files fs1 sp).
    { unfold relative_files. rewrite F3a. destruct (is_file fs1 sp); [reflexivity|]. now rewrite !glob_mamba_eq, F2. }
    assert (F5 : inputs_of fs' sp = inputs_of fs1 sp) by (unfold inputs_of; now rewrite F3b, F4).
    assert (F6 : @read_all (w_msg W) fs' (inputs_of fs1 sp) = Ok sources).
    { rewrite <- R. apply read_all_agree. intros p I. apply F1. unfold inputs_of in I.
      destruct (is_dir fs1 sp); [|destruct I as [<-|[]]; apply is_prefix_refl].
      apply in_map_iff in I. destruct I as (r & <- & _). now exists r. }
    assert (F7 : prepare fs' od = Some fs').
    { unfold prepare. destruct (prepare_spec _ _ _ P) as [_ X]. assert (X' : exists_ fs' od = true); [|now rewrite X'].
      unfold exists_, is_dir, is_file in *. destruct od as [|c od0] eqn:Eod; [reflexivity|].
      assert (I : ~ In (c :: od0) (out_paths fs1 sp (c :: od0))).
      { intro I. apply out_path_shape in I. destruct I as [_ I]. now apply strict_prefix_irrefl in I. }
      destruct (Hother _ I) as [Y|[[_ Y] _]]; rewrite Y; [exact X | reflexivity]. }
    assert (F8 : @write_all (w_msg W) fs' (combine pys (map (fun r => od ++ r) (relative_files fs1 sp))) = (fs', None)).
    { apply write_all_noop. intros py out0 I.
      assert (I' : In (py, with_ext_path out0) (combine pys (out_paths fs1 sp od))).
      { rewrite out_paths_eq. now apply in_combine_map_fwd. }
      split; [|split; [now apply (Hd py) | now apply Hc]].
      apply in_combine_r in I'. now apply out_path_shape in I'. }
    unfold tdir, transpile_dir. fold sp. fold od. rewrite F3a, F3b, K1, K2, H0, F7, F4, F5, F6.
    unfold m2p in M. rewrite M, F8. reflexivity.
  Qed.
End Dir.

(** ** When the output paths are pairwise distinct *)
Lemma last_app_ne : forall (A : Type) (a r : list A) d, r <> [] -> last (a ++ r) d = last r d.
Proof.
  intros A a r d H. destruct (exists_last H) as (r0 & c & ->). now rewrite app_assoc, !last_last.
Qed.

Lemma pick_in : forall sp fs r, In r (flat_map (glob_pick sp) fs) <->
  exists t, In (sp ++ r, File t) fs /\ r <> [] /\ is_mamba (file_name r) = true.
Proof.
  intros sp fs r. rewrite in_flat_map. unfold glob_pick. split.
  - intros ([p n] & I & H). cbn [fst snd] in H. destruct (under sp p) as [r'|] eqn:U; [|destruct H].
    destruct n as [t|]; [|destruct H].
    destruct (is_mamba (file_name r')) eqn:Mm; [|destruct H]. destruct H as [<-|[]].
    apply under_spec in U. destruct U as [-> U]. now exists t.
  - intros (t & I & Nr & Mm). exists (sp ++ r, File t). split; [assumption|]. cbn [fst snd].
    assert (U : under sp (sp ++ r) = Some r) by now apply under_spec. rewrite U, Mm. now left.
Qed.

Lemma pick_nodup : forall sp fs, NoDup (map fst fs) -> NoDup (flat_map (glob_pick sp) fs).
Proof.
  intros sp. induction fs as [|[p n] fs IH]; intros D; cbn [flat_map]; [constructor|].
  cbn [map fst] in D. inversion D; subst. specialize (IH H2).
  unfold glob_pick at 1. cbn [fst snd]. destruct (under sp p) as [r|] eqn:U; [|exact IH].
  destruct n as [t|]; [|exact IH].
  destruct (is_mamba (file_name r)); [|exact IH]. cbn [app]. constructor; [|exact IH].
  intro F. apply pick_in in F. destruct F as (t' & I & _). apply under_spec in U. destruct U as [-> _].
  apply H1. apply in_map_iff. now exists (sp ++ r, File t').
Qed.

Theorem out_paths_nodup : forall fs1 sp od,
  NoDup (map fst fs1) ->
  (forall p, In p (map fst fs1) -> file_name p <> ".mamba") ->
  NoDup (out_paths fs1 sp od).
Proof.
  intros fs1 sp od D Hn. unfold out_paths, relative_files. destruct (is_file fs1 sp).
  - cbn. constructor; [tauto | constructor].
  - unfold glob_mamba. fold (glob_pick sp). apply nodup_map_on.
    + intros r1 r2 I1 I2 Heq. apply (proj1 (sort_in _ _)) in I1. apply (proj1 (sort_in _ _)) in I2.
      apply pick_in in I1. apply pick_in in I2.
      destruct I1 as (n1 & I1 & R1 & M1). destruct I2 as (n2 & I2 & R2 & M2).
      assert (A1 : od ++ r1 <> []) by (intro F; apply app_eq_nil in F; tauto).
      assert (A2 : od ++ r2 <> []) by (intro F; apply app_eq_nil in F; tauto).
      apply with_ext_path_inj in Heq; try assumption.
      * now apply app_inv_head in Heq.
      * unfold file_name in *. now rewrite last_app_ne.
      * unfold file_name in *. now rewrite last_app_ne.
      * unfold file_name. rewrite last_app_ne by assumption. rewrite <- (last_app_ne _ sp r1 "") by assumption.
        apply Hn. apply in_map_iff. now exists (sp ++ r1, File n1).
      * unfold file_name. rewrite last_app_ne by assumption. rewrite <- (last_app_ne _ sp r2 "") by assumption.
        apply Hn. apply in_map_iff. now exists (sp ++ r2, File n2).
    + apply sort_nodup. now apply pick_nodup.
Qed.

(** ** The shared context: set semantics *)
Section Sets.
  Variable A : Type.
  Variable key : A -> string.

  Lemma set_insert_in : forall x y s, In x (set_insert key y s) -> In x s \/ x = y.
  Proof.
    intros x y s H. unfold set_insert in H. destruct (existsb _ s); [now left|].
    apply in_app_or in H. destruct H as [H|[<-|[]]]; [now left | now right].
  Qed.

  Lemma set_insert_incl : forall y s x, In x s -> In x (set_insert key y s).
  Proof. intros y s x H. unfold set_insert. destruct (existsb _ s); [assumption | apply in_or_app; now left]. Qed.

  Lemma set_insert_cover : forall y s, exists x, In x (set_insert key y s) /\ key x = key y.
  Proof.
    intros y s. unfold set_insert. destruct (existsb _ s) eqn:X.
    - apply existsb_exists in X. destruct X as (x & I & Kx). apply String.eqb_eq in Kx. now exists x.
    - exists y. split; [apply in_or_app; right; now left | reflexivity].
  Qed.

  Lemma set_union_in : forall o s x, In x (set_union key s o) -> In x s \/ In x o.
  Proof.
    induction o as [|y o IH]; intros s x H; cbn [set_union fold_left] in H; [now left|].
    apply IH in H. destruct H as [H|H]; [|right; now right].
    apply set_insert_in in H. destruct H as [H | ->]; [now left | right; now left].
  Qed.

  Lemma set_union_incl : forall o s x, In x s -> In x (set_union key s o).
  Proof.
    induction o as [|y o IH]; intros s x H; cbn [set_union fold_left]; [assumption|].
    apply IH. now apply set_insert_incl.
  Qed.

  Lemma set_union_cover : forall o s y, In y o -> exists x, In x (set_union key s o) /\ key x = key y.
  Proof.
    induction o as [|y0 o IH]; intros s y H; [destruct H|]. cbn [set_union fold_left].
    destruct H as [-> | H]; [|now apply IH].
    destruct (set_insert_cover y s) as (x & I & Kx). exists x. split; [|assumption].
    now apply (set_union_incl o).
  Qed.

  (** [l] is a choice of representatives of [L]: a sub-multiset that still has every key *)
  Definition covers (l L : list A) : Prop :=
    incl l L /\ forall y, In y L -> exists x, In x l /\ key x = key y.

  Lemma covers_union : forall s S o, covers s S -> covers (set_union key s o) (S ++ o).
  Proof.
    intros s S o [I C]. split.
    - intros x H. apply set_union_in in H. apply in_or_app. destruct H; [left; now apply I | now right].
    - intros y H. apply in_app_or in H. destruct H as [H|H].
      + destruct (C y H) as (x & Ix & Kx). exists x. split; [now apply set_union_incl | assumption].
      + now apply set_union_cover.
  Qed.

  Lemma covers_nil : covers [] [].
  Proof. split; [intros x [] | intros y []]. Qed.

  Lemma covers_ext : forall l L L', covers l L -> (forall x, In x L <-> In x L') -> covers l L'.
  Proof.
    intros l L L' [I C] H. split; [intros x Hx; apply H; now apply I | intros y Hy; apply C; now apply H].
  Qed.
End Sets.

Lemma find_exists : forall (A : Type) (p : A -> bool) l x, In x l -> p x = true -> exists y, find p l = Some y.
Proof.
  intros A p. induction l as [|a l IH]; intros x I P; [destruct I|]. cbn [find]. destruct (p a) eqn:Pa; [now exists a|].
  destruct I as [->|I]; [congruence | now apply (IH x)].
Qed.

(** two enumerations of representative sets give the same answer for name [k], provided names are
    unambiguous in the larger universe and no entry named [k] is outside the smaller one *)
Lemma find_agree : forall (A : Type) (lkey : A -> string) (l l' L L' : list A) k,
  incl l L -> incl l' L' -> incl L L' ->
  (forall y, In y L -> exists x, In x l /\ lkey x = lkey y) ->
  (forall y, In y L' -> exists x, In x l' /\ lkey x = lkey y) ->
  (forall x y, In x L' -> In y L' -> lkey x = lkey y -> x = y) ->
  (forall y, In y L' -> lkey y = k -> In y L) ->
  find (fun x => String.eqb (lkey x) k) l = find (fun x => String.eqb (lkey x) k) l'.
Proof.
  intros A lkey l l' L L' k I I' IL C C' U Hk.
  destruct (find _ l) as [x|] eqn:F.
  - apply find_some in F. destruct F as [Ix Kx]. apply String.eqb_eq in Kx.
    destruct (C' x (IL _ (I _ Ix))) as (x' & Ix' & Kx').
    destruct (find_exists _ (fun z => String.eqb (lkey z) k) l' x' Ix') as (z & Fz).
    { apply String.eqb_eq. congruence. }
    rewrite Fz. apply find_some in Fz. destruct Fz as [Iz Kz]. apply String.eqb_eq in Kz.
    f_equal. apply U; [now apply IL, I | now apply I' | congruence].
  - destruct (find _ l') as [z|] eqn:F'; [|reflexivity]. exfalso.
    apply find_some in F'. destruct F' as [Iz Kz]. apply String.eqb_eq in Kz.
    destruct (C z (Hk z (I' _ Iz) Kz)) as (x & Ix & Kx).
    apply (find_none _ _ F) in Ix. apply String.eqb_neq in Ix. congruence.
Qed.

Section Ctx.
  Variable W : world.
  Notation LK := (lookups (w_centry W) (w_dentry W) (w_fentry W)).
  Notation DECLS := (decls (w_centry W) (w_dentry W) (w_fentry W)).

  (** every declaration of every file, before any de-duplication *)
  Definition all_c (asts : list (w_ast W)) : list (w_centry W) :=
    flat_map (fun a => match w_decls_of W a with Ok d => d_classes d | Err _ => [] end) asts.
  Definition all_d (asts : list (w_ast W)) : list (w_dentry W) :=
    flat_map (fun a => match w_decls_of W a with Ok d => d_fields d | Err _ => [] end) asts.
  Definition all_f (asts : list (w_ast W)) : list (w_fentry W) :=
    flat_map (fun a => match w_decls_of W a with Ok d => d_funs d | Err _ => [] end) asts.

  Definition universe_c asts := w_any W :: all_c asts ++ w_prim_c W ++ w_std_c W.
  Definition universe_d asts := all_d asts ++ w_prim_d W ++ w_std_d W.
  Definition universe_f asts := all_f asts ++ w_prim_f W ++ w_std_f W.

  Notation collectW := (collect (w_c_key W) (w_f_key W) (w_d_name W) (w_decls_of W)).

  Lemma collect_spec : forall asts acc d C D F,
    collectW asts acc = Ok d ->
    covers _ (w_c_key W) (d_classes acc) C -> covers _ (w_d_name W) (d_fields acc) D ->
    covers _ (w_f_key W) (d_funs acc) F ->
    covers _ (w_c_key W) (d_classes d) (C ++ all_c asts) /\
    covers _ (w_d_name W) (d_fields d) (D ++ all_d asts) /\
    covers _ (w_f_key W) (d_funs d) (F ++ all_f asts).
  Proof.
    induction asts as [|a asts IH]; intros acc d C D F H Hc Hd Hf; cbn [collect] in H.
    - injection H as <-. unfold all_c, all_d, all_f. cbn [flat_map]. now rewrite !app_nil_r.
    - unfold all_c, all_d, all_f. cbn [flat_map]. destruct (w_decls_of W a) as [da|ms] eqn:Da; [|discriminate].
      rewrite !app_assoc. apply (IH _ _ _ _ _ H); unfold merge; cbn; now apply covers_union.
  Qed.

  Lemma collect_ok_iff : forall asts acc,
    (exists d, collectW asts acc = Ok d) <-> (forall a, In a asts -> exists d, w_decls_of W a = Ok d).
  Proof.
    induction asts as [|a asts IH]; intros acc; cbn [collect].
    - split; [intros _ a [] | intros _; now exists acc].
    - destruct (w_decls_of W a) as [da|ms] eqn:Da.
      + rewrite IH. split.
        * intros H b [<-|I]; [now exists da | now apply H].
        * intros H b I. apply H. now right.
      + split; [intros [d H]; discriminate|]. intros H. destruct (H a (or_introl eq_refl)) as [d Hd]. congruence.
  Qed.

  Lemma build_ctx_ok_iff : forall asts,
    (exists ctx, w_build_ctx W asts = Ok ctx) <-> (forall a, In a asts -> exists d, w_decls_of W a = Ok d).
  Proof.
    intros asts. rewrite <- (collect_ok_iff asts no_decls). unfold w_build_ctx, build_ctx.
    destruct (collectW asts no_decls) as [d|ms]; split; intros [x H]; try discriminate; eauto.
  Qed.

  Lemma build_ctx_covers : forall asts ctx, w_build_ctx W asts = Ok ctx ->
    covers _ (w_c_key W) (classes ctx) (universe_c asts ++ w_std_c W) /\
    covers _ (w_d_name W) (fields ctx) (universe_d asts ++ w_std_d W) /\
    covers _ (w_f_key W) (functions ctx) (universe_f asts ++ w_std_f W).
  Proof.
    intros asts ctx H. unfold w_build_ctx, build_ctx in H.
    destruct (collectW asts no_decls) as [d|ms] eqn:Cl; [|discriminate]. injection H as <-. cbn [classes fields functions].
    destruct (collect_spec _ _ _ [] [] [] Cl (covers_nil _ _) (covers_nil _ _) (covers_nil _ _)) as (Hc & Hd & Hf).
    cbn [app] in *. unfold universe_c, universe_d, universe_f. split; [|split].
    - assert (H0 : covers _ (w_c_key W) (set_union (w_c_key W) [w_any W] (d_classes d)) (w_any W :: all_c asts)).
      { split.
        - intros x Hx. apply set_union_in in Hx. destruct Hx as [[<-|[]]|Hx]; [now left | right; now apply Hc].
        - intros y [<-|Hy].
          + exists (w_any W). split; [apply set_union_incl; now left | reflexivity].
          + destruct Hc as [_ Cc]. destruct (Cc y Hy) as (x & Ix & Kx).
            destruct (set_union_cover _ (w_c_key W) (d_classes d) [w_any W] x Ix) as (z & Iz & Kz).
            exists z. split; [assumption | congruence]. }
      change (w_any W :: all_c asts ++ w_prim_c W ++ w_std_c W) with ((w_any W :: all_c asts) ++ w_prim_c W ++ w_std_c W).
      rewrite !app_assoc. rewrite <- !app_assoc. rewrite !app_assoc.
      repeat apply covers_union. exact H0.
    - rewrite !app_assoc. repeat apply covers_union. exact Hd.
    - rewrite !app_assoc. repeat apply covers_union. exact Hf.
  Qed.
End Ctx.

(** ** Look-ups do not depend on file order or enumeration order when names are unambiguous *)
Definition ord_ok (ord : enumeration) : Prop := forall (A : Type) (l : list A), Permutation (ord A l) l.
Definition uniq_on {A : Type} (lkey : A -> string) (L : list A) : Prop :=
  forall x y, In x L -> In y L -> lkey x = lkey y -> x = y.

Lemma find_agree_cov : forall (A : Type) (skey lkey : A -> string) (l l' L L' : list A) (ord ord' : enumeration) k,
  ord_ok ord -> ord_ok ord' ->
  (forall x y, skey x = skey y -> lkey x = lkey y) ->
  covers A skey l L -> covers A skey l' L' -> incl L L' ->
  uniq_on lkey L' -> (forall y, In y L' -> lkey y = k -> In y L) ->
  find (fun x => String.eqb (lkey x) k) (ord A l) = find (fun x => String.eqb (lkey x) k) (ord' A l').
Proof.
  intros A skey lkey l l' L L' ord ord' k O O' Cm [I C] [I' C'] IL U Hk.
  apply (find_agree A lkey _ _ L L'); try assumption.
  - intros x Hx. apply I. apply (Permutation_in _ (O A l) Hx).
  - intros x Hx. apply I'. apply (Permutation_in _ (O' A l') Hx).
  - intros y Hy. destruct (C y Hy) as (x & Ix & Kx). exists x. split; [|now apply Cm].
    apply (Permutation_in _ (Permutation_sym (O A l)) Ix).
  - intros y Hy. destruct (C' y Hy) as (x & Ix & Kx). exists x. split; [|now apply Cm].
    apply (Permutation_in _ (Permutation_sym (O' A l')) Ix).
Qed.

Section Order.
  Variable W : world.
  Notation LK := (lookups (w_centry W) (w_dentry W) (w_fentry W)).

  (** equal set keys imply equal look-up names (a StringName contains its base name; a function's
      identity contains its name) *)
  Definition key_compat : Prop :=
    (forall x y, w_c_key W x = w_c_key W y -> w_c_base W x = w_c_base W y) /\
    (forall x y, w_f_key W x = w_f_key W y -> w_f_name W x = w_f_name W y).

  (** no two different declarations (user or built-in) answer to the same name *)
  Definition uniq_names (asts : list (w_ast W)) : Prop :=
    uniq_on (w_c_base W) (universe_c W asts) /\
    uniq_on (w_f_name W) (universe_f W asts) /\
    uniq_on (w_d_name W) (universe_d W asts).

  Definition lk_eq_on (K : string -> Prop) (lk lk' : LK) : Prop :=
    forall k, K k ->
      lk_class lk k = lk_class lk' k /\ lk_ctor lk k = lk_ctor lk' k /\
      lk_fun lk k = lk_fun lk' k /\ lk_field lk k = lk_field lk' k.

  (** the larger project declares nothing named [k] that the smaller one does not *)
  Definition no_new_at (asts asts' : list (w_ast W)) (k : string) : Prop :=
    (forall y, In y (universe_c W asts') -> w_c_base W y = k -> In y (universe_c W asts)) /\
    (forall y, In y (universe_c W asts') -> w_c_key W y = k -> In y (universe_c W asts)) /\
    (forall y, In y (universe_f W asts') -> w_f_name W y = k -> In y (universe_f W asts)) /\
    (forall y, In y (universe_d W asts') -> w_d_name W y = k -> In y (universe_d W asts)).

  Lemma all_incl : forall (B : Type) (g : decls (w_centry W) (w_dentry W) (w_fentry W) -> list B) asts asts',
    incl asts asts' ->
    incl (flat_map (fun a => match w_decls_of W a with Ok d => g d | Err _ => [] end) asts)
         (flat_map (fun a => match w_decls_of W a with Ok d => g d | Err _ => [] end) asts').
  Proof.
    intros B g asts asts' H x Hx. apply in_flat_map in Hx. destruct Hx as (a & Ia & Hx).
    apply in_flat_map. exists a. split; [now apply H | assumption].
  Qed.

  Lemma universe_incl : forall asts asts', incl asts asts' ->
    incl (universe_c W asts) (universe_c W asts') /\ incl (universe_f W asts) (universe_f W asts') /\
    incl (universe_d W asts) (universe_d W asts').
  Proof.
    intros asts asts' H. unfold universe_c, universe_f, universe_d, all_c, all_f, all_d. split; [|split].
    - intros x [<-|Hx]; [now left|]. right. apply in_app_or in Hx. apply in_or_app.
      destruct Hx as [Hx|Hx]; [left; now apply (all_incl _ _ _ _ H) | now right].
    - intros x Hx. apply in_app_or in Hx. apply in_or_app.
      destruct Hx as [Hx|Hx]; [left; now apply (all_incl _ _ _ _ H) | now right].
    - intros x Hx. apply in_app_or in Hx. apply in_or_app.
      destruct Hx as [Hx|Hx]; [left; now apply (all_incl _ _ _ _ H) | now right].
  Qed.

  Lemma ctx_covers : forall asts ctx, w_build_ctx W asts = Ok ctx ->
    covers _ (w_c_key W) (classes ctx) (universe_c W asts) /\
    covers _ (w_d_name W) (fields ctx) (universe_d W asts) /\
    covers _ (w_f_key W) (functions ctx) (universe_f W asts).
  Proof.
    intros asts ctx H. destruct (build_ctx_covers W _ _ H) as (Hc & Hd & Hf). split; [|split].
    - apply (covers_ext _ _ _ _ _ Hc). intro x. rewrite in_app_iff. unfold universe_c. cbn [In]. rewrite !in_app_iff. tauto.
    - apply (covers_ext _ _ _ _ _ Hd). intro x. rewrite in_app_iff. unfold universe_d. rewrite !in_app_iff. tauto.
    - apply (covers_ext _ _ _ _ _ Hf). intro x. rewrite in_app_iff. unfold universe_f. rewrite !in_app_iff. tauto.
  Qed.

  Theorem lookups_agree : forall ord ord' asts asts' ctx ctx' (K : string -> Prop),
    key_compat -> ord_ok ord -> ord_ok ord' -> incl asts asts' ->
    w_build_ctx W asts = Ok ctx -> w_build_ctx W asts' = Ok ctx' ->
    uniq_names asts' -> (forall k, K k -> no_new_at asts asts' k) ->
    lk_eq_on K (w_lookups W ord ctx) (w_lookups W ord' ctx').
  Proof.
    intros ord ord' asts asts' ctx ctx' K [Kc Kf] O O' I B B' (Uc & Uf & Ud) Hn k Hk.
    destruct (ctx_covers _ _ B) as (Cc & Cd & Cf). destruct (ctx_covers _ _ B') as (Cc' & Cd' & Cf').
    destruct (universe_incl _ _ I) as (Ic & If & Id). destruct (Hn k Hk) as (N1 & N2 & N3 & N4).
    unfold w_lookups, lookups_of. cbn [lk_class lk_ctor lk_fun lk_field]. split; [|split; [|split]].
    - apply (find_agree_cov _ (w_c_key W) (w_c_base W) _ _ (universe_c W asts) (universe_c W asts')); assumption.
    - apply (find_agree_cov _ (w_c_key W) (w_c_key W) _ _ (universe_c W asts) (universe_c W asts')); try assumption.
      + auto.
      + intros x y Hx Hy E. apply Uc; try assumption. now apply Kc.
    - apply (find_agree_cov _ (w_f_key W) (w_f_name W) _ _ (universe_f W asts) (universe_f W asts')); assumption.
    - apply (find_agree_cov _ (w_d_name W) (w_d_name W) _ _ (universe_d W asts) (universe_d W asts')); try assumption. auto.
  Qed.

  (** *** hypotheses about the stages (validated by testing, true of the Rust code by reading:
      the context is only read through the four look-ups) *)
  Definition stages_extensional : Prop :=
    forall lk lk', lk_eq_on (fun _ => True) lk lk' ->
      (forall a, w_check W lk a = w_check W lk' a) /\ (forall ann t, w_gen W ann lk t = w_gen W ann lk' t).

  (** [refs a]: the names the stages may look up while processing file [a] *)
  Definition stages_local (refs : w_ast W -> list string) : Prop :=
    forall lk lk' a, lk_eq_on (fun k => In k (refs a)) lk lk' ->
      w_check W lk a = w_check W lk' a /\
      (forall ann t, w_check W lk a = Ok t -> w_gen W ann lk t = w_gen W ann lk' t).

  Lemma file_out_ext : forall ann lk lk' s, stages_extensional -> lk_eq_on (fun _ => True) lk lk' ->
    file_out W ann lk s = file_out W ann lk' s.
  Proof.
    intros ann lk lk' s X E. destruct (X _ _ E) as [Xc Xg]. unfold file_out.
    destruct (w_parse W s); [|reflexivity]. rewrite <- Xc. destruct (w_check W lk a); [|reflexivity]. now rewrite <- Xg.
  Qed.

  Lemma asts_of_in : forall source a, In a (asts_of W source) <-> exists s p, In (s, p) source /\ w_parse W s = Ok a.
  Proof.
    intros source a. unfold asts_of. rewrite in_flat_map. split.
    - intros ([s p] & I & H). cbn [fst] in H. destruct (w_parse W s) eqn:P; [|destruct H]. destruct H as [<-|[]]. now exists s, p.
    - intros (s & p & I & P). exists (s, p). split; [assumption|]. cbn [fst]. rewrite P. now left.
  Qed.

  Lemma asts_of_incl : forall source source', incl source source' -> incl (asts_of W source) (asts_of W source').
  Proof.
    intros source source' H a Ha. apply asts_of_in in Ha. destruct Ha as (s & p & I & P). apply asts_of_in. exists s, p. split; [now apply H | assumption].
  Qed.

  Definition out_fun (ann : bool) (lk : LK) (sp : input) : string :=
    match file_out W ann lk (fst sp) with Some py => py | None => "" end.

  Lemma forall2_map : forall ann lk source pys,
    Forall2 (fun (sp : input) py => file_out W ann lk (fst sp) = Some py) source pys ->
    pys = map (out_fun ann lk) source.
  Proof. induction 1; cbn; [reflexivity|]. unfold out_fun at 1. rewrite H. now f_equal. Qed.

  Lemma forall2_of_map : forall ann lk source,
    (forall sp, In sp source -> exists py, file_out W ann lk (fst sp) = Some py) ->
    Forall2 (fun (sp : input) py => file_out W ann lk (fst sp) = Some py) source (map (out_fun ann lk) source).
  Proof.
    intros ann lk. induction source as [|sp source IH]; intros H; cbn [map]; constructor.
    - destruct (H sp (or_introl eq_refl)) as [py Hp]. unfold out_fun. now rewrite Hp.
    - apply IH. intros x Ix. apply H. now right.
  Qed.

  Lemma forall2_in : forall ann lk source pys sp,
    Forall2 (fun (sp : input) py => file_out W ann lk (fst sp) = Some py) source pys -> In sp source ->
    exists py, file_out W ann lk (fst sp) = Some py.
  Proof. induction 1; intros I; [destruct I|]. destruct I as [<-|I]; [now exists y | now apply IHForall2]. Qed.

  (** *** order independence *)
  Theorem order_independent : forall ord ord' ann source source' dir dir' pys,
    key_compat -> ord_ok ord -> ord_ok ord' -> stages_extensional ->
    Permutation source source' -> uniq_names (asts_of W source) ->
    m2p W ord ann source dir = Ok pys ->
    exists (f : input -> string) pys',
      m2p W ord' ann source' dir' = Ok pys' /\ pys = map f source /\ pys' = map f source'.
  Proof.
    intros ord ord' ann source source' dir dir' pys Kc O O' X P U H.
    apply m2p_ok_iff in H. destruct H as (ctx & B & F).
    assert (I1 : incl source source') by (intros x Hx; now apply (Permutation_in _ P)).
    assert (I2 : incl source' source) by (intros x Hx; now apply (Permutation_in _ (Permutation_sym P))).
    assert (A1 := asts_of_incl _ _ I1). assert (A2 := asts_of_incl _ _ I2).
    destruct (proj2 (build_ctx_ok_iff W (asts_of W source'))) as [ctx' B'].
    { intros a Ia. apply (proj1 (build_ctx_ok_iff W (asts_of W source))); [now exists ctx | now apply A2]. }
    assert (U' : uniq_names (asts_of W source')).
    { destruct (universe_incl _ _ A2) as (Jc & Jf & Jd). destruct U as (Uc & Uf & Ud).
      split; [|split]; intros x y Hx Hy; [apply Uc | apply Uf | apply Ud]; auto. }
    assert (E : lk_eq_on (fun _ => True) (w_lookups W ord ctx) (w_lookups W ord' ctx')).
    { apply (lookups_agree ord ord' (asts_of W source) (asts_of W source')); try assumption.
      intros k _. destruct (universe_incl _ _ A2) as (Jc & Jf & Jd). repeat split; intros y Hy _; auto. }
    exists (out_fun ann (w_lookups W ord ctx)), (map (out_fun ann (w_lookups W ord ctx)) source').
    split; [|split; [now apply forall2_map | reflexivity]].
    apply m2p_ok_iff. exists ctx'. split; [assumption|].
    assert (Fo : forall s, file_out W ann (w_lookups W ord' ctx') s = file_out W ann (w_lookups W ord ctx) s).
    { intro s. symmetry. now apply file_out_ext. }
    assert (G := forall2_of_map ann (w_lookups W ord ctx) source').
    assert (G' : Forall2 (fun (sp : input) py => file_out W ann (w_lookups W ord ctx) (fst sp) = Some py) source'
                         (map (out_fun ann (w_lookups W ord ctx)) source')).
    { apply G. intros sp Isp. apply (forall2_in _ _ _ _ _ F). now apply I2. }
    clear -G' Fo. induction G'; constructor; [now rewrite Fo | assumption].
  Qed.

  (** the verdict does not depend on the order either *)
  Corollary order_independent_verdict : forall ord ord' ann source source' dir dir',
    key_compat -> ord_ok ord -> ord_ok ord' -> stages_extensional ->
    Permutation source source' -> uniq_names (asts_of W source) ->
    ((exists pys, m2p W ord ann source dir = Ok pys) <-> (exists pys', m2p W ord' ann source' dir' = Ok pys')).
  Proof.
    intros ord ord' ann source source' dir dir' Kc O O' X P U. split.
    - intros [pys H]. destruct (order_independent _ ord' _ _ source' _ dir' _ Kc O O' X P U H) as (f & pys' & H' & _). now exists pys'.
    - intros [pys' H'].
      assert (U' : uniq_names (asts_of W source')).
      { assert (I2 : incl source' source) by (intros x Hx; now apply (Permutation_in _ (Permutation_sym P))).
        destruct (universe_incl _ _ (asts_of_incl _ _ I2)) as (Jc & Jf & Jd). destruct U as (Uc & Uf & Ud).
        split; [|split]; intros x y Hx Hy; [apply Uc | apply Uf | apply Ud]; auto. }
      destruct (order_independent _ ord _ _ source _ dir _ Kc O' O X (Permutation_sym P) U' H') as (f & pys & H & _). now exists pys.
  Qed.
End Order.

Section Fresh.
  Variable W : world.
  Notation LK := (lookups (w_centry W) (w_dentry W) (w_fentry W)).
  Notation DECLS := (decls (w_centry W) (w_dentry W) (w_fentry W)).

  (** every name under which a declaration of the file can be found *)
  Definition declared_names (d : DECLS) : list string :=
    map (w_c_base W) (d_classes d) ++ map (w_c_key W) (d_classes d) ++
    map (w_f_name W) (d_funs d) ++ map (w_d_name W) (d_fields d).

  Lemma asts_of_app : forall a b, asts_of W (a ++ b) = asts_of W a ++ asts_of W b.
  Proof. intros. unfold asts_of. apply flat_map_app. Qed.

  Lemma asts_of_insert : forall l1 l2 s p a, w_parse W s = Ok a ->
    asts_of W (l1 ++ (s, p) :: l2) = asts_of W l1 ++ a :: asts_of W l2.
  Proof.
    intros l1 l2 s p a P. rewrite asts_of_app. f_equal. unfold asts_of. cbn [flat_map fst]. now rewrite P.
  Qed.

  Lemma in_all_insert : forall (B : Type) (g : DECLS -> list B) A1 A2 a d y, w_decls_of W a = Ok d ->
    In y (flat_map (fun a => match w_decls_of W a with Ok d => g d | Err _ => [] end) (A1 ++ a :: A2)) ->
    In y (g d) \/ In y (flat_map (fun a => match w_decls_of W a with Ok d => g d | Err _ => [] end) (A1 ++ A2)).
  Proof.
    intros B g A1 A2 a d y D H. rewrite flat_map_app in H. cbn [flat_map] in H. rewrite D in H.
    rewrite flat_map_app. rewrite !in_app_iff in *. tauto.
  Qed.

  Theorem fresh_file_inert : forall ord ord' ann refs l1 l2 new_s new_p new_a new_d ctx ctx',
    key_compat W -> ord_ok ord -> ord_ok ord' -> stages_local W refs ->
    w_parse W new_s = Ok new_a -> w_decls_of W new_a = Ok new_d ->
    uniq_names W (asts_of W (l1 ++ (new_s, new_p) :: l2)) ->
    w_build_ctx W (asts_of W (l1 ++ l2)) = Ok ctx ->
    w_build_ctx W (asts_of W (l1 ++ (new_s, new_p) :: l2)) = Ok ctx' ->
    (forall s p a, In (s, p) (l1 ++ l2) -> w_parse W s = Ok a ->
                   forall k, In k (refs a) -> ~ In k (declared_names new_d)) ->
    forall s p, In (s, p) (l1 ++ l2) ->
      file_out W ann (w_lookups W ord' ctx') s = file_out W ann (w_lookups W ord ctx) s.
  Proof.
    intros ord ord' ann refs l1 l2 new_s new_p new_a new_d ctx ctx' Kc O O' L P D U B B' Fr s p I.
    unfold file_out. destruct (w_parse W s) as [a|m] eqn:Pa; [|reflexivity].
    assert (E : lk_eq_on W (fun k => In k (refs a)) (w_lookups W ord ctx) (w_lookups W ord' ctx')).
    { apply (lookups_agree W ord ord' (asts_of W (l1 ++ l2)) (asts_of W (l1 ++ (new_s, new_p) :: l2))); try assumption.
      - apply asts_of_incl. intros x Hx. apply in_app_or in Hx. apply in_or_app. destruct Hx; [now left | right; now right].
      - intros k Hk. specialize (Fr s p a I Pa k Hk). unfold declared_names in Fr. rewrite !in_app_iff in Fr.
        rewrite (asts_of_insert _ _ _ _ _ P), asts_of_app.
        unfold no_new_at, universe_c, universe_f, universe_d, all_c, all_f, all_d.
        repeat split; intros y Hy Ky.
        + destruct Hy as [<-|Hy]; [now left|]. right. apply in_app_or in Hy. apply in_or_app. destruct Hy as [Hy|Hy]; [|now right].
          left. destruct (in_all_insert _ (fun d => d_classes d) _ _ _ _ _ D Hy) as [Hn|Ho]; [|exact Ho].
          exfalso. apply Fr. left. subst k. now apply in_map.
        + destruct Hy as [<-|Hy]; [now left|]. right. apply in_app_or in Hy. apply in_or_app. destruct Hy as [Hy|Hy]; [|now right].
          left. destruct (in_all_insert _ (fun d => d_classes d) _ _ _ _ _ D Hy) as [Hn|Ho]; [|exact Ho].
          exfalso. apply Fr. right. left. subst k. now apply in_map.
        + apply in_app_or in Hy. apply in_or_app. destruct Hy as [Hy|Hy]; [|now right].
          left. destruct (in_all_insert _ (fun d => d_funs d) _ _ _ _ _ D Hy) as [Hn|Ho]; [|exact Ho].
          exfalso. apply Fr. right. right. left. subst k. now apply in_map.
        + apply in_app_or in Hy. apply in_or_app. destruct Hy as [Hy|Hy]; [|now right].
          left. destruct (in_all_insert _ (fun d => d_fields d) _ _ _ _ _ D Hy) as [Hn|Ho]; [|exact Ho].
          exfalso. apply Fr. right. right. right. subst k. now apply in_map. }
    destruct (L _ _ a E) as [Lc Lg]. rewrite <- Lc. destruct (w_check W (w_lookups W ord ctx) a) as [t|ms] eqn:C; [|reflexivity].
    now rewrite <- (Lg ann t eq_refl).
  Qed.

  (** at project level: adding the unrelated file (which itself passes) keeps the verdict and every
      other output, and only inserts the new file's output at its place *)
  Theorem fresh_file_project : forall ord ord' ann refs l1 l2 new_s new_p new_a new_d dir dir' pys py_new,
    key_compat W -> ord_ok ord -> ord_ok ord' -> stages_local W refs ->
    w_parse W new_s = Ok new_a -> w_decls_of W new_a = Ok new_d ->
    uniq_names W (asts_of W (l1 ++ (new_s, new_p) :: l2)) ->
    (forall s p a, In (s, p) (l1 ++ l2) -> w_parse W s = Ok a ->
                   forall k, In k (refs a) -> ~ In k (declared_names new_d)) ->
    (forall ctx', w_build_ctx W (asts_of W (l1 ++ (new_s, new_p) :: l2)) = Ok ctx' ->
                  file_out W ann (w_lookups W ord' ctx') new_s = Some py_new) ->
    m2p W ord ann (l1 ++ l2) dir = Ok pys ->
    exists p1 p2, pys = p1 ++ p2 /\ List.length p1 = List.length l1 /\
                  m2p W ord' ann (l1 ++ (new_s, new_p) :: l2) dir' = Ok (p1 ++ py_new :: p2).
  Proof.
    intros ord ord' ann refs l1 l2 new_s new_p new_a new_d dir dir' pys py_new Kc O O' L P D U Fr Hnew H.
    apply m2p_ok_iff in H. destruct H as (ctx & B & F).
    destruct (proj2 (build_ctx_ok_iff W (asts_of W (l1 ++ (new_s, new_p) :: l2)))) as [ctx' B'].
    { intros a Ia. rewrite (asts_of_insert _ _ _ _ _ P) in Ia. apply in_app_or in Ia.
      destruct Ia as [Ia|[<-|Ia]]; [|now exists new_d|];
        apply (proj1 (build_ctx_ok_iff W (asts_of W (l1 ++ l2)))); try (now exists ctx);
        rewrite asts_of_app; apply in_or_app; [now left | now right]. }
    assert (Eq : forall s p, In (s, p) (l1 ++ l2) ->
                 file_out W ann (w_lookups W ord' ctx') s = file_out W ann (w_lookups W ord ctx) s).
    { now apply (fresh_file_inert ord ord' ann refs l1 l2 new_s new_p new_a new_d ctx ctx'). }
    apply Forall2_app_inv_l in F. destruct F as (p1 & p2 & F1 & F2 & ->).
    exists p1, p2. split; [reflexivity|]. split; [symmetry; now apply (Forall2_len _ _ _ _ _ F1)|].
    apply m2p_ok_iff. exists ctx'. split; [assumption|]. apply Forall2_app; [|constructor].
    - apply (forall2_impl_in _ _ _ _ _ _ F1). intros [s p] py Hin Hr. cbn [fst] in *.
      rewrite (Eq s p); [assumption | apply in_or_app; now left].
    - cbn [fst]. now apply Hnew.
    - apply (forall2_impl_in _ _ _ _ _ _ F2). intros [s p] py Hin Hr. cbn [fst] in *.
      rewrite (Eq s p); [assumption | apply in_or_app; now right].
  Qed.

  (** *** definitions of one file are visible to the checker in every other *)
  Theorem cross_file_visible : forall ord source ctx s p a d,
    key_compat W -> ord_ok ord -> w_build_ctx W (asts_of W source) = Ok ctx ->
    In (s, p) source -> w_parse W s = Ok a -> w_decls_of W a = Ok d ->
    (forall c, In c (d_classes d) ->
       exists c', lk_class (w_lookups W ord ctx) (w_c_base W c) = Some c' /\ w_c_base W c' = w_c_base W c /\
                  (uniq_names W (asts_of W source) -> c' = c)) /\
    (forall f, In f (d_funs d) ->
       exists f', lk_fun (w_lookups W ord ctx) (w_f_name W f) = Some f' /\ w_f_name W f' = w_f_name W f /\
                  (uniq_names W (asts_of W source) -> f' = f)) /\
    (forall x, In x (d_fields d) ->
       exists x', lk_field (w_lookups W ord ctx) (w_d_name W x) = Some x' /\ w_d_name W x' = w_d_name W x /\
                  (uniq_names W (asts_of W source) -> x' = x)).
  Proof.
    intros ord source ctx s p a d [Kc Kf] O B I P D.
    destruct (ctx_covers W _ _ B) as ([Ic Cc] & [Id Cd] & [If Cf]).
    assert (Ia : In a (asts_of W source)) by (apply asts_of_in; now exists s, p).
    unfold w_lookups, lookups_of. cbn [lk_class lk_fun lk_field]. split; [|split].
    - intros c Hc. assert (Uc : In c (universe_c W (asts_of W source))).
      { right. apply in_or_app. left. unfold all_c. apply in_flat_map. exists a. split; [assumption | now rewrite D]. }
      destruct (Cc c Uc) as (x & Ix & Kx).
      destruct (find_exists _ (fun z => String.eqb (w_c_base W z) (w_c_base W c)) (ord _ (classes ctx)) x) as (c' & Fc).
      { apply (Permutation_in _ (Permutation_sym (O _ _)) Ix). }
      { apply String.eqb_eq. now apply Kc. }
      exists c'. split; [assumption|]. apply find_some in Fc. destruct Fc as [Ic' Kc']. apply String.eqb_eq in Kc'.
      split; [assumption|]. intros (U & _ & _). apply U; try assumption. apply Ic. apply (Permutation_in _ (O _ _) Ic').
    - intros f Hf. assert (Uf : In f (universe_f W (asts_of W source))).
      { apply in_or_app. left. unfold all_f. apply in_flat_map. exists a. split; [assumption | now rewrite D]. }
      destruct (Cf f Uf) as (x & Ix & Kx).
      destruct (find_exists _ (fun z => String.eqb (w_f_name W z) (w_f_name W f)) (ord _ (functions ctx)) x) as (f' & Ff).
      { apply (Permutation_in _ (Permutation_sym (O _ _)) Ix). }
      { apply String.eqb_eq. now apply Kf. }
      exists f'. split; [assumption|]. apply find_some in Ff. destruct Ff as [If' Kf']. apply String.eqb_eq in Kf'.
      split; [assumption|]. intros (_ & U & _). apply U; try assumption. apply If. apply (Permutation_in _ (O _ _) If').
    - intros x0 Hx. assert (Ud : In x0 (universe_d W (asts_of W source))).
      { apply in_or_app. left. unfold all_d. apply in_flat_map. exists a. split; [assumption | now rewrite D]. }
      destruct (Cd x0 Ud) as (x & Ix & Kx).
      destruct (find_exists _ (fun z => String.eqb (w_d_name W z) (w_d_name W x0)) (ord _ (fields ctx)) x) as (x' & Fx).
      { apply (Permutation_in _ (Permutation_sym (O _ _)) Ix). }
      { now apply String.eqb_eq. }
      exists x'. split; [assumption|]. apply find_some in Fx. destruct Fx as [Ix' Kx']. apply String.eqb_eq in Kx'.
      split; [assumption|]. intros (_ & _ & U). apply U; try assumption. apply Id. apply (Permutation_in _ (O _ _) Ix').
  Qed.
End Fresh.

(** ** rerun, with the side condition on output paths discharged from the shape of the tree *)
Section RerunWf.
  Variable W : world.

  Lemma prepare_keys : forall fs od fs1, prepare fs od = Some fs1 -> NoDup (map fst fs) ->
    NoDup (map fst fs1) /\ (forall p, In p (map fst fs1) -> In p (map fst fs) \/ p = od).
  Proof.
    intros fs od fs1 P D. destruct (prepare_spec _ _ _ P) as [[->|[X ->]] _].
    - split; [assumption | intros p Hp; now left].
    - split; [now apply set_nodup|]. intros p Hp.
      destruct (set_keys fs od Dir) as [E|[_ E]]; rewrite E in Hp; [now left|].
      apply in_app_or in Hp. destruct Hp as [Hp|[<-|[]]]; [now left | now right].
  Qed.

  Theorem rerun_idempotent_wf : forall ord fs dir src target ann fs' o,
    ~ is_prefix (src_of dir src) (out_of dir target) ->
    ~ is_prefix (out_of dir target) (src_of dir src) ->
    NoDup (map fst fs) ->
    (forall p, In p (map fst fs) -> file_name p <> ".mamba") ->
    file_name (out_of dir target) <> ".mamba" ->
    tdir W ord fs dir src target ann = (fs', Ok o) ->
    tdir W ord fs' dir src target ann = (fs', Ok o).
  Proof.
    intros ord fs dir src target ann fs' o N1 N2 D Hn Ho H.
    apply (rerun_idempotent W ord fs); try assumption.
    intros fs1 P. destruct (prepare_keys _ _ _ P D) as [D1 K1].
    apply out_paths_nodup; [assumption|]. intros p Hp. destruct (K1 p Hp) as [Hq | ->]; [now apply Hn | assumption].
  Qed.
End RerunWf.
