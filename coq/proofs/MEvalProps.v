(** * The reference semantics of Mamba against the desugaring and the model of Python *)
From Coq Require Import List String Bool ZArith Lia.
From MambaModel Require Import model.Core model.SemDom model.Convert model.PySem model.PyEval model.MEval.
From MambaModel Require Import proofs.PySemProps.
Import ListNotations.

(** ** Operators: the desugaring maps every strict operator of Mamba to the Python operator
       with the same meaning on values; [and]/[or] to [and]/[or] *)
Lemma strict_operator_table : forall o so,
  nbin_sop o = Some so ->
  exists c, (forall l r, bin_core o l r = Bin c l r) /\ cbin_sop c = Some so.
Proof.
  intros o so H; destruct o; cbn in H; try discriminate H; injection H as <-;
    eexists; (split; [intros; reflexivity | reflexivity]).
Qed.

Lemma logic_operator_table :
  (forall l r, bin_core SAnd l r = Bin CbAnd l r) /\ (forall l r, bin_core SOr l r = Bin CbOr l r).
Proof. split; reflexivity. Qed.

Lemma unary_operator_table :
  (forall e, un_core SAddU e = Un CuAddU e) /\ (forall e, un_core SSubU e = Un CuSubU e)
  /\ (forall e, un_core SBOneCmpl e = Un CuBOneCmpl e) /\ (forall e, un_core SNot e = Un CuNot e).
Proof. repeat split; reflexivity. Qed.

Lemma augmented_assignment_table : forall o so,
  nodeop_sop o = Some so -> exists c, core_op o = Some c /\ coreop_sop c = Some so.
Proof.
  intros o so H; destruct o; cbn in H; try discriminate H; injection H as <-;
    eexists; split; reflexivity.
Qed.

(** on booleans Python's [and]/[or]/[not] (truthiness, operand returned) are Mamba's *)
Lemma and_or_on_booleans : forall b (v : value),
  (if truthy (VBool b) then v else VBool b) = (if b then v else VBool false)
  /\ (if truthy (VBool b) then VBool b else v) = (if b then VBool true else v).
Proof. intros [|] v; split; reflexivity. Qed.

(** ** Ranges *)
Local Open Scope Z_scope.

(** the emitted end of an inclusive range is [to + 1]; the documented one is [range_end] *)
Lemma inclusive_end_positive_step : forall b s, 0 < s -> range_end b s true = b + 1.
Proof. intros b s H. unfold range_end. apply Z.ltb_lt in H. rewrite H. reflexivity. Qed.

Lemma exclusive_end : forall b s, range_end b s false = b.
Proof. reflexivity. Qed.

(** with a negative step the emitted end differs from the documented one, and elements are lost *)
Lemma inclusive_end_negative_step_refuted :
  exists a b s, s < 0 /\ range_list a (b + 1) s <> range_list a (range_end b s true) s.
Proof. exists 5, 1, (-2). split; [lia|]. vm_compute. discriminate. Qed.

(** the elements of [range_list] for a positive step: [a + i*s] below the end *)
Lemma range_len_pos : forall a b s, 0 < s -> a < b ->
  range_len a b s = (b - a + s - 1) / s.
Proof.
  intros a b s Hs Hab. unfold range_len.
  assert (H1 : (s >? 0) = true) by (apply Z.gtb_lt; lia). rewrite H1.
  assert (H2 : (a <? b) = true) by (apply Z.ltb_lt; lia). rewrite H2. reflexivity.
Qed.

Lemma range_len_pos_empty : forall a b s, 0 < s -> b <= a -> range_len a b s = 0.
Proof.
  intros a b s Hs Hab. unfold range_len.
  assert (H1 : (s >? 0) = true) by (apply Z.gtb_lt; lia). rewrite H1.
  assert (H2 : (a <? b) = false) by (apply Z.ltb_ge; lia). rewrite H2. reflexivity.
Qed.

Lemma in_range_list : forall a b s x,
  In x (range_list a b s) <-> exists i : nat, (Z.of_nat i < range_len a b s) /\ x = a + Z.of_nat i * s.
Proof.
  intros a b s x. unfold range_list. rewrite in_map_iff. split.
  - intros [i [Hx Hi]]. apply in_seq in Hi. exists i. split; lia.
  - intros [i [Hi Hx]]. exists i. split; [lia|]. apply in_seq. lia.
Qed.

Theorem range_positive_step_elements : forall a b s x, 0 < s ->
  In x (range_list a b s) <-> exists i, 0 <= i /\ x = a + i * s /\ x < b.
Proof.
  intros a b s x Hs. rewrite in_range_list. split.
  - intros [i [Hi Hx]]. exists (Z.of_nat i). split; [lia|]. split; [exact Hx|].
    destruct (Z_lt_le_dec a b) as [Hab|Hab].
    + rewrite range_len_pos in Hi by lia.
      assert (Z.of_nat i * s < b - a); [|lia].
      pose proof (Z.div_mod (b - a + s - 1) s ltac:(lia)) as Hd.
      pose proof (Z.mod_pos_bound (b - a + s - 1) s Hs) as Hm. nia.
    + rewrite range_len_pos_empty in Hi by lia. lia.
  - intros [i [Hi [Hx Hb]]]. exists (Z.to_nat i). rewrite Z2Nat.id by lia. split; [|exact Hx].
    assert (Hab : a < b) by nia.
    rewrite range_len_pos by lia.
    assert (i + 1 <= (b - a + s - 1) / s) by (apply Z.div_le_lower_bound; nia). lia.
Qed.

(** the documented inclusive range, positive step: exactly the [a + i*s] up to and including [b] *)
Corollary inclusive_range_positive_step : forall a b s x, 0 < s ->
  In x (range_list a (range_end b s true) s) <-> exists i, 0 <= i /\ x = a + i * s /\ x <= b.
Proof.
  intros a b s x Hs. rewrite inclusive_end_positive_step by exact Hs.
  rewrite range_positive_step_elements by exact Hs.
  split; intros [i [H1 [H2 H3]]]; exists i; repeat split; try assumption; lia.
Qed.

(** ** [x ? d]: desugared to [x or d], which differs when [x] is defined but falsy *)
Definition question_program : ast :=
  A None (NBlock [A None (NCall "print" [] [A None (NBin SQuestion (A None (NInt "0")) (A None (NInt "5")))])]).

Lemma question_refuted :
  exists c, gen false question_program = Some c /\ run_mamba 50 question_program <> run_py 50 c.
Proof. eexists. split; [vm_compute; reflexivity|]. vm_compute. discriminate. Qed.

(** and agrees when the left operand is undefined (a test, not the general claim) *)
Definition question_none_program : ast :=
  A None (NBlock [A None (NCall "print" [] [A None (NBin SQuestion (A None NUndefined) (A None (NInt "5")))])]).
Example question_on_none :
  exists c, gen false question_none_program = Some c /\ run_mamba 50 question_none_program = run_py 50 c.
Proof. eexists. split; [vm_compute; reflexivity | vm_compute; reflexivity]. Qed.

(** ** The desugaring theorems instantiated on the model of Python *)
Notation pvexec ev :=
  (PySem.vexec value penv value ev cassign (caugment ev) truthy VNone as_exn iter cpmatch ccatches cassign cdefine).

Lemma cexpr_none : forall f e, cexpr (S f) None_ e = (inl VNone, e).
Proof. reflexivity. Qed.

Theorem py_implicit_return : forall k f c e,
  ret_ok c = true ->
  fres_o value penv value VNone (pexec (cexpr (S k)) f (append_ret c) e)
  = fres_v value penv value VNone (pvexec (cexpr (S k)) f c e).
Proof. intros k f c e H. apply ret_correct; [apply cexpr_none | exact H]. Qed.

Theorem py_assign_in_branches : forall k f t n c i e r,
  assign_ok c = true ->
  pvexec (cexpr (S k)) f c e = r -> r <> VFuel _ _ _ ->
  pexec (cexpr (S k)) f (fst (append_assign t n c i)) e = assign_of value penv value cassign t r.
Proof. intros k f t n c i e r. apply assign_correct. Qed.
