(** * C17 - witnesses: where the API does NOT mirror the definitions, and a non-trivial program where it does *)
From Coq Require Import List String Bool.
From MambaModel Require Import model.Core gen.Names model.Convert model.Api proofs.ApiProps.
Import ListNotations.
Local Open Scope string_scope.

Definition an (n : node) : ast := A None n.
Definition int_ty : nm := NM [TN false "Int" []].
Definition str_ty : nm := NM [TN false "Str" []].
Definition idn (x : string) : ast := A (Some int_ty) (NId x).
Definition arg (x : string) : ast := an (NFunArg false (an (NId x)) (Some int_ty) None).
Definition argd (x : string) (d : ast) : ast := an (NFunArg false (an (NId x)) (Some int_ty) (Some d)).
Definition vararg (x : string) : ast := an (NFunArg true (an (NId x)) (Some int_ty) None).
Definition self_arg : ast := an (NFunArg false (an (NId "self")) None None).
Definition fundef (name : string) (args : list ast) (body : ast) : ast :=
  an (NFunDef (an (NId name)) args (Some int_ty) (Some body)).
Definition absdef (name : string) (args : list ast) : ast :=
  an (NFunDef (an (NId name)) args (Some int_ty) None).
Definition int (s : string) : ast := A (Some int_ty) (NInt s).
Definition field (x : string) (e : ast) : ast := an (NVarDef (an (NId x)) (Some int_ty) (Some e)).
Definition carg (x : string) : ast := an (NVarDef (an (NId x)) (Some int_ty) None).
Definition cls name args parents members : ast := an (NClass name [] args parents (Some (an (NBlock members)))).
(** [def x: Int := match 1 { 1 => v }] *)
Definition mfield (x : string) (v : string) : ast :=
  field x (A (Some int_ty) (NMatch (int "1") [an (NCase (an (NExprType (int "1") None)) (int v))])).

(** ** [size]: renamed where it is defined, not where it is called (D14)

    [def size(x: Int) -> Int => x] followed by the call [size(3)] *)
Definition w_size : ast := an (NBlock [fundef "size" [arg "x"] (idn "x"); an (NCall "size" [] [int "3"])]).

Example size_witness :
  wf_api w_size = true /\
  conv w_size (state0 false) imports0 =
    Some (Block [FunDef [] "__size__" [FunArg false (Id "x") None None] None (Un CuReturn (Id "x"));
                 FunctionCall (Type_ "size" []) [Int "3"]], imports0) /\
  api_src w_size = [SFun ("size", [("x", false, false)])].
Proof. vm_compute. repeat split. Qed.

(** the property as stated (same names) is false of the model *)
Lemma same_names_refuted :
  exists ann a c j, conv a (state0 ann) imports0 = Some (c, j) /\ wf_api a = true /\ api_py c <> api_src a.
Proof.
  exists false, w_size. eexists. eexists. split; [vm_compute; reflexivity|]. split; [reflexivity|].
  vm_compute. discriminate.
Qed.

(** ** Two members of one name: the map keeps the last one only *)

(** [class C { def f(self) -> Int => 1; def f(self, x: Int) -> Int => x }] *)
Definition w_dup : ast :=
  an (NBlock [cls "C" [] [] [fundef "f" [self_arg] (int "1"); fundef "f" [self_arg; arg "x"] (idn "x")]]).
(** [class C { def f(self) -> Int => 1; def f: Int := 2 }]: the method disappears *)
Definition w_shadow : ast :=
  an (NBlock [cls "C" [] [] [fundef "f" [self_arg] (int "1"); field "f" (int "2")]]).

Lemma duplicate_member_refuted :
  exists ann a c j, conv a (state0 ann) imports0 = Some (c, j) /\ api_py c <> map py_sig (api_src a).
Proof. exists false, w_dup. eexists. eexists. split; [vm_compute; reflexivity|]. vm_compute. discriminate. Qed.

Example duplicate_method_witness :
  option_map (fun x => api_py (fst x)) (conv w_dup (state0 false) imports0)
  = Some [SClass "C" [] None [("f", [("self", false, false); ("x", false, false)])]].
Proof. vm_compute. reflexivity. Qed.

Lemma method_shadowed_by_field_refuted :
  exists ann a c j, conv a (state0 ann) imports0 = Some (c, j) /\
    api_py c = [SClass "C" [] None []] /\ api_src a = [SClass "C" [] None [("f", [("self", false, false)])]].
Proof. exists false, w_shadow. eexists. eexists. split; [vm_compute; reflexivity|]. split; vm_compute; reflexivity. Qed.

(** ** Several statements that are neither functions nor plain variable definitions share the key ["@"]

    [class C { def x: Int := match 1 ..; def y: Int := match 1 ..; def m(self) -> Int => 1 }]: the
    definition of [x] is gone from the class body (the API of functions and methods is not affected, and
    [wf_api] holds) *)
Definition w_plain : ast :=
  an (NBlock [cls "C" [] [] [mfield "x" "10"; mfield "y" "20"; fundef "m" [self_arg] (int "1")]]).

Lemma plain_statement_dropped :
  wf_api w_plain = true /\
  conv w_plain (state0 false) imports0 =
    Some (Block [ClassDef (Id "C") []
                   (Block [Match (Int "1") [Case (Int "1") (VarDef (Id "y") (Some (Type_ "int" [])) (Some (Int "20")))];
                           FunDef [] "m" [FunArg false (Id "self") None None] None (Un CuReturn (Int "1"))])],
          imports0).
Proof. vm_compute. split; reflexivity. Qed.

Lemma plain_statement_dropped_core :
  assemble_class [DocStr "one"; DocStr "two"] [] [] = Some ([], [DocStr "two"]).
Proof. reflexivity. Qed.

(** ** Class arguments next to an explicit constructor are not parameters of [__init__]

    [class C(def a: Int) { def __init__(self, b: Int) -> Int => 1 }] (the checker rejects such a class:
    "Cannot have constructor and class arguments") *)
Definition w_lost : ast :=
  an (NBlock [cls "C" [carg "a"] [] [fundef "__init__" [self_arg; arg "b"] (int "1")]]).

Lemma class_args_lost_refuted :
  exists ann a c j, conv a (state0 ann) imports0 = Some (c, j) /\
    api_py c = [SClass "C" [] (Some ("__init__", [("self", false, false); ("b", false, false)])) []] /\
    map py_sig (api_src a) = [SClass "C" [] (Some ("__init__", [("self", false, false); ("a", false, false)])) []].
Proof. exists false, w_lost. eexists. eexists. split; [vm_compute; reflexivity|]. split; vm_compute; reflexivity. Qed.

(** ** Non-vacuity: a function with a default and a variadic parameter, an interface, classes with class
    arguments, parents with arguments, several parents, an explicit constructor, an operator and [size] *)
Definition sample : ast := an (NBlock [
  fundef "g" [arg "a"; argd "b" (int "2"); vararg "c"] (idn "a");
  an (NTypeDef "T" [] None (Some (an (NBlock [absdef "area" [self_arg]]))) false);
  cls "P" [carg "a"; an (NFunArg false (an (NId "b")) (Some str_ty) (Some (A (Some str_ty) (NStr "x" false))))] []
      [fundef "get" [self_arg] (int "1")];
  cls "R" [carg "a"; carg "z"] [an (NParent "P" [] [idn "a"; A (Some str_ty) (NStr "k" false)]); an (NParent "T" [] [])]
      [field "w" (int "5"); fundef "area" [self_arg] (int "1"); fundef "__add__" [self_arg; arg "other"] (int "1");
       fundef "size" [self_arg] (int "0")];
  cls "S" [] [an (NParent "P" [] [int "1"])]
      [field "v" (int "2"); fundef "__init__" [self_arg; arg "v"] (int "1")]]).

Example sample_wf : wf_api sample = true. Proof. reflexivity. Qed.

Example sample_api :
  forall ann, option_map (fun x => api_py (fst x)) (conv sample (state0 ann) imports0) =
  Some [SFun ("g", [("a", false, false); ("b", false, true); ("c", true, false)]);
        SClass "T" ["ABC"] None [("area", [("self", false, false)])];
        SClass "P" [] (Some ("__init__", [("self", false, false); ("a", false, false); ("b", false, true)]))
               [("get", [("self", false, false)])];
        SClass "R" ["P"; "T"] (Some ("__init__", [("self", false, false); ("a", false, false); ("z", false, false)]))
               [("area", [("self", false, false)]); ("__add__", [("self", false, false); ("other", false, false)]);
                ("__size__", [("self", false, false)])];
        SClass "S" ["P"] (Some ("__init__", [("self", false, false); ("v", false, false)])) []].
Proof. intros []; vm_compute; reflexivity. Qed.

(** a program without renamed names, for [api_same] *)
Definition sample_plain : ast := an (NBlock [
  fundef "g" [arg "a"; argd "b" (int "2"); vararg "c"] (idn "a");
  cls "P" [carg "a"] [] [fundef "get" [self_arg] (int "1"); fundef "__lt__" [self_arg; arg "o"] (int "1")]]).
Example sample_plain_ok :
  wf_api sample_plain = true /\ forallb plain_sig (api_src sample_plain) = true /\
  exists c j, conv sample_plain (state0 true) imports0 = Some (c, j).
Proof. split; [reflexivity|]. split; [vm_compute; reflexivity|]. eexists. eexists. vm_compute. reflexivity. Qed.
