(** * Simple statements: the emitted Python statement runs like the Mamba statement

    Above the pure expressions of [ExprSim]: definitions [def x := e], assignments [x := e], compound
    assignments [x += e] (every operator of the table), [pass], blocks, and [if]/[if-else] in statement
    position, nested to any depth, all right-hand sides and conditions pure.
    - [conv_simple_sim]: whatever [conv] emits for such a statement (in a state without pending
      return/assignment flags), the statement semantics of Python [pexec] ends normally / raises exactly when
      the reference semantics [mev] does, and the two final environments again agree on every variable,
      on the printed output and on the [bad] flag - for every statement fuel at least as large and every
      expression fuel at least twice as large.  (Nothing is claimed where the reference semantics itself is
      undefined: unsupported value shapes, out of fuel.) *)
From Coq Require Import List String Bool ZArith Lia.
Local Open Scope string_scope.
From MambaModel Require Import model.Core gen.Names model.SemDom model.Convert model.PySem model.PyEval model.MEval.
From MambaModel Require Import proofs.ConvUnfold proofs.ConvertProps proofs.ExprSim.
Import ListNotations.

Notation mev0 := (mev_dev false false).

(** ** The class of statements *)
Definition stable_id (a : ast) : bool :=
  match a with A _ (NId x) => String.eqb (concrete_to_python x) x | _ => false end.

Definition simple_op (o : nodeop) : bool :=
  match o with NAssign => true | _ => match nodeop_sop o with Some _ => true | None => false end end.

Fixpoint simple (a : ast) : bool :=
  match a with A aty nd =>
  match nd with
  | NPass => true
  | NVarDef var _ (Some e) => stable_id var && pure e
  | NReassign l r op => stable_id l && pure r && simple_op op
  | NBlock l => forallb simple l
  | NIfElse c t (Some el) => match aty with None => pure c && simple t && simple el | Some _ => false end
  | NIfElse c t None => pure c && simple t
  | _ => false
  end end.

(** a conversion state without pending flags, outside a parameter list *)
Definition plain_stmt (st : state) : Prop := plain st /\ def_as_fun_arg st = false.

(** ** Environments *)
Definition srel (em : menv) (ep : penv) : Prop :=
  env_rel em ep /\ out em = out ep /\ bad em = bad ep.

Lemma sget_sset y x v s : sget y (sset x v s) = if String.eqb y x then Some v else sget y s.
Proof.
  induction s as [|[k w] r IH]; cbn [sset sget].
  - reflexivity.
  - destruct (String.eqb_spec x k) as [->|Hxk]; cbn [sget].
    + destruct (String.eqb_spec y k); reflexivity.
    + rewrite IH. destruct (String.eqb_spec y k) as [->|Hyk]; [|reflexivity].
      destruct (String.eqb_spec k x) as [->|_]; [contradiction Hxk; reflexivity | reflexivity].
Qed.

Lemma lookup_set {B} y x v (e : env B) :
  lookup_var y (set_var x v e) = if String.eqb y x then Some v else lookup_var y e.
Proof.
  unfold lookup_var, set_var. destruct (frame e) as [fr|]; cbn [frame globals].
  - rewrite sget_sset. destruct (String.eqb y x); reflexivity.
  - apply sget_sset.
Qed.

Lemma out_set {B} x v (e : env B) : out (set_var x v e) = out e.
Proof. unfold set_var. destruct (frame e); reflexivity. Qed.
Lemma bad_set {B} x v (e : env B) : bad (set_var x v e) = bad e.
Proof. unfold set_var. destruct (frame e); reflexivity. Qed.

Lemma srel_set x v em ep : srel em ep -> srel (set_var x v em) (set_var x v ep).
Proof.
  intros [R [Ho Hb]]. split; [|split].
  - intro y. rewrite !lookup_set. destruct (String.eqb y x); [reflexivity | apply R].
  - rewrite !out_set. exact Ho.
  - rewrite !bad_set. exact Hb.
Qed.

(** ** Results *)
Notation pex fe := (pexec (cexpr fe)).
Notation poutcome := (PySem.outcome value penv value).

Definition SRel (r : mres) (o : poutcome) : Prop :=
  match r with
  | MVal _ em' => exists ep', o = ONormal _ _ _ ep' /\ srel em' ep'
  | MExc x em' => is_internal x = true \/ exists ep', o = ORaise _ _ _ x ep' /\ srel em' ep'
  | _ => False
  end.

(** ** Shapes of the translation *)
Definition is_branching (c : core) : bool :=
  match c with IfElse _ _ _ | Match _ _ => true | _ => false end.

Lemma tr_not_branching : forall n a b, size a <= n -> pure a = true -> is_branching (tr b a) = false.
Proof.
  induction n as [|n IH]; intros a b Hn Hp.
  { destruct a; rewrite size_unfold in Hn; lia. }
  destruct a as [ty nd]. rewrite size_unfold in Hn.
  destruct nd; cbn [pure] in Hp; try discriminate Hp; cbn [tr]; try reflexivity.
  - destruct o; reflexivity.
  - destruct o; reflexivity.
  - destruct b; reflexivity.
  - apply IH; [lia | exact Hp].
Qed.

Lemma plain_cond st : plain st -> with_assign (with_last_ret st false) None = st.
Proof. destruct st; intros [H1 H2]; cbn in *; subst; reflexivity. Qed.

Lemma bind_inv {X Y} (m : M X) (k : X -> M Y) i r :
  bind m k i = Some r -> exists x i1, m i = Some (x, i1) /\ k x i1 = Some r.
Proof.
  unfold bind. destruct (m i) as [[x i1]|]; [|discriminate].
  intro H. exists x, i1. split; [reflexivity | exact H].
Qed.

Lemma mmap_inv (st : state) : forall (l : list ast) i cs i',
  mmap (fun x => conv x st) l i = Some (cs, i') ->
  match l with
  | [] => cs = [] /\ i' = i
  | a :: r => exists c i1 cr, conv a st i = Some (c, i1)
                              /\ mmap (fun x => conv x st) r i1 = Some (cr, i') /\ cs = c :: cr
  end.
Proof.
  intros [|a r] i cs i' H; cbn [mmap] in H.
  - unfold ret in H. injection H as <- <-. split; reflexivity.
  - apply bind_inv in H. destruct H as [c [i1 [Hc H]]].
    apply bind_inv in H. destruct H as [cr [i2 [Hr H]]].
    unfold ret in H. injection H as <- <-. exists c, i1, cr. repeat split; assumption.
Qed.

Lemma op_tables o : simple_op o = true -> o <> NAssign ->
  exists co so, core_op o = Some co /\ nodeop_sop o = Some so /\ coreop_sop co = Some so /\ co <> OpAssign.
Proof.
  intros H Hn. destruct o; try (contradiction Hn; reflexivity); cbn in H; try discriminate H;
    eexists; eexists; (split; [reflexivity|]); (split; [reflexivity|]); (split; [reflexivity | discriminate]).
Qed.

(** ** The simulation *)
Theorem conv_simple_sim : forall f a, simple a = true ->
  forall st i c i', plain_stmt st -> conv a st i = Some (c, i') ->
  forall fs fe em ep, f <= fs -> 2 * f <= fe -> srel em ep ->
    SRel (mev0 f a em) (pex fe fs c ep).
Proof.
  induction f as [|f IH]; intros a Hs st i c i' Pst Hc fs fe em ep Hfs Hfe R.
  { cbn. left. reflexivity. }
  destruct fs as [|fs]; [lia|]. assert (Hfs' : f <= fs) by lia. assert (Hfe' : 2 * f <= fe) by lia.
  destruct Pst as [Pl Hdf]. pose proof Pl as [Ha Hl].
  destruct a as [aty nd]. rewrite conv_eq in Hc. cbv zeta in Hc.
  rewrite Ha, Hl, (plain_norm st Pl) in Hc.
  apply bind_inv in Hc. destruct Hc as [cw [iw [Hc Hw]]]. unfold bind, ret in Hw. injection Hw as -> ->.
  destruct nd; cbn [simple] in Hs; try discriminate Hs.
  - (* NPass *)
    unfold ret in Hc. injection Hc as <- <-. cbn. exists ep. split; [reflexivity | exact R].
  - (* NVarDef *)
    destruct expr as [e|]; [|discriminate Hs].
    apply andb_true_iff in Hs. destruct Hs as [Hv He].
    destruct var as [vt vn]. destruct vn; cbn [stable_id] in Hv; try discriminate Hv.
    pose proof Hv as Hvp. apply String.eqb_eq in Hv.
    apply bind_inv in Hc. destruct Hc as [v [i1 [Hcv Hc]]].
    assert (Ptl : plain (with_tup_lit st)) by (destruct st; cbn in *; split; assumption).
    rewrite (conv_pure _ (A vt (NId s)) (le_n _) Hvp (with_tup_lit st) i Ptl) in Hcv.
    cbn [tr] in Hcv. injection Hcv as <- <-.
    apply bind_inv in Hc. destruct Hc as [ty [i2 [_ Hc]]].
    rewrite Hdf in Hc.
    apply bind_inv in Hc. destruct Hc as [ce [i3 [Hce Hc]]].
    rewrite (conv_pure (size e) e (le_n _) He st i2 Pl) in Hce. injection Hce as <- <-.
    pose proof (tr_not_branching (size e) e (tup_lit st) (le_n _) He) as Hnb.
    assert (Hc' : c = VarDef (Id s) ty (Some (tr (tup_lit st) e)) /\ i' = i2).
    { destruct (tr (tup_lit st) e); cbn in Hnb; try discriminate Hnb;
        unfold bind, ret in Hc; injection Hc as <- <-; split; reflexivity. }
    destruct Hc' as [-> ->].
    destruct R as [Re Rob].
    pose proof (pure_sim f e He (tup_lit st) fe Hfe' em ep Re) as Se.
    cbn [mev_dev mev1 PySem.exec]. unfold PySem.ebind.
    destruct (mev0 f e em) as [[w|] e1 | w e1 | x e1 | e1 | e1] eqn:Ee; cbn in Se; try contradiction.
    + destruct Se as [-> Ce]. rewrite Ce. cbn. eexists. split; [reflexivity|].
      apply srel_set. split; assumption.
    + destruct Se as [I | [-> Ce]]; [left; exact I|]. right. rewrite Ce. eexists. split; [reflexivity|].
      split; assumption.
  - (* NReassign *)
    apply andb_true_iff in Hs. destruct Hs as [Hs Hop]. apply andb_true_iff in Hs. destruct Hs as [Hv Hr].
    destruct l as [vt vn]. destruct vn; cbn [stable_id] in Hv; try discriminate Hv.
    pose proof Hv as Hvp. apply String.eqb_eq in Hv.
    apply bind_inv in Hc. destruct Hc as [cl [i1 [Hcl Hc]]].
    rewrite (conv_pure _ (A vt (NId s)) (le_n _) Hvp st i Pl) in Hcl. injection Hcl as <- <-.
    apply bind_inv in Hc. destruct Hc as [cr [i2 [Hcr Hc]]].
    rewrite (conv_pure (size r) r (le_n _) Hr st i Pl) in Hcr. injection Hcr as <- <-.
    cbn [tr] in Hc.
    destruct R as [Re Rob].
    pose proof (pure_sim f r Hr (tup_lit st) fe Hfe' em ep Re) as Sr.
    destruct op; try (cbn in Hop; discriminate Hop); try (
      (* compound *)
      destruct (op_tables _ Hop ltac:(discriminate)) as [co [so [Hco [Hso [Hcso Hne]]]]];
      rewrite Hco in Hc; unfold ret in Hc; injection Hc as <- <-;
      cbn in Hco; injection Hco as <-; cbn in Hso; injection Hso as <-;
      pose proof (pure_sim f (A vt (NId s)) Hvp (tup_lit st) fe Hfe' em ep Re) as Sl; cbn [tr] in Sl;
      cbn [mev_dev mev1 nodeop_sop PySem.exec]; unfold PySem.ebind, caugment; cbn [coreop_sop];
      unfold mval at 1;
      destruct (mev0 f (A vt (NId s)) em) as [[wl|] e1 | wl e1 | x e1 | e1 | e1] eqn:El; cbn in Sl; try contradiction;
      [ destruct Sl as [-> Cl]; rewrite Cl; unfold mval;
        destruct (mev0 f r em) as [[wr|] e2 | wr e2 | x e2 | e2 | e2] eqn:Er; cbn in Sr; try contradiction;
        [ destruct Sr as [-> Cr]; rewrite Cr;
          match goal with |- context [sbin ?o ?a ?b] => destruct (sbin o a b) as [res|ex] end;
          [ eexists; split; [reflexivity | apply srel_set; split; assumption]
          | right; eexists; split; [reflexivity | split; assumption] ]
        | destruct Sr as [I | [-> Cr]]; [left; exact I | right; rewrite Cr; eexists; split; [reflexivity | split; assumption]] ]
      | destruct Sl as [I | [-> Cl]]; [left; exact I | right; rewrite Cl; eexists; split; [reflexivity | split; assumption]] ]).
    (* plain assignment *)
    cbn in Hc. unfold ret in Hc. injection Hc as <- <-.
    cbn [mev_dev mev1 PySem.exec]. unfold PySem.ebind, mval.
    destruct (mev0 f r em) as [[w|] e1 | w e1 | x e1 | e1 | e1] eqn:Er; cbn in Sr; try contradiction.
    + destruct Sr as [-> Cr]. rewrite Cr. cbn. eexists. split; [reflexivity|]. apply srel_set. split; assumption.
    + destruct Sr as [I | [-> Cr]]; [left; exact I|]. right. rewrite Cr. eexists. split; [reflexivity|]. split; assumption.
  - (* NBlock *)
    apply bind_inv in Hc. destruct Hc as [cs [i1 [Hcs Hc]]]. unfold ret in Hc. injection Hc as <- <-.
    cbn [mev_dev mev1 PySem.exec].
    revert i cs i1 em ep R Hcs. induction stmts as [|s r IHr]; intros i cs i1 em ep R Hcs.
    + apply mmap_inv in Hcs. destruct Hcs as [-> ->]. cbn. exists ep. split; [reflexivity | exact R].
    + cbn [forallb] in Hs. apply andb_true_iff in Hs. destruct Hs as [Hs1 Hsr].
      apply mmap_inv in Hcs. destruct Hcs as [c1 [i2 [cr [Hc1 [Hcr ->]]]]].
      pose proof (IH s Hs1 st i c1 i2 (conj Pl Hdf) Hc1 fs fe em ep Hfs' Hfe' R) as S1.
      specialize (IHr Hsr).
      cbn [mseq PySem.seq_exec].
      destruct r as [|s2 r2].
      * apply mmap_inv in Hcr. destruct Hcr as [-> ->]. cbn [PySem.seq_exec].
        destruct (mev0 f s em) as [ov e1 | w e1 | x e1 | e1 | e1] eqn:E1; cbn in S1; try contradiction.
        -- destruct S1 as [ep' [-> R']]. cbn. exists ep'. split; [reflexivity | exact R'].
        -- destruct S1 as [I | [ep' [-> R']]]; [left; exact I | right; exists ep'; split; [reflexivity | exact R']].
      * destruct (mev0 f s em) as [ov e1 | w e1 | x e1 | e1 | e1] eqn:E1; cbn in S1; try contradiction.
        -- destruct S1 as [ep' [-> R']]. apply (IHr i2 cr i1 e1 ep' R' Hcr).
        -- destruct S1 as [I | [ep' [-> R']]]; [left; exact I | right; exists ep'; split; [reflexivity | exact R']].
  - (* NIfElse *)
    destruct R as [Re Rob].
    apply bind_inv in Hc. destruct Hc as [cc [i1 [Hcc Hc]]].
    rewrite (plain_cond st Pl) in Hcc.
    destruct el as [el|].
    + destruct aty; [discriminate Hs|].
      apply andb_true_iff in Hs. destruct Hs as [Hs Hel]. apply andb_true_iff in Hs. destruct Hs as [Hcnd Ht].
      rewrite (conv_pure (size c0) c0 (le_n _) Hcnd st i Pl) in Hcc. injection Hcc as <- <-.
      cbn [andb] in Hc.
      apply bind_inv in Hc. destruct Hc as [ct [i2 [Hct Hc]]].
      apply bind_inv in Hc. destruct Hc as [ce [i3 [Hce Hc]]]. unfold ret in Hc. injection Hc as <- <-.
      pose proof (pure_sim f c0 Hcnd (tup_lit st) fe Hfe' em ep Re) as Sc.
      cbn [mev_dev mev1 PySem.exec]. unfold PySem.ebind, mval.
      destruct (mev0 f c0 em) as [[w|] e1 | w e1 | x e1 | e1 | e1] eqn:Ec; cbn in Sc; try contradiction.
      * destruct Sc as [-> Cc]. rewrite Cc.
        destruct w; try (left; reflexivity).
        destruct b; cbn [truthy].
        -- apply (IH t Ht st i ct i2 (conj Pl Hdf) Hct fs fe em ep Hfs' Hfe' (conj Re Rob)).
        -- apply (IH el Hel st i2 ce i3 (conj Pl Hdf) Hce fs fe em ep Hfs' Hfe' (conj Re Rob)).
      * destruct Sc as [I | [-> Cc]]; [left; exact I|]. right. rewrite Cc. eexists. split; [reflexivity|]. split; assumption.
    + apply andb_true_iff in Hs. destruct Hs as [Hcnd Ht].
      rewrite (conv_pure (size c0) c0 (le_n _) Hcnd st i Pl) in Hcc. injection Hcc as <- <-.
      apply bind_inv in Hc. destruct Hc as [ct [i2 [Hct Hc]]]. unfold ret in Hc. injection Hc as <- <-.
      pose proof (pure_sim f c0 Hcnd (tup_lit st) fe Hfe' em ep Re) as Sc.
      cbn [mev_dev mev1 PySem.exec]. unfold PySem.ebind, mval.
      destruct (mev0 f c0 em) as [[w|] e1 | w e1 | x e1 | e1 | e1] eqn:Ec; cbn in Sc; try contradiction.
      * destruct Sc as [-> Cc]. rewrite Cc.
        destruct w; try (left; reflexivity).
        destruct b; cbn [truthy].
        -- pose proof (IH t Ht st i ct i2 (conj Pl Hdf) Hct fs fe em ep Hfs' Hfe' (conj Re Rob)) as St.
           destruct (mev0 f t em) as [ov e1 | w e1 | x e1 | e1 | e1] eqn:Et; cbn in St; try contradiction; exact St.
        -- exists ep. split; [reflexivity | split; assumption].
      * destruct Sc as [I | [-> Cc]]; [left; exact I|]. right. rewrite Cc. eexists. split; [reflexivity|]. split; assumption.
Qed.

(** stated with the reference evaluator [mev] itself *)
Corollary simple_stmt_correct a st i c i' :
  simple a = true -> plain_stmt st -> conv a st i = Some (c, i') ->
  forall f fs fe em ep, f <= fs -> 2 * f <= fe -> srel em ep -> SRel (mev f a em) (pex fe fs c ep).
Proof. intros Hs Pst Hc f fs fe em ep Hfs Hfe R. exact (conv_simple_sim f a Hs st i c i' Pst Hc fs fe em ep Hfs Hfe R). Qed.

(** the relation is an equivalence on what a program can observe: it holds initially *)
Lemma srel_env0 : srel (@env0 ast) (@env0 core).
Proof. split; [intro x; reflexivity | split; reflexivity]. Qed.

(** non-vacuity: [def x := 1; def y := x + 2; if y > 2 then { x := y * 2; x += 3 } else pass; if x = 9 then y -= 1]
    is simple, converts with and without annotations, and both sides end with x = 9, y = 2;
    a shift by a negative count in a branch raises the same exception on both sides with the same variables *)
Definition sample_stmt (op : nodeop) (operand : string) : ast :=
  let lit s := A None (NInt s) in
  let v s := A None (NId s) in
  A None (NBlock [
    A None (NVarDef (v "x") None (Some (lit "1")));
    A None (NVarDef (v "y") None (Some (A None (NBin SAdd (v "x") (lit "2")))));
    A None (NIfElse (A None (NBin SGe (v "y") (lit "2")))
              (A None (NBlock [A None (NReassign (v "x") (A None (NBin SMul (v "y") (lit "2"))) NAssign);
                               A None (NReassign (v "x") (lit "3") NAdd)]))
              (Some (A None NPass)));
    A None (NIfElse (A None (NBin SEq (v "x") (lit "9")))
              (A None (NReassign (v "y") (lit operand) op)) None)]).

Definition final_vars {B} (e : env B) : option value * option value := (lookup_var "x" e, lookup_var "y" e).

Example sample_stmt_ok :
  simple (sample_stmt NSub "1") = true /\ plain_stmt (state0 true)
  /\ (exists e, mev 20 (sample_stmt NSub "1") env0 = MVal None e /\ final_vars e = (Some (VInt 9), Some (VInt 2)))
  /\ (exists c i e, conv (sample_stmt NSub "1") (state0 true) imports0 = Some (c, i)
                   /\ pex 40 20 c env0 = ONormal _ _ _ e /\ final_vars e = (Some (VInt 9), Some (VInt 2)))
  /\ (exists e, mev 20 (sample_stmt NBLShift "-1") env0 = MExc (rt_exc "ValueError") e
                /\ final_vars e = (Some (VInt 9), Some (VInt 3)))
  /\ (exists c i e, conv (sample_stmt NBLShift "-1") (state0 false) imports0 = Some (c, i)
                   /\ pex 40 20 c env0 = ORaise _ _ _ (rt_exc "ValueError") e
                   /\ final_vars e = (Some (VInt 9), Some (VInt 3))).
Proof.
  split; [reflexivity|]. split; [repeat split|].
  split; [eexists; split; vm_compute; reflexivity|].
  split; [do 3 eexists; split; [vm_compute; reflexivity | split; vm_compute; reflexivity]|].
  split; [eexists; split; vm_compute; reflexivity|].
  do 3 eexists; split; [vm_compute; reflexivity | split; vm_compute; reflexivity].
Qed.
