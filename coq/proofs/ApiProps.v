(** * C17 - the API of the emitted module mirrors the definitions of the Mamba file *)
From Coq Require Import List String Bool Arith Lia Ascii.
From MambaModel Require Import model.Core gen.Names model.Convert model.Api
  proofs.ConvUnfold proofs.ConvertProps proofs.ApiBase proofs.ApiClass.
Import ListNotations.
Local Open Scope string_scope.
Local Open Scope list_scope.

(** ** The renaming of function names *)

Lemma funop_name_not op : funop_name op <> "@" /\ funop_name op <> n_init.
Proof. destruct op; split; discriminate. Qed.

Lemma py_fname_not_at s : is_ident s = true -> py_fname s <> "@".
Proof.
  intros Hi. unfold py_fname. cbv zeta. destruct (ctp_value s) as [E | (H1 & H2 & H3 & _)].
  - rewrite E. destruct (funop_of s) as [op|]; [apply funop_name_not|].
    destruct (String.eqb s "size"); [discriminate|]. intros ->. discriminate Hi.
  - rewrite H1, H2. exact H3.
Qed.

Lemma py_fname_init s : py_fname s = n_init <-> s = n_init.
Proof.
  split; [|intros ->; reflexivity]. unfold py_fname. cbv zeta.
  destruct (funop_of (concrete_to_python s)) as [op|]; [intros H; exfalso; exact (proj2 (funop_name_not op) H)|].
  destruct (String.eqb (concrete_to_python s) "size"); [discriminate|]. apply ctp_init.
Qed.

Lemma is_init_py f : is_init (py_fsig f) = is_init f.
Proof.
  unfold is_init, py_fsig. cbn [fst]. destruct (String.eqb (fst f) n_init) eqn:E.
  - apply String.eqb_eq in E. rewrite E. reflexivity.
  - apply String.eqb_neq. apply String.eqb_neq in E. intros H. apply E, (proj1 (py_fname_init _)), H.
Qed.

(** operators: the identifier the parser produced is the name that is printed *)
Lemma py_fname_operator s op : funop_of (concrete_to_python s) = Some op -> py_fname s = concrete_to_python s.
Proof. intros H. unfold py_fname. cbv zeta. rewrite H. apply funop_of_name, H. Qed.

(** every other name but [size] goes through the name table only *)
Lemma py_fname_plain s :
  funop_of (concrete_to_python s) = None -> concrete_to_python s <> "size" -> py_fname s = concrete_to_python s.
Proof. intros H1 H2. unfold py_fname. cbv zeta. rewrite H1. apply String.eqb_neq in H2. rewrite H2. reflexivity. Qed.

Lemma first_is_self_py ps : first_is_self (map py_param ps) = first_is_self ps.
Proof.
  destruct ps as [|[[n v] d] r]; [reflexivity|]. cbn [map py_param first_is_self].
  destruct (String.eqb n n_self_) eqn:E.
  - apply String.eqb_eq in E. subst n. reflexivity.
  - apply String.eqb_neq. apply String.eqb_neq in E. intros H. apply E, (proj1 (ctp_self _)), H.
Qed.
Lemma with_self_py ps : map py_param (with_self ps) = with_self (map py_param ps).
Proof. unfold with_self. rewrite first_is_self_py. destruct (first_is_self ps); reflexivity. Qed.

(** ** Class members *)

Lemma plain_key c : plain c = true -> skey c = Id "@" /\ isfun c = false /\ fsig_py c = None.
Proof. destruct c; try discriminate; intros _; repeat split. Qed.

Definition shape (m : ast) (c : core) : Prop :=
  isfun c = misfun m /\
  match fsig_src m with
  | Some f => misfun m = true /\ fsig_py c = Some (py_fsig f) /\ forallb funarg_id (fun_args c) = true
              /\ mname m = Some (py_fname (fst f)) /\ py_fname (fst f) <> "@"
  | None => misfun m = false /\ fsig_py c = None
  end /\
  ((misfun m = false /\ skey c = Id "@") \/ exists k, mname m = Some k /\ skey c = Id k).

Lemma member_shape m c st i j :
  wf_member m = true -> clean st -> conv m st i = Some (c, j) -> shape m c.
Proof.
  intros Hwf Hc E. unfold wf_member in Hwf. destruct (wf_fun m) eqn:Hf.
  { destruct (fun_sig_preserved m st i c j Hf Hc E) as (f & Hs & Hp & Hi & Ha).
    destruct m as [ty nd]. unfold wf_fun in Hf. cbn [ast_node] in Hf. destruct nd; try discriminate Hf.
    destruct id as [ity idn]. destruct idn; try discriminate Hf. apply andb_prop in Hf. destruct Hf as [Hid _].
    unfold fsig_src in Hs. cbn [ast_node] in Hs. injection Hs as <-.
    unfold shape, misfun, mname, fsig_src, id_name. cbn [ast_node fst].
    split; [exact Hi|]. split; [repeat split; try assumption; apply py_fname_not_at, Hid|].
    right. eexists. split; [reflexivity|]. rewrite (skey_fun _ _ Hp). reflexivity. }
  destruct (wf_field m) eqn:Hfd.
  { unfold wf_field in Hfd. apply andb_prop in Hfd. destruct Hfd as [Hv Hn].
    pose proof (conv_vardef_head m st i c j Hv Hc E) as H.
    destruct m as [ty nd]. cbn [ast_node] in *. destruct nd; try contradiction.
    destruct var as [vty0 vn]. unfold is_nid in Hn. cbn [ast_node] in Hn. destruct vn; try discriminate Hn.
    destruct H as (v & j1 & Hvv & Hhead). rewrite conv_id_eq in Hvv by (apply clean_tup, Hc). injection Hvv as <- <-.
    unfold shape, misfun, mname, fsig_src, id_name. cbn [ast_node].
    destruct Hhead as [Hp | (t & e' & ->)].
    - destruct (plain_key c Hp) as (H1 & H2 & H3). repeat split; try assumption. left. split; [reflexivity | exact H1].
    - repeat split. right. eexists. split; reflexivity. }
  cbn [orb] in Hwf. destruct m as [ty nd]. cbn [ast_node] in Hwf.
  pose proof (conv_opaque_plain ty nd st i c j Hwf Hc E) as Hp. destruct (plain_key c Hp) as (H1 & H2 & H3).
  unfold shape, misfun, fsig_src. cbn [ast_node]. destruct nd; try discriminate Hwf;
    (split; [exact H2|]; split; [split; [reflexivity | exact H3]|]; left; split; [reflexivity | exact H1]).
Qed.

Lemma members_shape ms cs st :
  forallb wf_member ms = true -> clean st ->
  Forall2 (fun x y => exists i j, conv x st i = Some (y, j)) ms cs -> Forall2 shape ms cs.
Proof.
  intros Hwf Hc HF. induction HF as [|m c ms cs (i & j & E) _ IH]; [constructor|].
  cbn [forallb] in Hwf. apply andb_prop in Hwf. destruct Hwf as [Hm Hr].
  constructor; [exact (member_shape m c st i j Hm Hc E) | exact (IH Hr)].
Qed.

Lemma Forall2_in_r {X Y} (R : X -> Y -> Prop) l l' y :
  Forall2 R l l' -> In y l' -> exists x, In x l /\ R x y.
Proof.
  induction 1 as [|a b l l' Hab _ IH]; [intros []|]. intros [<- | H].
  - exists a. split; [left; reflexivity | exact Hab].
  - destruct (IH H) as (x & Hx & Hr). exists x. split; [right; exact Hx | exact Hr].
Qed.
Lemma Forall2_in_l {X Y} (R : X -> Y -> Prop) l l' x :
  Forall2 R l l' -> In x l -> exists y, In y l' /\ R x y.
Proof.
  induction 1 as [|a b l l' Hab _ IH]; [intros []|]. intros [<- | H].
  - exists b. split; [left; reflexivity | exact Hab].
  - destruct (IH H) as (y & Hy & Hr). exists y. split; [right; exact Hy | exact Hr].
Qed.

Lemma funs_preserved ms cs : Forall2 shape ms cs -> funs_py cs = map py_fsig (funs_src ms).
Proof.
  induction 1 as [|m c ms cs (_ & Hf & _) _ IH]; [reflexivity|]. unfold funs_py, funs_src in *. cbn [flat_map].
  destruct (fsig_src m) as [f|].
  - destruct Hf as (_ & -> & _). cbn [app map]. rewrite IH. reflexivity.
  - destruct Hf as (_ & ->). cbn [app]. exact IH.
Qed.

(** distinct names in the source give distinct keys in the map *)
Lemma shape_keys m c m' c' :
  shape m c -> shape m' c' ->
  (misfun m || misfun m') && same_name (mname m) (mname m') = false ->
  isfun c || isfun c' = true -> key_eqb (skey c') (skey c) = false.
Proof.
  intros (Hi & Hf & Hk) (Hi' & Hf' & Hk') Hn Hfun. rewrite Hi, Hi' in Hfun. rewrite Hfun in Hn. cbn [andb] in Hn.
  assert (Hat : forall m0 c0, match fsig_src m0 with
                              | Some f => misfun m0 = true /\ fsig_py c0 = Some (py_fsig f)
                                          /\ forallb funarg_id (fun_args c0) = true
                                          /\ mname m0 = Some (py_fname (fst f)) /\ py_fname (fst f) <> "@"
                              | None => misfun m0 = false /\ fsig_py c0 = None
                              end -> misfun m0 = true -> forall k, mname m0 = Some k -> k <> "@").
  { intros m0 c0 H0 Hm0 k Hk0. destruct (fsig_src m0) as [f|].
    - destruct H0 as (_ & _ & _ & Hmn & Hne). rewrite Hmn in Hk0. injection Hk0 as <-. exact Hne.
    - destruct H0 as [H0 _]. congruence. }
  destruct Hk as [[Hm Hk] | (k & Hmk & Hk)], Hk' as [[Hm' Hk'] | (k' & Hmk' & Hk')]; rewrite Hk, Hk'; cbn [key_eqb].
  - rewrite Hm, Hm' in Hfun. discriminate.
  - rewrite Hm in Hfun. cbn [orb] in Hfun. apply String.eqb_neq. exact (Hat m' c' Hf' Hfun k' Hmk').
  - rewrite Hm' in Hfun. rewrite orb_false_r in Hfun. apply String.eqb_neq. intros H. symmetry in H.
    exact (Hat m c Hf Hfun k Hmk H).
  - rewrite Hmk, Hmk' in Hn. cbn [same_name] in Hn. rewrite String.eqb_sym. exact Hn.
Qed.

Lemma names_kokc ms cs : Forall2 shape ms cs -> names_ok ms = true -> kokc cs.
Proof.
  induction 1 as [|m c ms cs Hmc HF IH]; [intros _; exact I|]. cbn [names_ok kokc]. intros H.
  apply andb_prop in H. destruct H as [H1 H2]. split; [|apply IH, H2].
  intros c' Hc' Hfun. destruct (Forall2_in_r _ _ _ _ HF Hc') as (m' & Hm' & Hs').
  rewrite forallb_forall in H1. specialize (H1 m' Hm'). apply negb_true_iff in H1.
  exact (shape_keys m c m' c' Hmc Hs' H1 Hfun).
Qed.

(** ** Methods and constructor of an assembled class *)

Lemma funs_filter_meth L : filter (fun f => negb (is_init f)) (funs_py L) = funs_py (filter is_meth L).
Proof.
  induction L as [|a L IH]; [reflexivity|]. unfold funs_py, is_meth in *. cbn [flat_map filter].
  destruct (fsig_py a) as [f|] eqn:E; cbn [app filter].
  - destruct (negb (is_init f)); cbn [flat_map]; rewrite ?E; cbn [app]; rewrite IH; reflexivity.
  - exact IH.
Qed.
Lemma funs_find_init L : find is_init (funs_py L) = hd_error (funs_py (filter is_inits L)).
Proof.
  induction L as [|a L IH]; [reflexivity|]. unfold funs_py, is_inits in *. cbn [flat_map filter].
  destruct (fsig_py a) as [f|] eqn:E; cbn [app find].
  - destruct (is_init f); cbn [flat_map]; rewrite ?E; [reflexivity | exact IH].
  - exact IH.
Qed.

Lemma filter_map_py (l : list fsig) :
  filter (fun f => negb (is_init f)) (map py_fsig l) = map py_fsig (filter (fun f => negb (is_init f)) l).
Proof.
  induction l as [|f l IH]; [reflexivity|]. cbn [map filter]. rewrite is_init_py.
  destruct (negb (is_init f)); cbn [map]; rewrite IH; reflexivity.
Qed.
Lemma find_map_py (l : list fsig) : find is_init (map py_fsig l) = option_map py_fsig (find is_init l).
Proof.
  induction l as [|f l IH]; [reflexivity|]. cbn [map find]. rewrite is_init_py. destruct (is_init f); [reflexivity | exact IH].
Qed.

Lemma in_funs_src f ms : In f (funs_src ms) -> exists m, In m ms /\ fsig_src m = Some f.
Proof.
  induction ms as [|m ms IH]; [intros []|]. unfold funs_src. cbn [flat_map]. intros H. apply in_app_or in H.
  destruct H as [H | H].
  - destruct (fsig_src m) as [g|] eqn:E; [|destruct H]. destruct H as [<- | []]. exists m. split; [left; reflexivity | exact E].
  - destruct (IH H) as (m' & Hm' & E). exists m'. split; [right; exact Hm' | exact E].
Qed.
Lemma funs_src_in f m ms : In m ms -> fsig_src m = Some f -> In f (funs_src ms).
Proof.
  intros Hm E. unfold funs_src. apply in_flat_map. exists m. split; [exact Hm|]. rewrite E. left. reflexivity.
Qed.

Section ClassBody.
  Variables (ms : list ast) (cs ca ps pn body : list core) (cargs : list param).
  Hypothesis Hshape : Forall2 shape ms cs.
  Hypothesis Hnames : names_ok ms = true.
  Hypothesis Hfield : no_init_field ms = true.
  Hypothesis Hexpl : explicit_init_ok cargs (funs_src ms) = true.
  Hypothesis Hca : map param_py ca = map py_param cargs.
  Hypothesis Hfa : forallb funarg_id ca = true.
  Hypothesis Has : assemble_class cs ca ps = Some (pn, body).

  Lemma body_kok : kok cs. Proof. apply kokc_kok, (names_kokc ms cs Hshape Hnames). Qed.

  (** [methods_preserved] *)
  Lemma body_methods :
    filter (fun f => negb (is_init f)) (funs_py body)
    = map py_fsig (filter (fun f => negb (is_init f)) (funs_src ms)).
  Proof.
    rewrite funs_filter_meth, (assemble_methods cs ca ps pn body Has body_kok), <- funs_filter_meth.
    rewrite (funs_preserved ms cs Hshape). apply filter_map_py.
  Qed.

  Lemma no_explicit_old_init : find is_init (funs_src ms) = None -> old_init cs = None.
  Proof.
    intros Hnone. rewrite old_init_last. apply last_keyed_none. intros c Hc.
    destruct (Forall2_in_r _ _ _ _ Hshape Hc) as (m & Hm & (Hi & Hf & Hk)).
    destruct Hk as [[_ ->] | (k & Hmk & ->)]; [reflexivity|]. cbn [key_eqb]. apply String.eqb_neq. intros Heq.
    destruct (fsig_src m) as [f|] eqn:Ef.
    - destruct Hf as (_ & _ & _ & Hmn & _). rewrite Hmn in Hmk. injection Hmk as Hmk. rewrite <- Heq in Hmk.
      apply (proj1 (py_fname_init _)) in Hmk.
      pose proof (find_none _ _ Hnone f (funs_src_in f m ms Hm Ef)) as H. unfold is_init in H.
      rewrite Hmk, String.eqb_refl in H. discriminate.
    - destruct Hf as [Hmf _]. unfold no_init_field in Hfield. rewrite forallb_forall in Hfield.
      specialize (Hfield m Hm). rewrite Hmf, Hmk, <- Heq in Hfield. cbn [orb same_name negb] in Hfield.
      rewrite String.eqb_refl in Hfield. discriminate.
  Qed.

  Lemma explicit_old_init f :
    find is_init (funs_src ms) = Some f ->
    exists d arg t b, old_init cs = Some (FunDef d n_init arg t b) /\
                      map param_py arg = map py_param (snd f) /\ forallb funarg_id arg = true.
  Proof.
    intros Hfind. apply find_some in Hfind. destruct Hfind as [Hin Hinit].
    destruct (in_funs_src f ms Hin) as (m & Hm & Ef).
    destruct (Forall2_in_l _ _ _ _ Hshape Hm) as (c & Hc & (Hi & Hf & _)). rewrite Ef in Hf.
    destruct Hf as (Hmf & Hp & Hargs & _ & _).
    assert (Hname : py_fname (fst f) = n_init).
    { apply (proj2 (py_fname_init _)). unfold is_init in Hinit. apply String.eqb_eq, Hinit. }
    assert (Hkey : skey c = Id n_init) by (rewrite (skey_fun _ _ Hp); cbn [py_fsig fst]; rewrite Hname; reflexivity).
    rewrite Hmf in Hi. rewrite old_init_last, (last_keyed_fun n_init cs c (names_kokc ms cs Hshape Hnames) Hc Hi Hkey).
    destruct c; try discriminate Hi.
    - cbn [fsig_py] in Hp. injection Hp as Hop _. exfalso. rewrite Hname in Hop. exact (proj2 (funop_name_not op) Hop).
    - cbn [fsig_py py_fsig fun_args] in *. injection Hp as Hid Hps. rewrite Hname in Hid. subst id.
      eexists. eexists. eexists. eexists. split; [reflexivity|]. split; assumption.
  Qed.

  (** [init_signature], at the level of the source *)
  Lemma body_ctor :
    find is_init (funs_py body) = option_map py_fsig (ctor_src cargs (List.length ps) (funs_src ms)).
  Proof.
    rewrite funs_find_init, (assemble_ctor cs ca ps pn body Has body_kok).
    unfold explicit_init_ok, ctor_src in *.
    destruct (find is_init (funs_src ms)) as [f|] eqn:Hfind.
    - (* an explicit constructor *)
      destruct cargs as [|p0 cargs']; [|discriminate Hexpl].
      assert (ca = []) as -> by (destruct ca; [reflexivity | discriminate Hca]).
      destruct (explicit_old_init f Hfind) as (d & arg & t & b & Hold & Hps & Hargs). rewrite Hold.
      unfold with_self. rewrite Hexpl. cbn [option_map].
      destruct (class_init (Some (FunDef d n_init arg t b)) [] ps) as [ni|] eqn:Eci.
      + pose proof (class_init_sig _ _ _ _ Eci) as Hsig. cbv zeta in Hsig. cbn [init_args] in Hsig.
        rewrite (init_params arg Hargs), Hps in Hsig. unfold funs_py. cbn [flat_map]. rewrite Hsig. cbn [app hd_error].
        unfold with_self. rewrite first_is_self_py, Hexpl. reflexivity.
      + rewrite <- funs_find_init, (funs_preserved ms cs Hshape), find_map_py, Hfind. cbn [option_map].
        apply find_some in Hfind. destruct Hfind as [_ Hinit]. unfold is_init in Hinit. apply String.eqb_eq in Hinit.
        unfold py_fsig. rewrite Hinit. reflexivity.
    - (* no explicit constructor *)
      rewrite (no_explicit_old_init Hfind).
      destruct (class_init None ca ps) as [ni|] eqn:Eci.
      + pose proof (class_init_sig _ _ _ _ Eci) as Hsig. cbv zeta in Hsig. cbn [init_args] in Hsig.
        rewrite (init_params ca Hfa), Hca in Hsig. unfold funs_py. cbn [flat_map]. rewrite Hsig. cbn [app hd_error].
        destruct cargs as [|p0 cargs'].
        * destruct ps as [|p ps'].
          -- assert (ca = []) as Hca0 by (destruct ca; [reflexivity | discriminate Hca]). subst ca.
             rewrite (proj2 (class_init_none_iff [] [] eq_refl) (conj eq_refl eq_refl)) in Eci. discriminate Eci.
          -- reflexivity.
        * cbn [option_map]. unfold py_fsig. cbn [fst snd]. rewrite with_self_py. reflexivity.
      + apply (class_init_none_iff ca ps Hfa) in Eci. destruct Eci as [-> ->].
        destruct cargs; [|discriminate Hca]. cbn [List.length option_map].
        rewrite <- funs_find_init, (funs_preserved ms cs Hshape), find_map_py, Hfind. reflexivity.
  Qed.
End ClassBody.

Lemma F2_length {X Y} (R : X -> Y -> Prop) l l' : Forall2 R l l' -> List.length l = List.length l'.
Proof. induction 1; [reflexivity|]. cbn [List.length]. congruence. Qed.

(** ** Parents *)

Lemma lift_inv {X} (f : imports -> X * imports) i x j : lift f i = Some (x, j) -> f i = (x, j).
Proof. unfold lift. intros H. injection H as H. exact H. Qed.

Lemma parent_preserved a st i p j :
  is_parent a = true -> clean st -> conv a st i = Some (p, j) ->
  exists x, parent_name p = Some x /\ core_name x = concrete_to_python (parent_src a).
Proof.
  destruct a as [ty nd]. unfold is_parent, parent_src. cbn [ast_node]. destruct nd; try discriminate.
  intros _ Hc E. rewrite conv_parent_eq in E by exact Hc.
  apply bind_inv in E. destruct E as (t & i1 & Ht & E). apply lift_inv in Ht.
  destruct (tn_head name generics i) as (gs' & Hh). rewrite Ht in Hh. cbn [fst] in Hh. subst t.
  destruct args as [|x r].
  - apply ret_inv in E. destruct E as [<- _]. eexists. split; reflexivity.
  - apply bind_inv in E. destruct E as (cs & i2 & _ & E). apply ret_inv in E. destruct E as [<- _].
    eexists. split; reflexivity.
Qed.

(** [class_parents_preserved]: the parents keep their names and their order *)
Lemma parents_preserved parents st ps : forall pn,
  forallb is_parent parents = true -> clean st ->
  Forall2 (fun x y => exists i j, conv x st i = Some (y, j)) parents ps ->
  map parent_name ps = map Some pn ->
  map core_name pn = map concrete_to_python (map parent_src parents).
Proof.
  intros pn Hwf Hc HF. revert pn. induction HF as [|a p parents ps (i & j & E) _ IH]; intros pn Hpn.
  - destruct pn; [reflexivity | discriminate Hpn].
  - cbn [forallb] in Hwf. apply andb_prop in Hwf. destruct Hwf as [Ha Hr].
    destruct (parent_preserved a st i p j Ha Hc E) as (x & Hx & Hn).
    destruct pn as [|y pn]; [discriminate Hpn|]. cbn [map] in Hpn. injection Hpn as Hy Hpn.
    rewrite Hx in Hy. injection Hy as <-. cbn [map]. rewrite Hn, (IH Hr pn Hpn). reflexivity.
Qed.

(** ** Class bodies *)

Lemma member_noblock m c st i j :
  wf_member m = true -> clean st -> conv m st i = Some (c, j) -> block_stmts c = [c].
Proof.
  intros Hwf Hc E. unfold wf_member in Hwf. destruct (wf_fun m) eqn:Hf.
  { destruct (fun_sig_preserved m st i c j Hf Hc E) as (f & _ & _ & Hi & _). destruct c; try discriminate Hi; reflexivity. }
  destruct (wf_field m) eqn:Hfd.
  { unfold wf_field in Hfd. apply andb_prop in Hfd. destruct Hfd as [Hv _].
    pose proof (conv_vardef_head m st i c j Hv Hc E) as H. destruct (ast_node m); try contradiction.
    destruct H as (v & j1 & _ & [Hp | (t & e' & ->)]); [destruct c; try discriminate Hp; reflexivity | reflexivity]. }
  cbn [orb] in Hwf. destruct m as [ty nd]. cbn [ast_node] in Hwf.
  pose proof (conv_opaque_plain ty nd st i c j Hwf Hc E) as Hp. destruct c; try discriminate Hp; reflexivity.
Qed.

Lemma body_members st body b i0 j0 :
  clean st -> forallb wf_member (members_of body) = true ->
  mopt (fun x => conv x st) body i0 = Some (b, j0) ->
  Forall2 (fun x y => exists i j, conv x st i = Some (y, j)) (members_of body)
          (match b with Some x => block_stmts x | None => [] end).
Proof.
  intros Hc Hwf E. apply mopt_inv in E. destruct E as [Hs E].
  destruct body as [bd|], b as [x|]; try discriminate Hs; [|constructor].
  assert (Hsingle : members_of (Some bd) = [bd] ->
            Forall2 (fun x y => exists i j, conv x st i = Some (y, j)) [bd] (block_stmts x)).
  { intros Hm. rewrite Hm in Hwf. cbn [forallb] in Hwf. apply andb_prop in Hwf. destruct Hwf as [Hwf _].
    rewrite (member_noblock bd x st i0 j0 Hwf Hc E). constructor; [exists i0, j0; exact E | constructor]. }
  destruct bd as [ty nd]. destruct nd; try (cbn [members_of]; apply Hsingle; reflexivity).
  cbn [members_of]. rewrite conv_block_eq in E by exact Hc.
  apply bind_inv in E. destruct E as (cs & i1 & Hcs & E). apply ret_inv in E. destruct E as [<- _].
  cbn [block_stmts]. exact (mmap_inv _ _ _ _ _ Hcs).
Qed.

Lemma body_api st body b i0 j0 cargs ca ps pn bs :
  clean st -> wf_body cargs body = true ->
  mopt (fun x => conv x st) body i0 = Some (b, j0) ->
  map param_py ca = map py_param cargs -> forallb funarg_id ca = true ->
  assemble_class (match b with Some x => block_stmts x | None => [] end) ca ps = Some (pn, bs) ->
  find is_init (funs_py bs) = option_map py_fsig (ctor_src cargs (List.length ps) (funs_src (members_of body))) /\
  filter (fun f => negb (is_init f)) (funs_py bs)
  = map py_fsig (filter (fun f => negb (is_init f)) (funs_src (members_of body))).
Proof.
  intros Hc Hwf E Hca Hfa Has. unfold wf_body in Hwf. cbv zeta in Hwf.
  apply andb_prop in Hwf. destruct Hwf as [Hwf Hex]. apply andb_prop in Hwf. destruct Hwf as [Hwf Hfld].
  apply andb_prop in Hwf. destruct Hwf as [Hmem Hnames].
  pose proof (members_shape _ _ st Hmem Hc (body_members st body b i0 j0 Hc Hmem E)) as Hshape.
  split.
  - exact (body_ctor _ _ _ _ _ _ _ Hshape Hnames Hfld Hex Hca Hfa Has).
  - exact (body_methods _ _ _ _ _ _ Hshape Hnames Has).
Qed.

(** ** Statements of the module *)

Lemma plain_api c : plain c = true -> stmt_api_py c = [] /\ block_stmts c = [c].
Proof. destruct c; try discriminate; intros _; split; reflexivity. Qed.

Lemma class_preserved ty name generics args parents body st i c j :
  wf_stmt (A ty (NClass name generics args parents body)) = true -> clean st ->
  conv (A ty (NClass name generics args parents body)) st i = Some (c, j) ->
  stmt_api_py c = map py_sig (stmt_api_src (A ty (NClass name generics args parents body))) /\ block_stmts c = [c].
Proof.
  unfold wf_stmt. cbn [ast_node]. intros Hwf Hc E.
  apply andb_prop in Hwf. destruct Hwf as [Hwf Hbody]. apply andb_prop in Hwf. destruct Hwf as [Hargs Hpar].
  rewrite conv_class_eq in E by exact Hc. cbv zeta in E.
  apply bind_inv in E. destruct E as (ps & i1 & Hps & E). apply mmap_inv in Hps.
  apply bind_inv in E. destruct E as (b & i2 & Hb & E).
  apply bind_inv in E. destruct E as (ca & i3 & Hca & E). apply mmap_inv in Hca.
  destruct (assemble_class _ ca ps) as [[pn bs]|] eqn:Has; [|discriminate E].
  apply bind_inv in E. destruct E as (t & i4 & Ht & E). apply lift_inv in Ht.
  destruct (tn_head name generics i3) as (gs' & Hh). rewrite Ht in Hh. cbn [fst] in Hh. subst t.
  apply ret_inv in E. destruct E as [<- _].
  set (cst := with_interface st false) in *.
  assert (Hcst : clean cst) by (apply clean_interface, Hc).
  destruct (params_preserved wf_carg (with_def_as_fun_arg cst true) args ca
              (fun a i c j Ha Ea => class_arg_preserved a _ i c j Ha (clean_dafa _ _ Hcst) eq_refl Ea) Hargs Hca)
    as [Hcap Hcaf].
  destruct (body_api cst body b i1 i2 (map param_src args) ca ps pn bs Hcst Hbody Hb Hcap Hcaf Has) as [Hctor Hmeth].
  split; [|reflexivity].
  cbn [stmt_api_py stmt_api_src ast_node block_stmts map py_sig class_src core_name].
  rewrite Hctor, Hmeth.
  rewrite (parents_preserved parents st ps pn Hpar Hc Hps (assemble_parents _ _ _ _ _ Has)).
  rewrite map_length, (F2_length _ _ _ Hps). reflexivity.
Qed.

Lemma typedef_preserved ty name generics isa body abstract_parent st i c j :
  wf_stmt (A ty (NTypeDef name generics isa body abstract_parent)) = true -> clean st ->
  conv (A ty (NTypeDef name generics isa body abstract_parent)) st i = Some (c, j) ->
  stmt_api_py c = map py_sig (stmt_api_src (A ty (NTypeDef name generics isa body abstract_parent)))
  /\ block_stmts c = [c].
Proof.
  unfold wf_stmt. cbn [ast_node]. intros Hwf Hc E. apply andb_prop in Hwf. destruct Hwf as [Hisa Hbody].
  rewrite conv_typedef_eq in E by exact Hc. cbv zeta in E.
  apply bind_inv in E. destruct E as (ps & i1 & Hps & E).
  apply bind_inv in E. destruct E as (b & i2 & Hb & E).
  destruct (assemble_class _ [] ps) as [[pn bs]|] eqn:Has; [|discriminate E].
  apply bind_inv in E. destruct E as (pn' & i3 & Hpn' & E).
  apply bind_inv in E. destruct E as (t & i4 & Ht & E). apply lift_inv in Ht.
  destruct (tn_head name generics i3) as (gs' & Hh). rewrite Ht in Hh. cbn [fst] in Hh. subst t.
  apply ret_inv in E. destruct E as [<- _].
  set (cst := with_interface st true) in *.
  assert (Hcst : clean cst) by (apply clean_interface, Hc).
  destruct (body_api cst body b i1 i2 [] [] ps pn bs Hcst Hbody Hb eq_refl eq_refl Has) as [Hctor Hmeth].
  (* the parents *)
  assert (Hpar : map core_name pn = map concrete_to_python (match isa with Some n => [nm_parent n] | None => [] end)
                 /\ List.length ps = List.length (match isa with Some n => [nm_parent n] | None => [] end)).
  { pose proof (assemble_parents _ _ _ _ _ Has) as Hp.
    destruct isa as [n|].
    - destruct n as [ms]. destruct ms as [|[nl nn ng] rest]; [discriminate Hisa|].
      destruct nl; [destruct rest; discriminate Hisa|]. destruct rest as [|t2 r]; [|discriminate Hisa].
      apply bind_inv in Hps. destruct Hps as (t & i5 & Ht2 & Hps). apply ret_inv in Hps. destruct Hps as [<- _].
      apply lift_inv in Ht2. rewrite nm_to_py_unfold in Ht2.
      destruct (tn_head nn ng i) as (gs2 & Hh2). rewrite Ht2 in Hh2. cbn [fst] in Hh2. subst t.
      cbn [map parent_name] in Hp. destruct pn as [|y [|z pn]]; try discriminate Hp. injection Hp as <-.
      split; reflexivity.
    - apply ret_inv in Hps. destruct Hps as [<- _]. destruct pn; [split; reflexivity | discriminate Hp]. }
  destruct Hpar as [Hpar Hlen].
  split; [|reflexivity].
  cbn [stmt_api_py stmt_api_src ast_node block_stmts map py_sig core_name]. cbv zeta.
  rewrite Hctor, Hmeth, Hlen. destruct abstract_parent.
  - apply ret_inv in Hpn'. destruct Hpn' as [<- _]. rewrite Hpar. reflexivity.
  - apply bind_inv in Hpn'. destruct Hpn' as (u & i6 & _ & Hpn'). apply ret_inv in Hpn'. destruct Hpn' as [<- _].
    rewrite !map_app, Hpar. reflexivity.
Qed.

Lemma stmt_preserved a st i c j :
  wf_stmt a = true -> clean st -> conv a st i = Some (c, j) ->
  stmt_api_py c = map py_sig (stmt_api_src a) /\ block_stmts c = [c].
Proof.
  intros Hwf Hc E. destruct a as [ty nd].
  assert (Hplain : opaque nd = true -> stmt_api_src (A ty nd) = [] ->
            stmt_api_py c = map py_sig (stmt_api_src (A ty nd)) /\ block_stmts c = [c]).
  { intros Ho Hs. rewrite Hs. apply plain_api. exact (conv_opaque_plain ty nd st i c j Ho Hc E). }
  destruct nd; try (apply Hplain; [exact Hwf | reflexivity]); try discriminate Hwf.
  - (* NVarDef *)
    unfold wf_stmt in Hwf. cbn [ast_node opaque] in Hwf. rewrite orb_false_r in Hwf.
    pose proof (conv_vardef_head _ st i c j Hwf Hc E) as H. cbn [ast_node] in H.
    destruct H as (v & j1 & _ & [Hp | (t & e' & ->)]); [apply plain_api, Hp | split; reflexivity].
  - (* NFunDef *)
    unfold wf_stmt in Hwf. cbn [ast_node] in Hwf.
    destruct (fun_sig_preserved _ st i c j Hwf Hc E) as (f & Hs & Hp & Hi & _).
    unfold stmt_api_src. cbn [ast_node]. rewrite Hs. cbn [map py_sig].
    destruct c; try discriminate Hi; cbn [stmt_api_py]; rewrite Hp; split; reflexivity.
  - exact (class_preserved _ _ _ _ _ _ st i c j Hwf Hc E).
  - exact (typedef_preserved _ _ _ _ _ _ st i c j Hwf Hc E).
Qed.

(** ** The module *)

Lemma stmts_preserved st stmts cs :
  forallb wf_stmt stmts = true -> clean st ->
  Forall2 (fun x y => exists i j, conv x st i = Some (y, j)) stmts cs ->
  flat_map stmt_api_py cs = map py_sig (flat_map stmt_api_src stmts).
Proof.
  intros Hwf Hc HF. induction HF as [|a c stmts cs (i & j & E) _ IH]; [reflexivity|].
  cbn [forallb] in Hwf. apply andb_prop in Hwf. destruct Hwf as [Ha Hr].
  cbn [flat_map]. rewrite map_app, (IH Hr). destruct (stmt_preserved a st i c j Ha Hc E) as [-> _]. reflexivity.
Qed.

Theorem api_preserved ann a c j :
  conv a (state0 ann) imports0 = Some (c, j) -> wf_api a = true -> api_py c = map py_sig (api_src a).
Proof.
  intros E Hwf. pose proof (clean_state0 ann) as Hc. destruct a as [ty nd].
  assert (Hone : wf_stmt (A ty nd) = true -> api_py c = map py_sig (stmt_api_src (A ty nd))).
  { intros H. destruct (stmt_preserved _ _ _ _ _ H Hc E) as [H1 H2]. unfold api_py. rewrite H2. cbn [flat_map].
    rewrite app_nil_r. exact H1. }
  destruct nd; try (exact (Hone Hwf)).
  (* NBlock *)
  cbn [wf_api api_src] in *. rewrite conv_block_eq in E by exact Hc.
  apply bind_inv in E. destruct E as (cs & i1 & Hcs & E). apply ret_inv in E. destruct E as [<- _].
  unfold api_py. cbn [block_stmts]. exact (stmts_preserved _ _ _ Hwf Hc (mmap_inv _ _ _ _ _ Hcs)).
Qed.

(** ** Names that the generator leaves alone *)

Definition same_ctp (s : string) : bool := String.eqb (concrete_to_python s) s.
Definition plain_name (s : string) : bool := same_ctp s && negb (String.eqb s "size").
Definition plain_param (p : param) : bool := let '(n, _, _) := p in same_ctp n.
Definition plain_fsig (f : fsig) : bool := plain_name (fst f) && forallb plain_param (snd f).
Definition plain_sig (s : sig) : bool :=
  match s with
  | SFun f => plain_fsig f
  | SClass n ps ctor ms =>
      same_ctp n && forallb same_ctp ps && match ctor with Some f => plain_fsig f | None => true end
      && forallb plain_fsig ms
  end.

Lemma map_same {X} (f : X -> X) (p : X -> bool) l :
  (forall x, p x = true -> f x = x) -> forallb p l = true -> map f l = l.
Proof.
  intros H. induction l as [|x l IH]; [reflexivity|]. cbn [forallb map]. intros Hl.
  apply andb_prop in Hl. destruct Hl as [Hx Hl]. rewrite (H x Hx), (IH Hl). reflexivity.
Qed.

Lemma py_fname_same s : plain_name s = true -> py_fname s = s.
Proof.
  unfold plain_name, same_ctp. intros H. apply andb_prop in H. destruct H as [H1 H2].
  apply String.eqb_eq in H1. apply negb_true_iff in H2. unfold py_fname. cbv zeta. rewrite H1.
  destruct (funop_of s) as [op|] eqn:E; [apply funop_of_name, E | rewrite H2; reflexivity].
Qed.
Lemma py_param_same p : plain_param p = true -> py_param p = p.
Proof. destruct p as [[n v] d]. unfold plain_param, same_ctp, py_param. intros H. apply String.eqb_eq in H. rewrite H. reflexivity. Qed.
Lemma py_fsig_same f : plain_fsig f = true -> py_fsig f = f.
Proof.
  destruct f as [n ps]. unfold plain_fsig, py_fsig. cbn [fst snd]. intros H. apply andb_prop in H. destruct H as [H1 H2].
  rewrite (py_fname_same n H1), (map_same py_param plain_param ps py_param_same H2). reflexivity.
Qed.
Lemma py_sig_same s : plain_sig s = true -> py_sig s = s.
Proof.
  destruct s as [f | n ps ctor ms]; cbn [plain_sig py_sig]; intros H.
  - rewrite (py_fsig_same f H). reflexivity.
  - apply andb_prop in H. destruct H as [H H4]. apply andb_prop in H. destruct H as [H H3].
    apply andb_prop in H. destruct H as [H1 H2]. unfold same_ctp in H1. apply String.eqb_eq in H1.
    rewrite H1, (map_same py_fsig plain_fsig ms py_fsig_same H4).
    rewrite (map_same concrete_to_python same_ctp ps (fun x Hx => proj1 (String.eqb_eq _ _) Hx) H2).
    destruct ctor as [f|]; [cbn [option_map]; rewrite (py_fsig_same f H3)|]; reflexivity.
Qed.

(** outside the renamed names the API is the one the Mamba text states, verbatim *)
Theorem api_same ann a c j :
  conv a (state0 ann) imports0 = Some (c, j) -> wf_api a = true ->
  forallb plain_sig (api_src a) = true -> api_py c = api_src a.
Proof.
  intros E Hwf Hp. rewrite (api_preserved ann a c j E Hwf). exact (map_same py_sig plain_sig _ py_sig_same Hp).
Qed.
