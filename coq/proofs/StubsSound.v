(** * StubsSound: the regenerated signature table against the model of Python's operators (C04, first stage) *)
From Coq Require Import List String Bool.
From MambaModel Require Import model.Types model.TypingSig gen.StubSigs model.PyOps.
Import ListNotations.
Local Open Scope string_scope.

(** every covered row of a core class outside the five known ones is sound: whatever tags the declared parameter
    types admit, Python accepts them and returns a tag the declared return type admits *)
Theorem sound_outside_known : stubs_sound (filter (fun r => negb (known_row r)) stub_sigs) = true.
Proof. vm_compute. reflexivity. Qed.

Lemma unsound_row_refutes tbl r :
  In r tbl -> core_row r = true -> row_sound r = false -> stubs_sound tbl = false.
Proof.
  intros HI HC HR. unfold stubs_sound. apply not_true_is_false. intros H.
  rewrite forallb_forall in H. specialize (H r). rewrite HR in H.
  assert (In r (filter core_row tbl)) by (apply filter_In; split; assumption). specialize (H H0). discriminate.
Qed.

(** is one of the known unsound rows (still) in the table? *)
Definition known_unsound_present (tbl : list msig) : bool :=
  existsb (fun r => core_row r && known_row r && negb (row_sound r)) tbl.

Theorem refuted_when_present tbl : known_unsound_present tbl = true -> stubs_sound tbl = false.
Proof.
  unfold known_unsound_present. intros H. apply existsb_exists in H as [r [HI H]].
  apply andb_prop in H as [H HR]. apply andb_prop in H as [HC _]. apply negb_true_iff in HR.
  exact (unsound_row_refutes tbl r HI HC HR).
Qed.

(** the tag-level witnesses, independent of the table *)
Lemma str_plus_int_is_a_type_error : py_call "Str" "__add__" GStr [GInt] = None.
Proof. reflexivity. Qed.
Lemma int_pow_int_may_be_float : py_call "Int" "__pow__" GInt [GInt] = Some [GInt; GFloat].
Proof. reflexivity. Qed.
Lemma float_pow_float_may_be_complex : py_call "Float" "__pow__" GFloat [GFloat] = Some [GFloat; GComplex].
Proof. reflexivity. Qed.
Lemma neg_complex_is_complex : py_call "Complex" "__neg__" GComplex [] = Some [GComplex].
Proof. reflexivity. Qed.
Lemma str_has_no_is_digit : py_call "Str" "is_digit" GStr [] = None.
Proof. reflexivity. Qed.

(** rows of core classes the model of Python does not cover (reported in the evidence) *)
Definition uncovered (tbl : list msig) : list (string * string) :=
  map (fun r => (sg_class r, sg_name r)) (filter (fun r => core_class (sg_class r) && negb (covered (sg_name r))) tbl).
