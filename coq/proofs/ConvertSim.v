(** * The annotate flag is inert (C11): simulation between the two runs of [conv] *)
From Coq Require Import List String Bool Arith Lia.
From MambaModel Require Import model.Core gen.Names model.Convert proofs.ConvUnfold proofs.ConvertProps.
Import ListNotations.
Local Open Scope string_scope.

Definition Psim (a : ast) : Prop :=
  forall st1 st0, srel st1 st0 -> mrel crel (conv a st1) (conv a st0).

Ltac sr :=
  first [ assumption
        | simple apply srel_interface; sr | simple apply srel_def_as_fun_arg; sr
        | simple apply srel_clear; sr | simple apply srel_expand; sr | simple apply srel_tup_lit; sr
        | simple apply srel_last_ret; sr | simple apply srel_remove_ret; sr | simple apply srel_assign_none; sr ].

Ltac crel_solve ::=
  repeat match goal with H : Forall2 crel _ _ |- _ => apply map_erase_F2 in H end;
  unfold crel, orel, erase_opt in *; cbn [bin_core un_core erase map];
  congruence.

Lemma branching_erase c :
  match erase c with IfElse _ _ _ | Match _ _ => true | _ => false end
  = match c with IfElse _ _ _ | Match _ _ => true | _ => false end.
Proof. destruct c; reflexivity. Qed.

Definition is_branching (c : core) : bool := match c with IfElse _ _ _ | Match _ _ => true | _ => false end.
Lemma is_branching_crel c1 c0 : crel c1 c0 -> is_branching c1 = is_branching c0.
Proof.
  intros H. unfold is_branching. rewrite <- (branching_erase c1), <- (branching_erase c0), H. reflexivity.
Qed.

Lemma is_tuple_literal_crel c1 c0 : crel c1 c0 -> is_tuple_literal c1 = is_tuple_literal c0.
Proof.
  intros H. assert (E : forall c, is_tuple_literal (erase c) = is_tuple_literal c) by (destruct c; reflexivity).
  rewrite <- (E c1), <- (E c0), H. reflexivity.
Qed.
Lemma is_self_crel c1 c0 : crel c1 c0 -> is_self c1 = is_self c0.
Proof.
  intros H. assert (E : forall c, is_self (erase c) = is_self c) by (destruct c; reflexivity).
  rewrite <- (E c1), <- (E c0), H. reflexivity.
Qed.

Lemma branch_match {X} c (A B : X) :
  match c with IfElse _ _ _ | Match _ _ => A | _ => B end = if is_branching c then A else B.
Proof. destruct c; reflexivity. Qed.

Definition tl_default (v : core) : option core :=
  match v with TupleLiteral els => Some (Tuple (map (fun _ : core => None_) els)) | _ => None end.
Lemma tl_match v ty :
  match v with
  | TupleLiteral els => ret (VarDef v ty (Some (Tuple (map (fun _ : core => None_) els))))
  | _ => ret (VarDef v ty None)
  end = ret (VarDef v ty (tl_default v)).
Proof. destruct v; reflexivity. Qed.
Lemma tl_default_crel v1 v0 : crel v1 v0 -> tl_default v1 = tl_default v0.
Proof.
  intros H. assert (E : forall c, tl_default (erase c) = tl_default c).
  { destruct c; try reflexivity. cbn [erase tl_default]. rewrite map_map. reflexivity. }
  rewrite <- (E v1), <- (E v0), H. reflexivity.
Qed.

Definition id_lit (c : core) : option string := match c with Id s => Some s | _ => None end.
Lemma id_match {X} c (A : string -> X) (B : X) :
  match c with Id lit => A lit | _ => B end = match id_lit c with Some lit => A lit | None => B end.
Proof. destruct c; reflexivity. Qed.
Lemma id_lit_crel c1 c0 : crel c1 c0 -> id_lit c1 = id_lit c0.
Proof.
  intros H. assert (E : forall c, id_lit (erase c) = id_lit c) by (destruct c; reflexivity).
  rewrite <- (E c1), <- (E c0), H. reflexivity.
Qed.

Definition is_underscore (c : core) : bool := match c with UnderScore => true | _ => false end.
Lemma underscore_match {X} c (A B : X) :
  match c with UnderScore => A | _ => B end = if is_underscore c then A else B.
Proof. destruct c; reflexivity. Qed.
Lemma is_underscore_crel c1 c0 : crel c1 c0 -> is_underscore c1 = is_underscore c0.
Proof.
  intros H. assert (E : forall c, is_underscore (erase c) = is_underscore c) by (destruct c; reflexivity).
  rewrite <- (E c1), <- (E c0), H. reflexivity.
Qed.

(** the pure tail of the class case *)
Lemma class_tail name generics stmts1 stmts0 ca1 ca0 ps1 ps0 :
  Forall2 crel ps1 ps0 -> Forall2 crel ca1 ca0 -> map erase stmts1 = map erase stmts0 ->
  mrel crel
    (match assemble_class stmts1 ca1 ps1 with
     | Some (parent_names, body_stmts) =>
         t <- lift (tn_to_py (TN false name generics)) ;;
         match t with
         | Type_ lit _ => ret (ClassDef (Id lit) parent_names (Block body_stmts))
         | _ => fail
         end
     | None => fail
     end)
    (match assemble_class stmts0 ca0 ps0 with
     | Some (parent_names, body_stmts) =>
         t <- lift (tn_to_py (TN false name generics)) ;;
         match t with
         | Type_ lit _ => ret (ClassDef (Id lit) parent_names (Block body_stmts))
         | _ => fail
         end
     | None => fail
     end).
Proof.
  intros Hps Hca Hst.
  pose proof (assemble_class_erase stmts1 ca1 ps1) as E1.
  pose proof (assemble_class_erase stmts0 ca0 ps0) as E0.
  rewrite Hst, (map_erase_F2 _ _ Hps), (map_erase_F2 _ _ Hca) in E1. rewrite E0 in E1.
  destruct (assemble_class stmts1 ca1 ps1) as [[pn1 bs1]|], (assemble_class stmts0 ca0 ps0) as [[pn0 bs0]|];
    cbn [option_map] in E1; try discriminate E1; [|apply mrel_fail].
  inversion E1 as [[Hpn Hbs]]. cbn [fst snd] in Hpn, Hbs.
  eapply mrel_bind; [apply mrel_tn|]. intros t1 t0 ->.
  destruct t0; try apply mrel_fail. apply mrel_ret. unfold crel. cbn [erase]. congruence.
Qed.

Lemma sim_n : forall n a, size a <= n -> Psim a.
Proof.
  induction n as [|n IH]; intros a Hn; [destruct a; rewrite size_unfold in Hn; lia|].
  intros st1 st0 Hs. rewrite !conv_eq. destruct a as [aty nd]. rewrite size_unfold in Hn.
  assert (Hone : forall x s1 s0, size x <= n -> srel s1 s0 -> mrel crel (conv x s1) (conv x s0))
    by (intros x s1 s0 Hx Hr; apply (IH x Hx s1 s0 Hr)).
  assert (Hlist : forall l s1 s0, sizes l <= n -> srel s1 s0 ->
             mrel (Forall2 crel) (mmap (fun x => conv x s1) l) (mmap (fun x => conv x s0) l)).
  { intros l s1 s0 Hl Hr. apply mrel_mmap. intros x Hx. apply Hone; [|exact Hr].
    pose proof (sizes_in x l Hx). lia. }
  assert (Hopt : forall o s1 s0, sizeo o <= n -> srel s1 s0 ->
             mrel orel (mopt (fun x => conv x s1) o) (mopt (fun x => conv x s0) o)).
  { intros o s1 s0 Ho Hr. apply mrel_mopt. intros x ->. apply Hone; [exact Ho | exact Hr]. }
  destruct nd; cbv zeta; apply post_rel; try exact Hs.
  - apply mrel_ret; reflexivity.
  - apply mrel_ret; reflexivity.
  - apply mrel_ret; reflexivity.
  - destruct interpolated; apply mrel_ret; reflexivity.
  - apply mrel_ret; reflexivity.
  - apply mrel_ret; reflexivity.
  - apply mrel_ret; reflexivity.
  - apply mrel_ret; reflexivity.
  - apply mrel_ret; reflexivity.
  - apply mrel_ret; reflexivity.
  - apply mrel_ret; reflexivity.
  - apply mrel_ret; reflexivity.
  - apply mrel_ret; reflexivity.
  - (* NBin *)
    eapply mrel_bind; [apply Hone; [lia | sr]|]. intros l1 l0 Hl.
    eapply mrel_bind; [apply Hone; [lia | sr]|]. intros r1 r0 Hr.
    apply mrel_ret. destruct o; crel_solve.
  - (* NUn *)
    destruct o.
    1-4: (eapply mrel_bind; [apply Hone; [lia | sr]|]; intros c1 c0 Hc; apply mrel_ret; crel_solve).
    eapply mrel_bind; [apply mrel_touch; intros; apply add_import_irel; assumption|]. intros _ _ _.
    eapply mrel_bind; [apply Hone; [lia | sr]|]. intros c1 c0 Hc. apply mrel_ret. crel_solve.
  - (* NTuple *)
    eapply mrel_bind; [apply Hlist; [lia | sr]|]. intros cs1 cs0 Hcs. apply mrel_ret.
    destruct Hs as (_ & _ & _ & _ & Ht & _). cbn [tup_lit with_last_ret with_assign]. rewrite Ht.
    destruct (tup_lit st0); crel_solve.
  - eapply mrel_bind; [apply Hlist; [lia | sr]|]. intros cs1 cs0 Hcs. apply mrel_ret. crel_solve.
  - eapply mrel_bind; [apply Hlist; [lia | sr]|]. intros cs1 cs0 Hcs. apply mrel_ret. crel_solve.
  - (* NIndex *)
    eapply mrel_bind; [apply Hone; [lia | sr]|]. intros l1 l0 Hl.
    eapply mrel_bind; [apply Hone; [lia | sr]|]. intros r1 r0 Hr. apply mrel_ret. crel_solve.
  - (* NRange *)
    eapply mrel_bind; [apply Hone; [lia | sr]|]. intros f1 f0 Hf.
    eapply mrel_bind; [apply Hone; [lia | sr]|]. intros t1 t0 Ht.
    eapply mrel_bind with (RX := crel).
    { destruct step as [s|]; [apply Hone; [cbn [sizeo] in Hn; lia | sr] | apply mrel_ret; reflexivity]. }
    intros s1 s0 Hst. apply mrel_ret. destruct incl; crel_solve.
  - (* NSlice *)
    eapply mrel_bind; [apply Hone; [lia | sr]|]. intros f1 f0 Hf.
    eapply mrel_bind; [apply Hone; [lia | sr]|]. intros t1 t0 Ht.
    eapply mrel_bind with (RX := crel).
    { destruct step as [s|]; [apply Hone; [cbn [sizeo] in Hn; lia | sr] | apply mrel_ret; reflexivity]. }
    intros s1 s0 Hst. apply mrel_ret. destruct incl; crel_solve.
  - (* NCall *)
    eapply mrel_bind; [apply mrel_tn|]. intros f1 f0 ->.
    eapply mrel_bind; [apply Hlist; [lia | sr]|]. intros cs1 cs0 Hcs. apply mrel_ret. crel_solve.
  - (* NProp *)
    eapply mrel_bind; [apply Hone; [lia | sr]|]. intros l1 l0 Hl.
    eapply mrel_bind; [apply Hone; [lia | sr]|]. intros r1 r0 Hr. apply mrel_ret. crel_solve.
  - (* NAnonFun *)
    eapply mrel_bind; [apply Hlist; [lia | sr]|]. intros cs1 cs0 Hcs.
    eapply mrel_bind; [apply Hone; [lia | sr]|]. intros b1 b0 Hb. apply mrel_ret. crel_solve.
  - (* NExprType *)
    apply Hone; [lia | sr].
  - (* NVarDef *)
    eapply mrel_bind; [apply Hone; [lia | sr]|]. intros v1 v0 Hv.
    eapply mrel_bind with (RX := anyrel).
    { apply mrel_ann. intros i. destruct vty as [t|]; [apply opt_nm_keeps|].
      destruct expr as [e|]; [apply opt_nm_keeps | cbn; apply irel_refl]. }
    intros ty1 ty0 _.
    cbn [def_as_fun_arg with_last_ret with_assign].
    pose proof Hs as (_ & _ & _ & Hdef & _). rewrite Hdef. destruct (def_as_fun_arg st0).
    + eapply mrel_bind; [apply Hopt; [lia | sr]|]. intros d1 d0 Hd. apply mrel_ret. crel_solve.
    + destruct expr as [e|].
      * cbn [sizeo] in Hn. eapply mrel_bind; [apply Hone; [lia | sr]|]. intros c1 c0 Hc.
        rewrite !branch_match. rewrite (is_branching_crel _ _ Hc). destruct (is_branching c0).
        -- apply Hone; [lia|]. apply srel_assign; [sr | split; [exact Hv | reflexivity]].
        -- apply mrel_ret. crel_solve.
      * rewrite !tl_match. apply mrel_ret. rewrite (tl_default_crel _ _ Hv). crel_solve.
  - (* NReassign *)
    eapply mrel_bind; [apply Hone; [lia | sr]|]. intros l1 l0 Hl.
    eapply mrel_bind; [apply Hone; [lia | sr]|]. intros r1 r0 Hr.
    destruct (core_op op); [apply mrel_ret; crel_solve | apply mrel_fail].
  - (* NFunDef *)
    eapply mrel_bind; [apply Hlist; [lia | sr]|]. intros a1 a0 Ha.
    eapply mrel_bind with (RX := anyrel). { apply mrel_ann. intros i. apply opt_nm_keeps. }
    intros ty1 ty0 _.
    cbn [interface with_last_ret with_assign].
    pose proof Hs as (Hifc & _). rewrite Hifc.
    eapply mrel_bind with (RX := fun d1 d0 : list string * core => fst d1 = fst d0 /\ crel (snd d1) (snd d0)).
    { destruct (interface st0 && match body with Some _ => false | None => true end).
      - eapply mrel_bind; [apply mrel_touch; intros; apply add_from_irel; assumption|]. intros _ _ _.
        apply mrel_ret. split; reflexivity.
      - destruct body as [b|].
        + eapply mrel_bind; [apply Hone; [cbn [sizeo] in Hn; lia | sr]|]. intros c1 c0 Hc.
          apply mrel_ret. split; [reflexivity | exact Hc].
        + apply mrel_ret. split; reflexivity. }
    intros d1 d0 [Hd1 Hd2].
    eapply mrel_bind; [apply Hone; [lia | sr]|]. intros i1 i0 Hi.
    rewrite !id_match. rewrite (id_lit_crel _ _ Hi). destruct (id_lit i0) as [lit|]; [|apply mrel_fail].
    destruct (funop_of lit); apply mrel_ret; [crel_solve | rewrite Hd1; crel_solve].
  - (* NFunArg *)
    eapply mrel_bind; [apply Hone; [lia | sr]|]. intros v1 v0 Hv.
    eapply mrel_bind with (RX := anyrel). { apply mrel_ann. intros i. apply opt_nm_keeps. }
    intros ty1 ty0 _.
    eapply mrel_bind; [apply Hopt; [lia | sr]|]. intros d1 d0 Hd. apply mrel_ret. crel_solve.
  - (* NBlock *)
    eapply mrel_bind; [apply Hlist; [lia | sr]|]. intros cs1 cs0 Hcs. apply mrel_ret. crel_solve.
  - (* NReturn *)
    cbn [remove_ret with_last_ret with_assign]. pose proof Hs as (_ & _ & _ & _ & _ & _ & Hrr & _).
    rewrite Hrr. destruct (remove_ret st0).
    + apply Hone; [lia | sr].
    + eapply mrel_bind; [apply Hone; [lia | sr]|]. intros c1 c0 Hc. apply mrel_ret. crel_solve.
  - (* NIfElse *)
    eapply mrel_bind; [apply Hone; [lia | sr]|]. intros cc1 cc0 Hcc.
    destruct el as [e|]; cbn [sizeo] in Hn.
    + destruct (match aty with Some _ => true | None => false end && is_valid_in_ternary t e).
      * eapply mrel_bind; [apply Hone; [lia | sr]|]. intros ct1 ct0 Hct.
        eapply mrel_bind; [apply Hone; [lia | sr]|]. intros ce1 ce0 Hce. apply mrel_ret. crel_solve.
      * eapply mrel_bind; [apply Hone; [lia | sr]|]. intros ct1 ct0 Hct.
        eapply mrel_bind; [apply Hone; [lia | sr]|]. intros ce1 ce0 Hce. apply mrel_ret. crel_solve.
    + eapply mrel_bind; [apply Hone; [lia | sr]|]. intros ct1 ct0 Hct. apply mrel_ret. crel_solve.
  - (* NMatch *)
    eapply mrel_bind; [apply Hone; [lia | sr]|]. intros ce1 ce0 Hce.
    eapply mrel_bind with (RX := Forall2 crel).
    { apply mrel_mfiltermap. intros x Hx. pose proof (sizes_in x cases Hx) as Hsx.
      destruct x as [xty xn]. destruct xn; try (apply mrel_ret; reflexivity).
      destruct cond as [cty cn]. destruct cn; try (apply mrel_ret; reflexivity).
      rewrite !size_unfold in Hsx.
      eapply mrel_bind; [apply Hone; [lia | sr]|]. intros pe1 pe0 Hpe.
      eapply mrel_bind; [apply Hone; [lia | sr]|]. intros pb1 pb0 Hpb.
      apply mrel_ret. unfold orel. cbn [erase_opt]. f_equal. crel_solve. }
    intros cs1 cs0 Hcs. apply mrel_ret. crel_solve.
  - (* NCase *) apply mrel_ret; reflexivity.
  - (* NWhile *)
    eapply mrel_bind; [apply Hone; [lia | sr]|]. intros c1 c0 Hc.
    eapply mrel_bind; [apply Hone; [lia | sr]|]. intros b1 b0 Hb. apply mrel_ret. crel_solve.
  - (* NFor *)
    eapply mrel_bind; [apply Hone; [lia | sr]|]. intros e1 e0 He.
    eapply mrel_bind; [apply Hone; [lia | sr]|]. intros c1 c0 Hc.
    eapply mrel_bind; [apply Hone; [lia | sr]|]. intros b1 b0 Hb. apply mrel_ret. crel_solve.
  - (* NRaise *)
    eapply mrel_bind; [apply Hone; [lia | sr]|]. intros c1 c0 Hc. apply mrel_ret. crel_solve.
  - (* NHandle *)
    assert (He : size e <= n) by lia.
    assert (Hcs : sizes cases <= n) by lia.
    eapply mrel_bind with
      (RX := fun vt1 vt0 : option core * option core => orel (fst vt1) (fst vt0) /\ snd vt1 = snd vt0).
    { destruct e as [ety en]. destruct en; try (apply mrel_ret; split; reflexivity).
      rewrite size_unfold in He.
      eapply mrel_bind; [apply mrel_opt_nm|]. intros t1 t0 ->.
      eapply mrel_bind; [apply Hone; [lia | sr]|]. intros v1 v0 Hv. apply mrel_ret.
      split; [unfold orel; cbn [fst erase_opt]; f_equal; exact Hv | reflexivity]. }
    intros vt1 vt0 [Hvf Hvs].
    eapply mrel_bind; [apply Hone; [lia | sr]|]. intros at1 at0 Hat.
    eapply mrel_bind with (RX := Forall2 crel).
    { apply mrel_mmap. intros x Hx. pose proof (sizes_in x cases Hx) as Hsx.
      destruct x as [xty xn]. destruct xn; try apply mrel_fail.
      destruct cond as [cty cn]. destruct cn; try apply mrel_fail.
      destruct ety as [cty'|]; [|apply mrel_fail].
      rewrite !size_unfold in Hsx.
      eapply mrel_bind; [apply Hone; [lia | sr]|]. intros id1 id0 Hid.
      eapply mrel_bind; [apply mrel_nm|]. intros cl1 cl0 ->.
      eapply mrel_bind.
      { apply Hone; [lia|]. apply srel_assign; [sr|].
        unfold orel in Hvf. destruct (fst vt1), (fst vt0); cbn [erase_opt] in Hvf; try discriminate Hvf; [|exact I].
        split; [unfold crel; congruence | reflexivity]. }
      intros b1 b0 Hb. apply mrel_ret. rewrite !underscore_match, (is_underscore_crel _ _ Hid).
      destruct (is_underscore id0); crel_solve. }
    intros ex1 ex0 Hex. apply mrel_ret.
    unfold orel in Hvf. destruct (fst vt1), (fst vt0); cbn [erase_opt] in Hvf; try discriminate Hvf; crel_solve.
  - (* NImport *)
    eapply mrel_bind; [apply Hopt; [lia | sr]|]. intros f1 f0 Hf.
    eapply mrel_bind; [apply Hlist; [lia | sr]|]. intros i1 i0 Hi.
    eapply mrel_bind; [apply Hlist; [lia | sr]|]. intros a1 a0 Ha. apply mrel_ret. crel_solve.
  - (* NClass *)
    eapply mrel_bind; [apply Hlist; [lia | sr]|]. intros ps1 ps0 Hps.
    eapply mrel_bind; [apply Hopt; [lia | sr]|]. intros b1 b0 Hb.
    eapply mrel_bind; [apply Hlist; [lia | sr]|]. intros ca1 ca0 Hca.
    apply class_tail; try assumption.
    unfold orel in Hb. destruct b1, b0; cbn [erase_opt] in Hb; try discriminate Hb; [|reflexivity].
    rewrite <- !block_stmts_erase. congruence.
  - (* NParent *)
    eapply mrel_bind; [apply mrel_tn|]. intros t1 t0 ->.
    destruct args as [|x r]; [apply mrel_ret; reflexivity|].
    eapply mrel_bind; [apply Hlist; [lia | sr]|]. intros cs1 cs0 Hcs. apply mrel_ret. crel_solve.
  - (* NTypeDef *)
    eapply mrel_bind with (RX := Forall2 crel).
    { destruct isa as [nmi|]; [|apply mrel_ret; constructor].
      eapply mrel_bind; [apply mrel_nm|]. intros t1 t0 ->. apply mrel_ret. constructor; [reflexivity | constructor]. }
    intros ps1 ps0 Hps.
    eapply mrel_bind; [apply Hopt; [lia | sr]|]. intros b1 b0 Hb.
    assert (Hst : map erase (match b1 with Some x => block_stmts x | None => [] end)
                  = map erase (match b0 with Some x => block_stmts x | None => [] end)).
    { unfold orel in Hb. destruct b1, b0; cbn [erase_opt] in Hb; try discriminate Hb; [|reflexivity].
      rewrite <- !block_stmts_erase. congruence. }
    pose proof (assemble_class_erase (match b1 with Some x => block_stmts x | None => [] end) [] ps1) as E1.
    pose proof (assemble_class_erase (match b0 with Some x => block_stmts x | None => [] end) [] ps0) as E0.
    rewrite Hst, (map_erase_F2 _ _ Hps) in E1. cbn [map] in E1, E0. rewrite E0 in E1.
    destruct (assemble_class _ [] ps1) as [[pn1 bs1]|], (assemble_class _ [] ps0) as [[pn0 bs0]|];
      cbn [option_map] in E1; try discriminate E1; [|apply mrel_fail].
    inversion E1 as [[Hpn Hbs]]. cbn [fst snd] in Hpn, Hbs.
    eapply mrel_bind with (RX := fun l1 l0 : list core => map erase l1 = map erase l0).
    { destruct abstract_parent; [apply mrel_ret; symmetry; exact Hpn|].
      eapply mrel_bind; [apply mrel_touch; intros; apply add_from_irel; assumption|]. intros _ _ _.
      apply mrel_ret. rewrite !map_app. rewrite Hpn. reflexivity. }
    intros pn1' pn0' Hpn'.
    eapply mrel_bind; [apply mrel_tn|]. intros t1 t0 ->.
    destruct t0; try apply mrel_fail. apply mrel_ret. unfold crel. cbn [erase]. congruence.
  - (* NTypeAlias *)
    eapply mrel_bind; [apply mrel_touch; intros; apply add_from_irel; assumption|]. intros _ _ _.
    eapply mrel_bind; [apply mrel_nm|]. intros t1 t0 ->. apply mrel_ret. reflexivity.
  - (* NDict *)
    eapply mrel_bind with
      (RX := fun l1 l0 : list (core * core) =>
               map (fun kv => (erase (fst kv), erase (snd kv))) l1 = map (fun kv => (erase (fst kv), erase (snd kv))) l0).
    { assert (Hd : forall l, sizesp l <= n ->
                 mrel (fun l1 l0 : list (core * core) =>
                         map (fun kv => (erase (fst kv), erase (snd kv))) l1
                         = map (fun kv => (erase (fst kv), erase (snd kv))) l0)
                      (mmap (fun kv => ck <- conv (fst kv) (with_last_ret (with_assign st1 None) false) ;;
                                       cv <- conv (snd kv) (with_last_ret (with_assign st1 None) false) ;; ret (ck, cv)) l)
                      (mmap (fun kv => ck <- conv (fst kv) (with_last_ret (with_assign st0 None) false) ;;
                                       cv <- conv (snd kv) (with_last_ret (with_assign st0 None) false) ;; ret (ck, cv)) l)).
      { induction l as [|kv l IHl]; intros Hl; cbn [mmap]; [apply mrel_ret; reflexivity|]. cbn [sizesp] in Hl.
        eapply mrel_bind with (RX := fun p1 p0 : core * core => crel (fst p1) (fst p0) /\ crel (snd p1) (snd p0)).
        { eapply mrel_bind; [apply Hone; [lia | sr]|]. intros k1 k0 Hk.
          eapply mrel_bind; [apply Hone; [lia | sr]|]. intros v1 v0 Hv. apply mrel_ret. split; assumption. }
        intros p1 p0 [Hp1 Hp2]. eapply mrel_bind; [apply IHl; lia|]. intros r1 r0 Hr.
        apply mrel_ret. cbn [map]. unfold crel in *. rewrite Hp1, Hp2, Hr. reflexivity. }
      apply Hd. lia. }
    intros l1 l0 Hl. apply mrel_ret. unfold crel. cbn [erase]. rewrite Hl. reflexivity.
  - (* NListBuilder *)
    eapply mrel_bind; [apply Hone; [lia | sr]|]. intros e1 e0 He.
    destruct conds as [|col rest]; [apply mrel_fail|]. cbn [sizes] in Hn.
    eapply mrel_bind; [apply Hlist; [lia | sr]|]. intros cs1 cs0 Hcs.
    eapply mrel_bind; [apply Hone; [lia | sr]|]. intros cc1 cc0 Hcc. apply mrel_ret. crel_solve.
  - (* NSetBuilder *)
    eapply mrel_bind; [apply Hone; [lia | sr]|]. intros e1 e0 He.
    destruct conds as [|col rest]; [apply mrel_fail|]. cbn [sizes] in Hn.
    eapply mrel_bind; [apply Hlist; [lia | sr]|]. intros cs1 cs0 Hcs.
    eapply mrel_bind; [apply Hone; [lia | sr]|]. intros cc1 cc0 Hcc. apply mrel_ret. crel_solve.
  - (* NDictBuilder *)
    eapply mrel_bind; [apply Hone; [lia | sr]|]. intros f1 f0 Hf.
    eapply mrel_bind; [apply Hone; [lia | sr]|]. intros t1 t0 Ht.
    destruct conds as [|col rest]; [apply mrel_fail|]. cbn [sizes] in Hn.
    eapply mrel_bind; [apply Hlist; [lia | sr]|]. intros cs1 cs0 Hcs.
    eapply mrel_bind; [apply Hone; [lia | sr]|]. intros cc1 cc0 Hcc. apply mrel_ret. crel_solve.
  - (* NWith *)
    eapply mrel_bind; [apply Hone; [lia | sr]|]. intros r1 r0 Hr.
    destruct alias as [al|]; cbn [sizeo] in Hn.
    + eapply mrel_bind; [apply Hone; [lia | sr]|]. intros a1 a0 Ha.
      eapply mrel_bind; [apply Hone; [lia | sr]|]. intros b1 b0 Hb. apply mrel_ret. crel_solve.
    + eapply mrel_bind; [apply Hone; [lia | sr]|]. intros b1 b0 Hb. apply mrel_ret. crel_solve.
Qed.

Theorem sim a : Psim a.
Proof. apply (sim_n (size a)). lia. Qed.

(** ** Statements about [gen] (the model of [gen_arguments]) *)

Lemma srel0 : srel (state0 true) (state0 false).
Proof. unfold srel. cbn. intuition. Qed.

Theorem conv_inert a :
  match conv a (state0 true) imports0, conv a (state0 false) imports0 with
  | Some (c1, j1), Some (c0, j0) =>
      erase c1 = erase c0 /\ imps j1 = imps j0 /\ nontyping (from_imps j1) = nontyping (from_imps j0)
  | None, None => True
  | _, _ => False
  end.
Proof.
  pose proof (sim a (state0 true) (state0 false) srel0 imports0 imports0 (irel_refl _)) as H.
  destruct (conv a (state0 true) imports0) as [[c1 j1]|], (conv a (state0 false) imports0) as [[c0 j0]|];
    try contradiction; [|exact I].
  destruct H as [Hc [H1 H2]]. repeat split; try assumption. rewrite !from_imps_nontyping, H2. reflexivity.
Qed.

Definition is_typing_import (c : core) : bool :=
  match c with Import (Some (Id f)) _ _ => String.eqb f "typing" | _ => false end.

(** erase annotations and drop the [from typing import ..] lines *)
Definition strip (c : core) : core :=
  match erase c with
  | Block sts => Block (filter (fun s => negb (is_typing_import s)) sts)
  | other => other
  end.

Lemma filter_from_imports m :
  filter (fun s => negb (is_typing_import s)) (map erase (map from_import_core m))
  = map erase (map from_import_core (nontyping m)).
Proof.
  induction m as [|[k [ns al]] m IH]; [reflexivity|].
  cbn [map nontyping filter fst]. unfold from_import_core at 1. cbn [fst snd erase is_typing_import].
  destruct (String.eqb k "typing"); cbn [negb]; [exact IH|].
  cbn [map]. unfold from_import_core at 2. cbn [fst snd erase]. f_equal. exact IH.
Qed.

(** the statements of the emitted module: registered imports, then the body *)
Definition stmts_of (c : core) : list core := match c with Block s => s | other => [other] end.
Definition module_stmts (c : core) (j : imports) : list core := import_list j ++ stmts_of c.
Definition strip_stmts (l : list core) : list core :=
  filter (fun s => negb (is_typing_import s)) (map erase l).

Lemma stmts_of_erase c : map erase (stmts_of c) = stmts_of (erase c).
Proof. destruct c; reflexivity. Qed.

Lemma gen_is_module ann a :
  gen ann a =
  match conv a (state0 ann) imports0 with
  | Some (c, j) =>
      match c with
      | Block _ => Some (Block (module_stmts c j))
      | _ => if imports_empty j then Some c else Some (Block (module_stmts c j))
      end
  | None => None
  end.
Proof. unfold gen. destruct (conv a (state0 ann) imports0) as [[c j]|]; [|reflexivity]. destruct c; reflexivity. Qed.

Theorem annotate_inert a :
  match conv a (state0 true) imports0, conv a (state0 false) imports0 with
  | Some (c1, j1), Some (c0, j0) => strip_stmts (module_stmts c1 j1) = strip_stmts (module_stmts c0 j0)
  | None, None => True
  | _, _ => False
  end.
Proof.
  pose proof (conv_inert a) as H.
  destruct (conv a (state0 true) imports0) as [[c1 j1]|], (conv a (state0 false) imports0) as [[c0 j0]|];
    try contradiction; [|exact I].
  destruct H as (Hc & H1 & H2). unfold strip_stmts, module_stmts, import_list.
  rewrite !map_app, !filter_app, !filter_from_imports, !stmts_of_erase, Hc, H1, H2. reflexivity.
Qed.
