(** * Pure expressions: the emitted Python expression evaluates like the Mamba expression

    For every expression built from literals, identifiers, tuples, lists, indexing, the strict
    operators, [and]/[or] and the unary operators (no calls, no [?], no ranges, no [sqrt]):
    - [conv_pure]: the desugaring is the structural translation [tr] and registers no import;
    - [pure_sim]: whenever the reference semantics gives a value or raises a (non-internal)
      exception, the model of Python gives the same value / raises the same exception on the
      translated expression, in every environment with the same variables, for every fuel at
      least as large; neither side changes the environment. *)
From Coq Require Import List String Bool ZArith Lia.
Local Open Scope string_scope.
From MambaModel Require Import model.Core gen.Names model.SemDom model.Convert model.PySem model.PyEval model.MEval.
Import ListNotations.

Definition pure_op (o : nbin) : bool :=
  match nbin_sop o with Some _ => true | None => match o with SAnd | SOr => true | _ => false end end.
Definition is_sqrt (o : nun) : bool := match o with SSqrt => true | _ => false end.

(** the step of an INCLUSIVE range must be absent or a positive integer literal (with a negative step the emitted
    end is wrong: finding D71) *)
Definition positive_literal (a : ast) : bool :=
  match a with
  | A _ (NInt s) => match z_of_string s with Some z => Z.ltb 0 z | None => false end
  | _ => false
  end.

Fixpoint pure (a : ast) : bool :=
  match a with A _ nd =>
  match nd with
  | NInt _ | NBool _ | NUndefined => true
  | NStr _ false => true
  | NId x => String.eqb (concrete_to_python x) x
  | NExprType x _ => pure x
  | NTuple es | NList es => forallb pure es
  | NBin o l r => pure_op o && pure l && pure r
  | NUn o x => negb (is_sqrt o) && pure x
  | NIndex x y => pure x && pure y
  | NRange from to incl step =>
      pure from && pure to
      && match step with
         | None => true
         | Some st => pure st && (negb incl || positive_literal st)
         end
  | _ => false
  end end.

Fixpoint tr (b : bool) (a : ast) : core :=
  match a with A _ nd =>
  match nd with
  | NInt s => Int s | NBool x => Bool x | NUndefined => None_ | NStr s _ => Str s
  | NId x => Id x
  | NExprType x _ => tr b x
  | NTuple es => if b then TupleLiteral (map (tr b) es) else Tuple (map (tr b) es)
  | NList es => List_ (map (tr b) es)
  | NBin o l r => bin_core o (tr b l) (tr b r)
  | NUn o x => un_core o (tr b x)
  | NIndex x y => Index (tr b x) (tr b y)
  | NRange from to incl step =>
      FunctionCall (Id n_range)
        [tr b from; if incl then Bin CbAdd (tr b to) (Int "1") else tr b to;
         match step with Some st => tr b st | None => Int "1" end]
  | _ => Empty
  end end.

Definition env_rel (em : menv) (ep : penv) : Prop := forall x, lookup_var x em = lookup_var x ep.

Notation mev0 := (mev_dev false false).

Definition Good (f g : nat) (b : bool) (a : ast) : Prop :=
  forall em ep, env_rel em ep ->
    (forall v em', mev0 f a em = MVal (Some v) em' -> em' = em /\ cexpr g (tr b a) ep = (inl v, ep))
    /\ (forall x em', mev0 f a em = MExc x em' -> is_internal x = false ->
                      em' = em /\ cexpr g (tr b a) ep = (inr x, ep)).

(** ** One-step unfoldings of the two evaluators *)
Lemma mev_bin_strict f ty o so l r em :
  nbin_sop o = Some so ->
  mev0 (S f) (A ty (NBin o l r)) em
  = mval (mev0 f) l em (fun x e1 => mval (mev0 f) r e1 (fun y e2 => of_result (sbin so x y, e2))).
Proof. destruct o; cbn; intros H; try discriminate H; injection H as <-; reflexivity. Qed.

Lemma cexpr_bin_strict g c so cl cr ep :
  cbin_sop c = Some so ->
  cexpr (S g) (Bin c cl cr) ep
  = match cexpr g cl ep with
    | (inl a, e1) => match cexpr g cr e1 with (inl b0, e2) => (sbin so a b0, e2) | other => other end
    | other => other
    end.
Proof. destruct c; cbn; intros H; try discriminate H; injection H as <-; reflexivity. Qed.

Lemma mval_val ev a e k v e1 : ev a e = MVal (Some v) e1 -> mval ev a e k = k v e1.
Proof. unfold mval; intros ->; reflexivity. Qed.
Lemma mval_exc ev a e k x e1 : ev a e = MExc x e1 -> mval ev a e k = MExc x e1.
Proof. unfold mval; intros ->; reflexivity. Qed.

(** the relation between the two results: same value / same exception, environments unchanged;
    an internal failure of the reference semantics (unsupported, out of fuel) claims nothing *)
Definition Rel (em : menv) (ep : penv) (r : mres) (c : (value + value) * penv) : Prop :=
  match r with
  | MVal (Some v) e' => e' = em /\ c = (inl v, ep)
  | MExc x e' => is_internal x = true \/ (e' = em /\ c = (inr x, ep))
  | _ => False
  end.

Definition Sim (f g : nat) (b : bool) (a : ast) : Prop :=
  forall em ep, env_rel em ep -> Rel em ep (mev0 f a em) (cexpr g (tr b a) ep).

Lemma rel_of_result em ep r : Rel em ep (of_result (r, em)) (r, ep).
Proof. destruct r as [v|x]; cbn; [split; reflexivity | right; split; reflexivity]. Qed.

Lemma rel_unsup em ep e' c : Rel em ep (munsup e') c.
Proof. cbn. left. reflexivity. Qed.

(** lists of sub-expressions *)
Lemma list_sim f g b es :
  (forall x, In x es -> Sim f g b x) ->
  forall em ep, env_rel em ep ->
  (exists vs, (forall k, mvals (mev0 f) es em k = k vs em)
              /\ eval_list (cexpr g) (map (tr b) es) ep = (inl vs, ep))
  \/ (exists x e', (forall k, mvals (mev0 f) es em k = MExc x e')
                   /\ (is_internal x = true
                       \/ (e' = em /\ eval_list (cexpr g) (map (tr b) es) ep = (inr x, ep)))).
Proof.
  intros H em ep R. induction es as [|a r IH].
  - left. exists []. split; [intro k; reflexivity | reflexivity].
  - assert (Ha : Sim f g b a) by (apply H; left; reflexivity).
    specialize (Ha em ep R).
    assert (Hr : forall x, In x r -> Sim f g b x) by (intros x Hx; apply H; right; exact Hx).
    specialize (IH Hr).
    cbn [mvals map eval_list]. unfold mval.
    destruct (mev0 f a em) as [[v|] e1 | v e1 | x e1 | e1 | e1] eqn:Ea; cbn in Ha; try contradiction.
    + destruct Ha as [-> Ca]. rewrite Ca.
      destruct IH as [[vs [Hk Hc]] | [x [e' [Hk Hc]]]].
      * left. exists (v :: vs). split; [intro k; rewrite Hk; reflexivity | rewrite Hc; reflexivity].
      * right. exists x, e'. split; [intro k; rewrite Hk; reflexivity|].
        destruct Hc as [I | [-> Hc]]; [left; exact I | right; split; [reflexivity | rewrite Hc; reflexivity]].
    + right. exists x, e1. split; [intro k; reflexivity|].
      destruct Ha as [I | [-> Ca]]; [left; exact I | right; split; [reflexivity | rewrite Ca; reflexivity]].
Qed.

From MambaModel Require Import proofs.MEvalProps.

Lemma cexpr_un g o x ep :
  is_sqrt o = false ->
  cexpr (S g) (un_core o x) ep
  = match cexpr g x ep with
    | (inl v, e1) =>
        (sun match o with SAddU => UPos | SSubU => UNeg | SBOneCmpl => UInv | _ => UNot end v, e1)
    | other => other
    end.
Proof. destruct o; cbn; intro H; try discriminate H; reflexivity. Qed.

Lemma cexpr_range g a1 a2 a3 ep :
  cexpr (S g) (FunctionCall (Id n_range) [a1; a2; a3]) ep
  = match eval_list (cexpr g) [a1; a2; a3] ep with
    | (inl vs, e1) => (mk_range vs, e1)
    | (inr x, e1) => (inr x, e1)
    end.
Proof. reflexivity. Qed.

Theorem pure_sim : forall f a, pure a = true -> forall b g, 2 * f <= g -> Sim f g b a.
Proof.
  induction f as [|f IH]; intros a Hp b g Hg em ep R.
  { cbn. left. reflexivity. }
  destruct g as [|g]; [lia|]. assert (Hg' : 2 * f <= g) by lia.
  destruct a as [ty nd]. destruct nd; cbn [pure] in Hp; try discriminate Hp.
  - (* NInt *) cbn. destruct (z_of_string s); cbn; [split; reflexivity | left; reflexivity].
  - (* NStr *) destruct interpolated; [discriminate Hp|]. cbn.
    destruct (plain_text s); cbn; [split; reflexivity | left; reflexivity].
  - (* NBool *) cbn. split; reflexivity.
  - (* NId *) apply String.eqb_eq in Hp. cbn. rewrite <- (R s).
    destruct (lookup_var s em); cbn; [split; reflexivity|].
    destruct (String.eqb s "None"); cbn; [split; reflexivity | left; reflexivity].
  - (* NUndefined *) cbn. split; reflexivity.
  - (* NBin *)
    apply andb_true_iff in Hp. destruct Hp as [Hp Hr]. apply andb_true_iff in Hp. destruct Hp as [Ho Hl].
    pose proof (IH l Hl b g Hg' em ep R) as Sl.
    pose proof (IH r Hr b g Hg') as Sr.
    unfold pure_op in Ho. destruct (nbin_sop o) as [so|] eqn:Eso.
    + destruct (strict_operator_table o so Eso) as [c [Hc Hso]].
      rewrite (mev_bin_strict f ty o so l r em Eso).
      cbn [tr]. rewrite Hc, (cexpr_bin_strict g c so _ _ ep Hso).
      unfold mval at 1.
      destruct (mev0 f l em) as [[vl|] e1 | v e1 | x e1 | e1 | e1] eqn:El; cbn in Sl; try contradiction.
      * destruct Sl as [-> Cl]. rewrite Cl. specialize (Sr em ep R). unfold mval.
        destruct (mev0 f r em) as [[vr|] e2 | v e2 | x e2 | e2 | e2] eqn:Er; cbn in Sr; try contradiction.
        -- destruct Sr as [-> Cr]. rewrite Cr. apply rel_of_result.
        -- destruct Sr as [I | [-> Cr]]; [left; exact I | right; rewrite Cr; split; reflexivity].
      * destruct Sl as [I | [-> Cl]]; [left; exact I | right; rewrite Cl; split; reflexivity].
    + destruct o; try discriminate Ho; try discriminate Eso.
      * (* and *) cbn [tr bin_core]. cbn [mev_dev mev1]. cbn [cexpr cexpr1].
        unfold mval.
        destruct (mev0 f l em) as [[vl|] e1 | v e1 | x e1 | e1 | e1] eqn:El; cbn in Sl; try contradiction.
        -- destruct Sl as [-> Cl]. rewrite Cl.
           destruct vl; try apply rel_unsup.
           destruct b0; cbn [truthy]; [apply (Sr em ep R) | split; reflexivity].
        -- destruct Sl as [I | [-> Cl]]; [left; exact I | right; rewrite Cl; split; reflexivity].
      * (* or *) cbn [tr bin_core]. cbn [mev_dev mev1]. cbn [cexpr cexpr1].
        unfold mval.
        destruct (mev0 f l em) as [[vl|] e1 | v e1 | x e1 | e1 | e1] eqn:El; cbn in Sl; try contradiction.
        -- destruct Sl as [-> Cl]. rewrite Cl.
           destruct vl; try apply rel_unsup.
           destruct b0; cbn [truthy]; [split; reflexivity | apply (Sr em ep R)].
        -- destruct Sl as [I | [-> Cl]]; [left; exact I | right; rewrite Cl; split; reflexivity].
  - (* NUn *)
    apply andb_true_iff in Hp. destruct Hp as [Ho Hx]. apply negb_true_iff in Ho.
    pose proof (IH e Hx b g Hg' em ep R) as Sx.
    cbn [tr]. rewrite (cexpr_un g o _ ep Ho).
    destruct o; try discriminate Ho; cbn [mev_dev mev1]; unfold mval;
      destruct (mev0 f e em) as [[v|] e1 | v e1 | x e1 | e1 | e1] eqn:Ee; cbn in Sx; try contradiction;
      try (destruct Sx as [I | [-> Cx]]; [left; exact I | right; rewrite Cx; split; reflexivity]);
      destruct Sx as [-> Cx]; rewrite Cx; try apply rel_of_result.
    (* not *)
    destruct v; try apply rel_unsup. cbn. split; reflexivity.
  - (* NTuple *)
    assert (Hall : forall x, In x es -> Sim f g b x).
    { intros x Hx. apply IH; [|exact Hg']. rewrite forallb_forall in Hp. apply Hp; exact Hx. }
    cbn [mev_dev mev1].
    destruct (list_sim f g b es Hall em ep R) as [[vs [Hk Hc]] | [x [e' [Hk Hc]]]].
    + rewrite Hk. cbn [tr]. destruct b; cbn [cexpr cexpr1]; rewrite Hc; split; reflexivity.
    + rewrite Hk. destruct Hc as [I | [-> Hc]]; [left; exact I|].
      right. cbn [tr]. destruct b; cbn [cexpr cexpr1]; rewrite Hc; split; reflexivity.
  - (* NList *)
    assert (Hall : forall x, In x es -> Sim f g b x).
    { intros x Hx. apply IH; [|exact Hg']. rewrite forallb_forall in Hp. apply Hp; exact Hx. }
    cbn [mev_dev mev1].
    destruct (list_sim f g b es Hall em ep R) as [[vs [Hk Hc]] | [x [e' [Hk Hc]]]].
    + rewrite Hk. cbn [tr cexpr cexpr1]. rewrite Hc. split; reflexivity.
    + rewrite Hk. destruct Hc as [I | [-> Hc]]; [left; exact I|].
      right. cbn [tr cexpr cexpr1]. rewrite Hc. split; reflexivity.
  - (* NIndex *)
    apply andb_true_iff in Hp. destruct Hp as [Hi Hr].
    pose proof (IH item Hi b g Hg' em ep R) as Si.
    pose proof (IH range Hr b g Hg' em ep R) as Sr.
    cbn [tr mev_dev mev1 cexpr cexpr1]. unfold mval.
    destruct (mev0 f item em) as [[vi|] e1 | v e1 | x e1 | e1 | e1] eqn:Ei; cbn in Si; try contradiction.
    + destruct Si as [-> Ci]. rewrite Ci.
      destruct (mev0 f range em) as [[vr|] e2 | v e2 | x e2 | e2 | e2] eqn:Er; cbn in Sr; try contradiction.
      * destruct Sr as [-> Cr]. rewrite Cr. apply rel_of_result.
      * destruct Sr as [I | [-> Cr]]; [left; exact I | right; rewrite Cr; split; reflexivity].
    + destruct Si as [I | [-> Ci]]; [left; exact I | right; rewrite Ci; split; reflexivity].
  - (* NRange *)
    apply andb_true_iff in Hp. destruct Hp as [Hp Hstep]. apply andb_true_iff in Hp. destruct Hp as [Hfrom Hto].
    destruct g as [|g1]; [lia|]. assert (Hg1 : 2 * f <= g1) by lia.
    pose proof (IH from Hfrom b (S g1) Hg' em ep R) as Sf.
    pose proof (IH to Hto b g1 Hg1 em ep R) as St1.
    pose proof (IH to Hto b (S g1) Hg' em ep R) as St.
    cbn [tr]. rewrite cexpr_range.
    cbn [mev_dev mev1]. cbn [eval_list]. unfold mval at 1.
    destruct (mev0 f from em) as [[va|] e1 | v e1 | x e1 | e1 | e1] eqn:Ef; cbv beta iota delta [Rel] in Sf; try contradiction.
    2:{ destruct Sf as [I | [-> Cf]]; [left; exact I | right; rewrite Cf; split; reflexivity]. }
    destruct Sf as [-> Cf]. rewrite Cf.
    assert (Hf1 : exists f', f = S f').
    { destruct f as [|f']; [cbn in Ef; discriminate Ef | exists f'; reflexivity]. }
    destruct Hf1 as [f' ->].
    unfold mval at 1.
    destruct (mev0 (S f') to em) as [[vb|] e2 | v e2 | x e2 | e2 | e2] eqn:Et; cbv beta iota delta [Rel] in St, St1; try contradiction.
    2:{ (* the end raises *)
        destruct incl.
        - rewrite (cexpr_bin_strict g1 CbAdd OAdd _ _ ep eq_refl).
          destruct St1 as [I | [-> Ct]]; [left; exact I | right; rewrite Ct; split; reflexivity].
        - destruct St as [I | [-> Ct]]; [left; exact I | right; rewrite Ct; split; reflexivity]. }
    destruct St as [-> Ct]. destruct St1 as [_ Ct1].
    (* the value of the emitted second argument *)
    destruct (incl && negb match vb with VInt _ => true | _ => false end) eqn:Eguard; [apply rel_unsup|].
    assert (Harg2 : exists vb', cexpr (S g1) (if incl then Bin CbAdd (tr b to) (Int "1") else tr b to) ep = (inl vb', ep)
                                /\ (forall zb, vb = VInt zb -> vb' = VInt (if incl then zb + 1 else zb)%Z)
                                /\ (forall zb, vb' = VInt zb -> exists z0, vb = VInt z0)).
    { destruct incl.
      - cbn in Eguard. destruct vb; try discriminate Eguard.
        exists (VInt (z + 1)%Z). rewrite (cexpr_bin_strict g1 CbAdd OAdd _ _ ep eq_refl), Ct1.
        assert (Hone : cexpr g1 (Int "1") ep = (inl (VInt 1), ep)) by (destruct g1 as [|g2]; [lia | reflexivity]).
        rewrite Hone. split; [reflexivity|]. split; [intros zb E; injection E as <-; reflexivity | intros zb _; eexists; reflexivity].
      - exists vb. rewrite Ct. split; [reflexivity|]. split; [intros zb E; exact E | intros zb E; exists zb; exact E]. }
    destruct Harg2 as [vb' [C2 [Hvb Hvb2]]]. rewrite C2.
    (* the step *)
    destruct step as [st|].
    + apply andb_true_iff in Hstep. destruct Hstep as [Hst Hpos].
      pose proof (IH st Hst b (S g1) Hg' em ep R) as Ss.
      unfold mval.
      destruct (mev0 (S f') st em) as [[vs|] e3 | v e3 | x e3 | e3 | e3] eqn:Es; cbv beta iota delta [Rel] in Ss; try contradiction.
      2:{ destruct Ss as [I | [-> Cs]]; [left; exact I | right; rewrite Cs; split; reflexivity]. }
      destruct Ss as [-> Cs]. rewrite Cs. cbn [mk_range].
      destruct va as [za| | | | | | | |]; try apply rel_unsup.
      destruct vb as [zb| | | | | | | |]; try apply rel_unsup.
      destruct vs as [zs| | | | | | | |]; try apply rel_unsup.
      rewrite (Hvb zb eq_refl).
      destruct (Z.eqb zs 0) eqn:Ez; [apply rel_unsup|].
      cbn [andb]. split; [reflexivity|]. f_equal. f_equal. f_equal.
      unfold range_end. destruct incl; [|reflexivity].
      cbn [negb orb] in Hpos. destruct st as [sty snd]; destruct snd; try discriminate Hpos.
      cbn [positive_literal] in Hpos. cbn in Es.
      destruct (z_of_string s) as [z|]; [|discriminate Hpos].
      injection Es as <-. rewrite Hpos. reflexivity.
    + assert (Hone : cexpr (S g1) (Int "1") ep = (inl (VInt 1), ep)) by reflexivity.
      rewrite Hone. cbn [mk_range].
      destruct va as [za| | | | | | | |]; try apply rel_unsup.
      destruct vb as [zb| | | | | | | |]; try apply rel_unsup.
      rewrite (Hvb zb eq_refl). cbn [Z.eqb andb].
      split; [reflexivity|]. unfold range_end. destruct incl; reflexivity.
  - (* NExprType *)
    cbn [tr mev_dev mev1].
    apply (IH e Hp b (S g)); [lia | exact R].
Qed.

(** ** The desugaring of a pure expression is the structural translation, and registers no import *)
From MambaModel Require Import proofs.ConvUnfold proofs.ConvertProps.

Definition plain (st : state) : Prop := assign_to st = None /\ last_ret st = false.

Lemma mmap_pure (b : bool) (st : state) (i : imports) (es : list ast) :
  (forall x, In x es -> conv x st i = Some (tr b x, i)) ->
  mmap (fun x => conv x st) es i = Some (map (tr b) es, i).
Proof.
  induction es as [|a r IH]; intro H; [reflexivity|].
  cbn [mmap map]. unfold bind, ret. rewrite (H a (or_introl eq_refl)).
  fold (mmap (fun x => conv x st) r). rewrite IH; [reflexivity|].
  intros x Hx. apply H. right. exact Hx.
Qed.

Lemma sizes_in x es : In x es -> size x <= sizes es.
Proof.
  induction es as [|a r IH]; intro H; [contradiction|]. cbn [sizes].
  destruct H as [->|H]; [lia | specialize (IH H); lia].
Qed.

Lemma plain_norm st : plain st -> with_last_ret (with_assign st None) false = st.
Proof. destruct st; intros [H1 H2]; cbn in *; subst; reflexivity. Qed.

Lemma conv_pure : forall n a, size a <= n -> pure a = true ->
  forall st i, plain st -> conv a st i = Some (tr (tup_lit st) a, i).
Proof.
  induction n as [|n IH]; intros a Hn Hp st i [Ha Hl].
  { destruct a; rewrite size_unfold in Hn; lia. }
  destruct a as [ty nd]. rewrite size_unfold in Hn.
  assert (Pst : plain st) by (split; assumption).
  rewrite conv_eq. cbv zeta. rewrite Ha, Hl, (plain_norm st Pst).
  set (s_tl := tup_lit st).
  destruct nd; cbn [pure] in Hp; try discriminate Hp.
  - reflexivity.
  - destruct interpolated; [discriminate Hp | reflexivity].
  - reflexivity.
  - apply String.eqb_eq in Hp. unfold bind, ret. cbn [tr]. rewrite Hp. reflexivity.
  - reflexivity.
  - (* NBin *)
    apply andb_true_iff in Hp. destruct Hp as [Hp Hr]. apply andb_true_iff in Hp. destruct Hp as [_ Hl'].
    unfold bind, ret.
    rewrite (IH l ltac:(lia) Hl' st i Pst), (IH r ltac:(lia) Hr st i Pst). reflexivity.
  - (* NUn *)
    apply andb_true_iff in Hp. destruct Hp as [Ho Hx]. apply negb_true_iff in Ho.
    destruct o; try discriminate Ho; unfold bind, ret; rewrite (IH e ltac:(lia) Hx st i Pst); reflexivity.
  - (* NTuple *)
    unfold bind, ret. rewrite (mmap_pure s_tl st i es).
    + cbn [tr]. subst s_tl. destruct (tup_lit st); reflexivity.
    + intros x Hx. apply (IH x); [pose proof (sizes_in x es Hx); lia | | exact Pst].
      rewrite forallb_forall in Hp. apply Hp. exact Hx.
  - (* NList *)
    unfold bind, ret. rewrite (mmap_pure s_tl st i es); [reflexivity|].
    intros x Hx. apply (IH x); [pose proof (sizes_in x es Hx); lia | | exact Pst].
    rewrite forallb_forall in Hp. apply Hp. exact Hx.
  - (* NIndex *)
    apply andb_true_iff in Hp. destruct Hp as [Hi Hr].
    unfold bind, ret.
    rewrite (IH item ltac:(lia) Hi st i Pst), (IH range ltac:(lia) Hr st i Pst). reflexivity.
  - (* NRange *)
    apply andb_true_iff in Hp. destruct Hp as [Hp Hstep]. apply andb_true_iff in Hp. destruct Hp as [Hfrom Hto].
    unfold bind, ret.
    rewrite (IH from ltac:(lia) Hfrom st i Pst), (IH to ltac:(lia) Hto st i Pst).
    destruct step as [sp|].
    + apply andb_true_iff in Hstep. destruct Hstep as [Hsp _].
      cbn [sizeo] in Hn. rewrite (IH sp ltac:(lia) Hsp st i Pst). reflexivity.
    + reflexivity.
  - (* NExprType *)
    unfold bind, ret.
    rewrite (IH e ltac:(lia) Hp (with_expand st true) i ltac:(destruct st; cbn in *; split; assumption)).
    subst s_tl. destruct st; reflexivity.
Qed.

(** ** The two halves together, stated on [conv] itself *)
Theorem pure_expr_correct a st i c i' :
  pure a = true -> plain st -> conv a st i = Some (c, i') ->
  i' = i /\ forall f g em ep, 2 * f <= g -> env_rel em ep -> Rel em ep (mev f a em) (cexpr g c ep).
Proof.
  intros Hp Hs Hc. rewrite (conv_pure (size a) a (le_n _) Hp st i Hs) in Hc.
  injection Hc as <- <-. split; [reflexivity|].
  intros f g em ep Hfg R. apply pure_sim; assumption.
Qed.

(** every pure expression does convert *)
Corollary pure_expr_converts a st i :
  pure a = true -> plain st -> exists c, conv a st i = Some (c, i).
Proof. intros Hp Hs. eexists. apply (conv_pure (size a) a (le_n _) Hp st i Hs). Qed.

(** non-vacuity: [((1 + x) * l[0] < 7) and not b] is pure, converts, and both sides compute [True] *)
Local Open Scope string_scope.
Definition sample_pure : ast :=
  let lit s := A None (NInt s) in
  A None (NBin SAnd
    (A None (NBin SLe
       (A None (NBin SMul (A None (NBin SAdd (lit "1") (A None (NId "x"))))
                          (A None (NIndex (A None (NList [lit "2"; lit "3"])) (lit "0")))))
       (lit "7")))
    (A None (NUn SNot (A None (NId "b"))))).
Definition sample_env {B} : env B := set_var "b" (VBool false) (set_var "x" (VInt 2) env0).

Example sample_pure_ok :
  pure sample_pure = true
  /\ plain (state0 false)
  /\ (forall x, lookup_var x (@sample_env ast) = lookup_var x (@sample_env core))
  /\ mev 20 sample_pure sample_env = MVal (Some (VBool true)) sample_env
  /\ exists c, conv sample_pure (state0 false) imports0 = Some (c, imports0)
               /\ cexpr 20 c sample_env = (inl (VBool true), sample_env).
Proof.
  split; [reflexivity|]. split; [split; reflexivity|]. split; [intro x; reflexivity|].
  split; [vm_compute; reflexivity|].
  eexists. split; [vm_compute; reflexivity | vm_compute; reflexivity].
Qed.

(** an inclusive stepped range inside a membership test: [4 in 0 ..= 4 .. 2] *)
Definition sample_range : ast :=
  let lit s := A None (NInt s) in
  A None (NBin SIn (lit "4") (A None (NRange (lit "0") (lit "4") true (Some (lit "2"))))).
Example sample_range_ok :
  pure sample_range = true
  /\ mev 10 sample_range (@env0 ast) = MVal (Some (VBool true)) env0
  /\ exists c, conv sample_range (state0 true) imports0 = Some (c, imports0)
               /\ cexpr 20 c (@env0 core) = (inl (VBool true), env0).
Proof.
  split; [reflexivity|]. split; [vm_compute; reflexivity|].
  eexists. split; [vm_compute; reflexivity | vm_compute; reflexivity].
Qed.
