(** * C16, part 2: what a [Core] tree needs; the pure helpers of the conversion preserve coverage *)
From Coq Require Import List String Bool Arith Lia.
From MambaModel Require Import model.Core gen.Names model.Convert proofs.ConvertProps proofs.ImportsProps.
Import ListNotations.
Local Open Scope string_scope.
Local Open Scope list_scope.

(** ** [needs] *)

(** the type spellings the generator takes from [typing] *)
Definition typing_support : list string := ["Optional"; n_union_py; n_tuple_py; n_callable_py; n_any_py].

Definition type_need (lit : string) : list need :=
  if existsb (String.eqb lit) typing_support then [FromImport "typing" lit] else [].
Definition parent_need (p : core) : list need :=
  match p with Id s => if String.eqb s "ABC" then [FromImport "abc" "ABC"] else [] | _ => [] end.
Definition call_need (f : core) : list need :=
  match f with Id s => if String.eqb s "NewType" then [FromImport "typing" "NewType"] else [] | _ => [] end.
Definition dec_need (d : string) : list need :=
  if String.eqb d "abstractmethod" then [FromImport "abc" "abstractmethod"] else [].
Definition un_need (o : cun) : list need := match o with CuSqrt => [PlainImport "math"] | _ => [] end.
Definition oneeds {X} (f : X -> list need) (o : option X) : list need :=
  match o with Some x => f x | None => [] end.

Fixpoint needs (c : core) : list need :=
  match c with
  | Import f im al => oneeds needs f ++ flat_map needs im ++ flat_map needs al
  | ClassDef name ps body => flat_map parent_need ps ++ needs name ++ flat_map needs ps ++ needs body
  | FunctionCall f args => call_need f ++ needs f ++ flat_map needs args
  | PropertyCall o p => needs o ++ needs p
  | Id _ => []
  | Type_ lit gs => type_need lit ++ flat_map needs gs
  | ExpressionType e t => needs e ++ needs t
  | Assign l r _ => needs l ++ needs r
  | VarDef v t e => needs v ++ oneeds needs t ++ oneeds needs e
  | FunDefOp _ arg t b => flat_map needs arg ++ oneeds needs t ++ needs b
  | FunDef dec _ arg t b => flat_map dec_need dec ++ flat_map needs arg ++ oneeds needs t ++ needs b
  | FunArg _ v t d => needs v ++ oneeds needs t ++ oneeds needs d
  | AnonFun args b => flat_map needs args ++ needs b
  | Block sts => flat_map needs sts
  | Float _ | Int _ | ENum _ _ | DocStr _ | Str _ | FStr _ | Bool _ => []
  | Tuple es | TupleLiteral es | Set_ es | List_ es => flat_map needs es
  | DictComprehension f t col conds => needs f ++ needs t ++ needs col ++ flat_map needs conds
  | Comprehension e col conds => needs e ++ needs col ++ flat_map needs conds
  | Dictionary els => flat_map (fun kv => needs (fst kv) ++ needs (snd kv)) els
  | Index i r => needs i ++ needs r
  | Bin _ l r => needs l ++ needs r
  | Un o e => un_need o ++ needs e
  | For e col b => needs e ++ needs col ++ needs b
  | If c t => needs c ++ needs t
  | IfElse c t e => needs c ++ needs t ++ needs e
  | Match e cases => needs e ++ flat_map needs cases
  | Case e b => needs e ++ needs b
  | Ternary c t e => needs c ++ needs t ++ needs e
  | KeyValue k v => needs k ++ needs v
  | While c b => needs c ++ needs b
  | Break | Continue | UnderScore | Pass | None_ | Empty => []
  | TryExcept s a ex => oneeds needs s ++ needs a ++ flat_map needs ex
  | ExceptId i cl b => needs i ++ needs cl ++ needs b
  | Except cl b => needs cl ++ needs b
  | With r e => needs r ++ needs e
  | WithAs r a e => needs r ++ needs a ++ needs e
  end.

Definition covers (i : imports) (L : list need) : Prop := forall n, In n L -> provides i n.

Lemma covers_mono i j L : ile i j -> typing_sep i -> covers i L -> covers j L.
Proof. intros H Hs Hc n Hn. apply H; [exact Hs | auto]. Qed.
Lemma covers_incl i L L' : incl L' L -> covers i L -> covers i L'.
Proof. intros H Hc n Hn. auto. Qed.
Lemma covers_app i L1 L2 : covers i (L1 ++ L2) <-> covers i L1 /\ covers i L2.
Proof.
  unfold covers. split.
  - intros H. split; intros n Hn; apply H; apply in_or_app; [left | right]; exact Hn.
  - intros [H1 H2] n Hn. apply in_app_or in Hn. destruct Hn; auto.
Qed.
Lemma covers_nil i : covers i [].
Proof. intros n []. Qed.

Lemma flat_map_incl {X Y} (f : X -> list Y) l L : (forall x, In x l -> incl (f x) L) -> incl (flat_map f l) L.
Proof.
  intros H y Hy. apply in_flat_map in Hy. destruct Hy as [x [Hx Hy]]. exact (H x Hx y Hy).
Qed.
Lemma incl_flat_map {X Y} (f : X -> list Y) l x : In x l -> incl (f x) (flat_map f l).
Proof. intros Hx y Hy. apply in_flat_map. exists x. split; assumption. Qed.

(** a parent of a class must not be the call of a type rendered [ABC] (its name would be captured) *)
Definition head_ok (c : core) : Prop :=
  match c with FunctionCall (Type_ lit _) _ => lit <> "ABC" | _ => True end.

(** ** Reserved spellings: the user's own type names *)

(** A type name is rendered through [concrete_to_python] without registering an import unless
    it is the tuple, callable or any type; it must therefore not be rendered as one of the
    [typing] spellings (with the generated table: it must not be [Optional] or [Union]). *)
Definition type_name_ok (name : string) : bool :=
  if String.eqb name n_tuple_m || String.eqb name n_callable_m then true
  else if existsb (String.eqb (concrete_to_python name)) typing_support
       then String.eqb name n_any_m && String.eqb (concrete_to_python name) n_any_py
       else true.
(** a called type or a parent with arguments must not be rendered [ABC] *)
Definition abc_ok (name : string) : bool := negb (String.eqb (concrete_to_python name) "ABC").

Fixpoint nm_ok (n : nm) : bool := match n with NM ts => forallb tn_ok ts end
with tn_ok (t : tn) : bool := match t with TN _ name gs => type_name_ok name && forallb nm_ok gs end.
Definition onm_ok (o : option nm) : bool := match o with Some n => nm_ok n | None => true end.

Fixpoint reserved_free (a : ast) : bool :=
  match a with
  | A ty n =>
      let ro (o : option ast) : bool := match o with Some x => reserved_free x | None => true end in
      onm_ok ty &&
      match n with
      | NBin _ l r => reserved_free l && reserved_free r
      | NUn _ e => reserved_free e
      | NTuple es | NList es | NSet es | NBlock es => forallb reserved_free es
      | NIndex i r => reserved_free i && reserved_free r
      | NRange f t _ s | NSlice f t _ s => reserved_free f && reserved_free t && ro s
      | NCall name gs args => tn_ok (TN false name gs) && abc_ok name && forallb reserved_free args
      | NProp i p => reserved_free i && reserved_free p
      | NAnonFun args b => forallb reserved_free args && reserved_free b
      | NExprType e ety => reserved_free e && onm_ok ety
      | NVarDef v vty e => reserved_free v && onm_ok vty && ro e
      | NReassign l r _ => reserved_free l && reserved_free r
      | NFunDef i args ret b => reserved_free i && forallb reserved_free args && onm_ok ret && ro b
      | NFunArg _ v aty d => reserved_free v && onm_ok aty && ro d
      | NReturn e | NRaise e => reserved_free e
      | NIfElse c t e => reserved_free c && reserved_free t && ro e
      | NMatch c cs | NHandle c cs => reserved_free c && forallb reserved_free cs
      | NCase c b | NWhile c b => reserved_free c && reserved_free b
      | NFor e c b => reserved_free e && reserved_free c && reserved_free b
      | NImport f i al => ro f && forallb reserved_free i && forallb reserved_free al
      | NClass name gs args ps b =>
          tn_ok (TN false name gs) && forallb reserved_free args && forallb reserved_free ps && ro b
      | NParent name gs args =>
          tn_ok (TN false name gs) && (match args with [] => true | _ => abc_ok name end)
          && forallb reserved_free args
      | NTypeDef name gs isa b _ => tn_ok (TN false name gs) && onm_ok isa && ro b
      | NTypeAlias _ _ isa => nm_ok isa
      | NDict es => forallb (fun kv => reserved_free (fst kv) && reserved_free (snd kv)) es
      | NListBuilder i cs | NSetBuilder i cs => reserved_free i && forallb reserved_free cs
      | NDictBuilder f t cs => reserved_free f && reserved_free t && forallb reserved_free cs
      | NWith r al b => reserved_free r && ro al && reserved_free b
      | _ => true
      end
  end.

Definition rfo (o : option ast) : bool := match o with Some x => reserved_free x | None => true end.

Lemma rf_unfold ty n :
  reserved_free (A ty n) =
  onm_ok ty &&
  match n with
  | NBin _ l r => reserved_free l && reserved_free r
  | NUn _ e => reserved_free e
  | NTuple es | NList es | NSet es | NBlock es => forallb reserved_free es
  | NIndex i r => reserved_free i && reserved_free r
  | NRange f t _ s | NSlice f t _ s => reserved_free f && reserved_free t && rfo s
  | NCall name gs args => tn_ok (TN false name gs) && abc_ok name && forallb reserved_free args
  | NProp i p => reserved_free i && reserved_free p
  | NAnonFun args b => forallb reserved_free args && reserved_free b
  | NExprType e ety => reserved_free e && onm_ok ety
  | NVarDef v vty e => reserved_free v && onm_ok vty && rfo e
  | NReassign l r _ => reserved_free l && reserved_free r
  | NFunDef i args ret b => reserved_free i && forallb reserved_free args && onm_ok ret && rfo b
  | NFunArg _ v aty d => reserved_free v && onm_ok aty && rfo d
  | NReturn e | NRaise e => reserved_free e
  | NIfElse c t e => reserved_free c && reserved_free t && rfo e
  | NMatch c cs | NHandle c cs => reserved_free c && forallb reserved_free cs
  | NCase c b | NWhile c b => reserved_free c && reserved_free b
  | NFor e c b => reserved_free e && reserved_free c && reserved_free b
  | NImport f i al => rfo f && forallb reserved_free i && forallb reserved_free al
  | NClass name gs args ps b =>
      tn_ok (TN false name gs) && forallb reserved_free args && forallb reserved_free ps && rfo b
  | NParent name gs args =>
      tn_ok (TN false name gs) && (match args with [] => true | _ => abc_ok name end)
      && forallb reserved_free args
  | NTypeDef name gs isa b _ => tn_ok (TN false name gs) && onm_ok isa && rfo b
  | NTypeAlias _ _ isa => nm_ok isa
  | NDict es => forallb (fun kv => reserved_free (fst kv) && reserved_free (snd kv)) es
  | NListBuilder i cs | NSetBuilder i cs => reserved_free i && forallb reserved_free cs
  | NDictBuilder f t cs => reserved_free f && reserved_free t && forallb reserved_free cs
  | NWith r al b => reserved_free r && rfo al && reserved_free b
  | _ => true
  end.
Proof. destruct n; reflexivity. Qed.

(** ** Rendering a type registers what the rendered type needs *)

Definition pcov {X} (f : imports -> X * imports) (nd : X -> list need) (V : X -> Prop) : Prop :=
  forall i, typing_sep i ->
    ile i (snd (f i)) /\ covers (snd (f i)) (nd (fst (f i))) /\ V (fst (f i)).

(** a rendered name is a type or nothing *)
Definition V_nm (c : core) : Prop := match c with Type_ _ _ | Empty => True | _ => False end.
(** a rendered class name is a type, spelled [ABC] only if the name itself is *)
Definition V_tn (name : string) (c : core) : Prop :=
  exists lit gs, c = Type_ lit gs /\ (lit = "ABC" -> concrete_to_python name = "ABC").

Lemma type_need_optional : type_need "Optional" = [FromImport "typing" "Optional"].
Proof. reflexivity. Qed.
Lemma type_need_union : type_need n_union_py = [FromImport "typing" n_union_py].
Proof. reflexivity. Qed.
Lemma type_need_tuple : type_need n_tuple_py = [FromImport "typing" n_tuple_py].
Proof. reflexivity. Qed.
Lemma type_need_callable : type_need n_callable_py = [FromImport "typing" n_callable_py].
Proof. reflexivity. Qed.
Lemma type_need_any : type_need n_any_py = [FromImport "typing" n_any_py].
Proof. reflexivity. Qed.

Lemma covers_one_from i f x j : typing_sep (add_from_import f x i) -> ile (add_from_import f x i) j ->
  covers j [FromImport f x].
Proof.
  intros Hs Hle n [<-|[]]. apply Hle; [exact Hs|]. apply add_from_import_provides.
Qed.

Lemma Forall_ok {X} (ok : X -> bool) (P : X -> Prop) l :
  Forall (fun x => ok x = true -> P x) l -> forallb ok l = true -> Forall P l.
Proof.
  induction 1 as [|x l Hx _ IH]; intros H; [constructor|]. cbn [forallb] in H. apply andb_prop in H.
  destruct H as [H1 H2]. constructor; auto.
Qed.

Lemma nms_cov gs :
  Forall (fun g => pcov (nm_to_py g) needs V_nm) gs -> pcov (nms_to_py gs) (flat_map needs) (fun _ => True).
Proof.
  induction 1 as [|g gs Hg _ IH]; intros i Hs.
  - cbn [nms_to_py fst snd flat_map]. split; [apply ile_refl|]. split; [apply covers_nil | exact I].
  - cbn [nms_to_py]. fold nms_to_py. destruct (Hg i Hs) as (H1 & H2 & _).
    destruct (nm_to_py g i) as [c i']. cbn [fst snd] in *.
    assert (Hs' : typing_sep i') by (apply H1; exact Hs).
    destruct (IH i' Hs') as (K1 & K2 & _). destruct (nms_to_py gs i') as [cs i'']. cbn [fst snd] in *.
    split; [eapply ile_trans; eassumption|]. split; [|exact I].
    cbn [flat_map]. apply covers_app. split; [|exact K2]. eapply covers_mono; eassumption.
Qed.

Lemma tns_cov ts :
  Forall (fun t => pcov (tn_to_py t) needs (fun _ => True)) ts -> pcov (tns_to_py ts) (flat_map needs) (fun _ => True).
Proof.
  induction 1 as [|g gs Hg _ IH]; intros i Hs.
  - cbn [tns_to_py fst snd flat_map]. split; [apply ile_refl|]. split; [apply covers_nil | exact I].
  - cbn [tns_to_py]. fold tns_to_py. destruct (Hg i Hs) as (H1 & H2 & _).
    destruct (tn_to_py g i) as [c i']. cbn [fst snd] in *.
    assert (Hs' : typing_sep i') by (apply H1; exact Hs).
    destruct (IH i' Hs') as (K1 & K2 & _). destruct (tns_to_py gs i') as [cs i'']. cbn [fst snd] in *.
    split; [eapply ile_trans; eassumption|]. split; [|exact I].
    cbn [flat_map]. apply covers_app. split; [|exact K2]. eapply covers_mono; eassumption.
Qed.

Definition tn_variant (name : string) (generics : list nm) (i : imports) : core * imports :=
  if String.eqb name n_tuple_m then
    let i1 := add_from_import "typing" n_tuple_py i in
    let '(gs, i2) := nms_to_py generics i1 in (Type_ n_tuple_py gs, i2)
  else if String.eqb name n_callable_m then
    let i1 := add_from_import "typing" n_callable_py i in
    match generics with
    | a :: r :: _ =>
        let '(ca, i2) := nm_to_py a i1 in let '(cr, i3) := nm_to_py r i2 in
        (Type_ n_callable_py [ca; cr], i3)
    | [a] => let '(ca, i2) := nm_to_py a i1 in (Type_ n_callable_py [ca; Empty], i2)
    | [] => (Type_ n_callable_py [Empty; Empty], i1)
    end
  else
    let i1 := if String.eqb name n_any_m then add_from_import "typing" n_any_py i else i in
    let '(gs, i2) := nms_to_py generics i1 in (Type_ (concrete_to_python name) gs, i2).

Lemma tn_to_py_variant nullable name generics i :
  tn_to_py (TN nullable name generics) i =
  if nullable then
    let i1 := add_from_import "typing" "Optional" i in
    let '(c, i2) := tn_variant name generics i1 in (Type_ "Optional" [c], i2)
  else tn_variant name generics i.
Proof. reflexivity. Qed.

Lemma variant_cov name gs :
  type_name_ok name = true -> Forall (fun g => pcov (nm_to_py g) needs V_nm) gs ->
  pcov (tn_variant name gs) needs (V_tn name).
Proof.
  intros Hok H i Hs. unfold tn_variant, type_name_ok in *.
  destruct (String.eqb name n_tuple_m) eqn:Et.
  - (* tuple *)
    cbv zeta. set (i1 := add_from_import "typing" n_tuple_py i).
    assert (Hs1 : typing_sep i1) by (apply add_from_import_sep; exact Hs).
    destruct (nms_cov gs H i1 Hs1) as (K1 & K2 & _). destruct (nms_to_py gs i1) as [g2 i2]. cbn [fst snd] in *.
    split; [eapply ile_trans; [apply add_from_import_ile | exact K1]|]. split.
    + cbn [needs]. rewrite type_need_tuple. apply covers_app. split; [|exact K2].
      eapply covers_one_from; eassumption.
    + exists n_tuple_py, g2. split; [reflexivity|]. intros E. discriminate E.
  - cbn [orb] in Hok. destruct (String.eqb name n_callable_m) eqn:Ec.
    + (* callable *)
      cbv zeta. set (i1 := add_from_import "typing" n_callable_py i).
      assert (Hs1 : typing_sep i1) by (apply add_from_import_sep; exact Hs).
      assert (Hi1 : ile i i1) by apply add_from_import_ile.
      assert (Hv : forall g, V_tn name (Type_ n_callable_py g)).
      { intros g. exists n_callable_py, g. split; [reflexivity|]. intros E. discriminate E. }
      destruct gs as [|a [|r rest]].
      * cbn [fst snd]. split; [exact Hi1|]. split; [|apply Hv].
        cbn [needs flat_map app]. rewrite type_need_callable, app_nil_r.
        eapply covers_one_from; [exact Hs1 | apply ile_refl].
      * inversion H as [|? ? Ha _]; subst. destruct (Ha i1 Hs1) as (K1 & K2 & _).
        destruct (nm_to_py a i1) as [ca i2]. cbn [fst snd] in *.
        split; [eapply ile_trans; eassumption|]. split; [|apply Hv].
        cbn [needs flat_map app]. rewrite type_need_callable, app_nil_r. apply covers_app. split; [|exact K2].
        eapply covers_one_from; eassumption.
      * inversion H as [|? ? Ha Hrest]; subst. inversion Hrest as [|? ? Hr _]; subst.
        destruct (Ha i1 Hs1) as (K1 & K2 & _). destruct (nm_to_py a i1) as [ca i2]. cbn [fst snd] in *.
        assert (Hs2 : typing_sep i2) by (apply K1; exact Hs1).
        destruct (Hr i2 Hs2) as (M1 & M2 & _). destruct (nm_to_py r i2) as [cr i3]. cbn [fst snd] in *.
        split; [eapply ile_trans; [exact Hi1 | eapply ile_trans; eassumption]|]. split; [|apply Hv].
        cbn [needs flat_map app]. rewrite type_need_callable, app_nil_r. apply covers_app. split.
        -- eapply covers_one_from; [exact Hs1 | eapply ile_trans; eassumption].
        -- apply covers_app. split; [eapply covers_mono; eassumption | exact M2].
    + (* a class name *)
      cbv zeta. set (i1 := if String.eqb name n_any_m then add_from_import "typing" n_any_py i else i).
      assert (Hi1 : ile i i1) by (subst i1; destruct (String.eqb name n_any_m); [apply add_from_import_ile | apply ile_refl]).
      assert (Hs1 : typing_sep i1) by (apply Hi1; exact Hs).
      destruct (nms_cov gs H i1 Hs1) as (K1 & K2 & _). destruct (nms_to_py gs i1) as [g2 i2]. cbn [fst snd] in *.
      split; [eapply ile_trans; eassumption|]. split.
      * cbn [needs]. apply covers_app. split; [|exact K2]. unfold type_need.
        destruct (existsb (String.eqb (concrete_to_python name)) typing_support); [|apply covers_nil].
        apply andb_prop in Hok. destruct Hok as [Ha Hb]. apply String.eqb_eq in Hb. rewrite Hb.
        subst i1. rewrite Ha in *. eapply covers_one_from; eassumption.
      * exists (concrete_to_python name), g2. split; [reflexivity | auto].
Qed.

Lemma V_tn_nm name c : V_tn name c -> V_nm c.
Proof. intros (lit & gs & -> & _). exact I. Qed.

Lemma nm_tn_cov :
  (forall n, nm_ok n = true -> pcov (nm_to_py n) needs V_nm) /\
  (forall t, tn_ok t = true -> pcov (tn_to_py t) needs (match t with TN _ name _ => V_tn name end)).
Proof.
  assert (G : forall n, nm_ok n = true -> pcov (nm_to_py n) needs V_nm).
  { apply (nm_ind2 (fun n => nm_ok n = true -> pcov (nm_to_py n) needs V_nm)
                   (fun t => tn_ok t = true -> pcov (tn_to_py t) needs (match t with TN _ name _ => V_tn name end))).
    - intros ms H Hok i Hs. cbn [nm_ok] in Hok. rewrite nm_to_py_unfold.
      pose proof (Forall_ok _ _ _ H Hok) as HF. destruct ms as [|t [|t2 r]].
      + cbn [fst snd needs]. split; [apply ile_refl|]. split; [apply covers_nil | exact I].
      + inversion HF as [|? ? Ht _]; subst. destruct (Ht i Hs) as (K1 & K2 & K3).
        split; [exact K1|]. split; [exact K2|]. destruct t as [b name gs]. eapply V_tn_nm; exact K3.
      + cbv zeta. set (i1 := add_from_import "typing" n_union_py i).
        assert (Hs1 : typing_sep i1) by (apply add_from_import_sep; exact Hs).
        assert (HF' : Forall (fun t => pcov (tn_to_py t) needs (fun _ => True)) (t :: t2 :: r)).
        { eapply Forall_impl; [|exact HF]. intros t0 Ht0 j Hj. destruct (Ht0 j Hj) as (A1 & A2 & _). auto. }
        destruct (tns_cov _ HF' i1 Hs1) as (K1 & K2 & _).
        destruct (tns_to_py (t :: t2 :: r) i1) as [gs i2]. cbn [fst snd] in *.
        split; [eapply ile_trans; [apply add_from_import_ile | exact K1]|]. split; [|exact I].
        cbn [needs]. rewrite type_need_union. apply covers_app. split; [|exact K2].
        eapply covers_one_from; eassumption.
    - intros b name gs H Hok i Hs. cbn [tn_ok] in Hok. apply andb_prop in Hok. destruct Hok as [Hname Hgs].
      pose proof (Forall_ok _ _ _ H Hgs) as HF. rewrite tn_to_py_variant. destruct b.
      + cbv zeta. set (i1 := add_from_import "typing" "Optional" i).
        assert (Hs1 : typing_sep i1) by (apply add_from_import_sep; exact Hs).
        destruct (variant_cov name gs Hname HF i1 Hs1) as (K1 & K2 & K3).
        destruct (tn_variant name gs i1) as [c i2]. cbn [fst snd] in *.
        split; [eapply ile_trans; [apply add_from_import_ile | exact K1]|]. split.
        * cbn [needs flat_map]. rewrite type_need_optional, app_nil_r. apply covers_app. split; [|exact K2].
          eapply covers_one_from; eassumption.
        * exists "Optional", [c]. split; [reflexivity|]. intros E. discriminate E.
      + apply variant_cov; assumption. }
  split; [exact G|]. intros t Hok i Hs. destruct t as [b name gs].
  assert (Hn : nm_ok (NM [TN b name gs]) = true) by (cbn [nm_ok forallb]; rewrite Hok; reflexivity).
  pose proof (G _ Hn i Hs) as (K1 & K2 & _). rewrite nm_to_py_unfold in K1, K2.
  split; [exact K1|]. split; [exact K2|].
  (* the shape of the result *)
  cbn [tn_ok] in Hok. apply andb_prop in Hok. destruct Hok as [Hname Hgs].
  rewrite tn_to_py_variant. destruct b.
  - cbv zeta. destruct (tn_variant name gs _) as [c i2]. cbn [fst]. exists "Optional", [c].
    split; [reflexivity|]. intros E. discriminate E.
  - unfold tn_variant. destruct (String.eqb name n_tuple_m).
    + cbv zeta. destruct (nms_to_py gs _) as [g2 i2]. exists n_tuple_py, g2. split; [reflexivity|]. intros E; discriminate E.
    + destruct (String.eqb name n_callable_m).
      * cbv zeta. destruct gs as [|a [|r rest]].
        -- eexists _, _. split; [reflexivity|]. intros E; discriminate E.
        -- destruct (nm_to_py a _) as [ca i2]. eexists _, _. split; [reflexivity|]. intros E; discriminate E.
        -- destruct (nm_to_py a _) as [ca i2]. destruct (nm_to_py r i2) as [cr i3].
           eexists _, _. split; [reflexivity|]. intros E; discriminate E.
      * cbv zeta. destruct (nms_to_py gs _) as [g2 i2]. eexists _, _. split; [reflexivity | auto].
Qed.

Definition nm_cov := proj1 nm_tn_cov.
Lemma tn_cov name gs : tn_ok (TN false name gs) = true -> pcov (tn_to_py (TN false name gs)) needs (V_tn name).
Proof. intros H. exact (proj2 nm_tn_cov (TN false name gs) H). Qed.

(** ** [append_ret] adds no need *)

Lemma needs_block l : needs (Block l) = flat_map needs l. Proof. reflexivity. Qed.

Lemma flat_map_replace_last (f : core -> core) l L :
  (forall x, In x l -> incl (needs (f x)) L) -> (forall x, In x l -> incl (needs x) L) ->
  incl (flat_map needs (replace_last f l)) L.
Proof.
  induction l as [|x l IH]; intros Hf Hx; [intros n []|]. cbn [replace_last]. destruct l as [|y l].
  - cbn [flat_map]. rewrite app_nil_r. apply Hf. left. reflexivity.
  - cbn [flat_map]. apply incl_app; [apply Hx; left; reflexivity|].
    apply IH; intros z Hz; [apply Hf | apply Hx]; right; exact Hz.
Qed.

Lemma needs_append_ret_n n : forall c, csize c <= n -> incl (needs (append_ret c)) (needs c).
Proof.
  induction n as [|n IH]; intros c Hn; [destruct c; cbn in Hn; lia|].
  assert (Hl : forall l, csizes l <= n -> forall y, In y l -> incl (needs (append_ret y)) (needs y)).
  { intros l Hs y Hy. apply IH. pose proof (csizes_in y l Hy). lia. }
  destruct c; try apply incl_refl;
    try (match goal with o : cun |- _ => destruct o; cbn [append_ret skip_return]; try apply incl_refl end);
    try (cbn [append_ret skip_return needs un_need app]; apply incl_refl);
    cbn [csize] in Hn; fold (csizes) in Hn.
  - (* Block *)
    match goal with |- context [Block ?l] => destruct l as [|x l'] end; [cbn; apply incl_refl|].
    rewrite append_ret_block, !needs_block.
    assert (Hs : csizes (x :: l') <= n) by (unfold csizes; cbn [fold_right] in *; lia).
    apply flat_map_replace_last.
    + intros y Hy. eapply incl_tran; [apply (Hl _ Hs y Hy) | apply incl_flat_map; exact Hy].
    + intros y Hy. apply incl_flat_map; exact Hy.
  - (* IfElse *)
    cbn [append_ret needs]. apply incl_app; [apply incl_appl, incl_refl|]. apply incl_appr.
    apply incl_app; [apply incl_appl | apply incl_appr]; apply IH; lia.
  - (* Match *)
    cbn [append_ret needs]. apply incl_app; [apply incl_appl, incl_refl|]. apply incl_appr.
    assert (Hs : csizes cases <= n) by (unfold csizes; lia).
    apply flat_map_incl. intros y Hy. apply in_map_iff in Hy. destruct Hy as [z [<- Hz]].
    eapply incl_tran; [apply (Hl _ Hs z Hz) | apply incl_flat_map; exact Hz].
  - (* Case *)
    cbn [append_ret needs]. apply incl_app; [apply incl_appl, incl_refl|]. apply incl_appr. apply IH; lia.
  - (* TryExcept *)
    cbn [append_ret needs]. apply incl_app; [apply incl_appl, incl_refl|]. apply incl_appr.
    apply incl_app; [apply incl_appl; apply IH; lia|]. apply incl_appr.
    assert (Hs : csizes except <= n) by (unfold csizes; lia).
    apply flat_map_incl. intros y Hy. apply in_map_iff in Hy. destruct Hy as [z [<- Hz]].
    eapply incl_tran; [apply (Hl _ Hs z Hz) | apply incl_flat_map; exact Hz].
  - cbn [append_ret needs]. apply incl_app; [apply incl_appl, incl_refl|]. apply incl_appr.
    apply incl_app; [apply incl_appl, incl_refl|]. apply incl_appr. apply IH; lia.
  - cbn [append_ret needs]. apply incl_app; [apply incl_appl, incl_refl|]. apply incl_appr. apply IH; lia.
Qed.

Lemma needs_append_ret c : incl (needs (append_ret c)) (needs c).
Proof. apply (needs_append_ret_n (csize c)). lia. Qed.

Lemma head_append_ret c : head_ok c -> head_ok (append_ret c).
Proof.
  intros H. destruct c; try exact I; try exact H.
  - match goal with |- context [Block ?l] => destruct l end; exact I.
  - match goal with o : cun |- _ => destruct o end; exact I.
Qed.

(** ** [append_assign] registers the annotation it inserts *)

Definition fcov (L : list need) (f : core -> imports -> core * imports) (y : core) : Prop :=
  forall i, typing_sep i -> covers i L ->
    ile i (snd (f y i)) /\ covers (snd (f y i)) (needs (fst (f y i))).

Lemma smap_cov L f l :
  (forall y, In y l -> fcov L f y) ->
  forall i, typing_sep i -> covers i L ->
    ile i (snd (smap f l i)) /\ covers (snd (smap f l i)) (flat_map needs (fst (smap f l i))).
Proof.
  induction l as [|x l IH]; intros H i Hs Hc; [cbn; split; [apply ile_refl | apply covers_nil]|].
  cbn [smap]. destruct (H x (or_introl eq_refl) i Hs Hc) as [K1 K2]. destruct (f x i) as [y i1].
  cbn [fst snd] in *. assert (Hs1 : typing_sep i1) by (apply K1; exact Hs).
  assert (Hc1 : covers i1 L) by (eapply covers_mono; eassumption).
  destruct (IH (fun z Hz => H z (or_intror Hz)) i1 Hs1 Hc1) as [M1 M2]. destruct (smap f l i1) as [ys i2].
  cbn [fst snd flat_map] in *. split; [eapply ile_trans; eassumption|].
  apply covers_app. split; [eapply covers_mono; eassumption | exact M2].
Qed.

Lemma smap_last_cov L f l :
  (forall y, In y l -> fcov L f y) -> incl (flat_map needs l) L ->
  forall i, typing_sep i -> covers i L ->
    ile i (snd (smap_last f l i)) /\ covers (snd (smap_last f l i)) (flat_map needs (fst (smap_last f l i))).
Proof.
  induction l as [|x l IH]; intros H Hin i Hs Hc; [cbn; split; [apply ile_refl | apply covers_nil]|].
  cbn [smap_last]. destruct l as [|x2 l].
  - destruct (H x (or_introl eq_refl) i Hs Hc) as [K1 K2]. destruct (f x i) as [y i1]. cbn [fst snd flat_map] in *.
    split; [exact K1|]. rewrite app_nil_r. exact K2.
  - cbn [flat_map] in Hin. assert (Hin' : incl (flat_map needs (x2 :: l)) L).
    { intros n Hn. apply Hin. apply in_or_app. right. exact Hn. }
    destruct (IH (fun z Hz => H z (or_intror Hz)) Hin' i Hs Hc) as [M1 M2].
    destruct (smap_last f (x2 :: l) i) as [ys i1]. cbn [fst snd] in *. split; [exact M1|].
    cbn [flat_map]. apply covers_app. split; [|exact M2].
    eapply covers_mono; [exact M1 | exact Hs|]. eapply covers_incl; [|exact Hc].
    intros n Hn. apply Hin. apply in_or_app. left. exact Hn.
Qed.

Lemma assign_leaf_cov L t n c :
  onm_ok n = true -> incl (needs t) L -> incl (needs c) L -> fcov L (assign_leaf t n) c.
Proof.
  intros Hn Ht Hcn i Hs Hc. unfold assign_leaf. destruct (skip_assign c).
  - cbn [fst snd]. split; [apply ile_refl|]. eapply covers_incl; eassumption.
  - destruct n as [n|].
    + destruct (nm_cov n Hn i Hs) as (K1 & K2 & _). destruct (nm_to_py n i) as [ty i']. cbn [fst snd] in *.
      split; [exact K1|]. cbn [needs oneeds]. apply covers_app. split.
      * eapply covers_mono; [exact K1 | exact Hs|]. eapply covers_incl; eassumption.
      * apply covers_app. split; [exact K2|]. eapply covers_mono; [exact K1 | exact Hs|]. eapply covers_incl; eassumption.
    + cbn [fst snd needs oneeds app]. split; [apply ile_refl|]. apply covers_app. split; eapply covers_incl; eassumption.
Qed.

Lemma append_assign_cov_n k : forall L t n c, csize c <= k ->
  onm_ok n = true -> incl (needs t) L -> incl (needs c) L -> fcov L (append_assign t n) c.
Proof.
  induction k as [|k IH]; intros L t n c Hk Hn Ht Hcn; [destruct c; cbn in Hk; lia|].
  assert (Hl : forall l, csizes l <= k -> incl (flat_map needs l) L ->
                 forall y, In y l -> fcov L (append_assign t n) y).
  { intros l Hs Hin y Hy. apply IH; try assumption; [pose proof (csizes_in y l Hy); lia|].
    eapply incl_tran; [apply incl_flat_map; exact Hy | exact Hin]. }
  destruct c;
    try (change (fcov L (assign_leaf t n) ?c); apply assign_leaf_cov; assumption);
    try (match goal with |- fcov L (append_assign t n) ?c =>
           change (fcov L (assign_leaf t n) c); apply assign_leaf_cov; assumption end);
    cbn [csize] in Hk; fold (csizes) in Hk; intros i Hs Hc.
  - (* Block *)
    match goal with |- context [Block ?l] => destruct l as [|x l'] end.
    { cbn [append_assign fst snd needs flat_map]. split; [apply ile_refl | apply covers_nil]. }
    rewrite append_assign_block.
    assert (Hsz : csizes (x :: l') <= k) by (unfold csizes; cbn [fold_right] in *; lia).
    rewrite needs_block in Hcn.
    destruct (smap_last_cov L (append_assign t n) (x :: l') (Hl _ Hsz Hcn) Hcn i Hs Hc) as [M1 M2].
    destruct (smap_last (append_assign t n) (x :: l') i) as [sts' i']. cbn [fst snd] in *.
    split; [exact M1 | rewrite needs_block; exact M2].
  - (* IfElse *)
    cbn [append_assign]. cbn [needs] in Hcn.
    assert (H1 : incl (needs c1) L) by (intros x Hx; apply Hcn; apply in_or_app; left; exact Hx).
    assert (H2 : incl (needs c2) L) by (intros x Hx; apply Hcn; apply in_or_app; right; apply in_or_app; left; exact Hx).
    assert (H3 : incl (needs c3) L) by (intros x Hx; apply Hcn; apply in_or_app; right; apply in_or_app; right; exact Hx).
    destruct (IH L t n c2 ltac:(lia) Hn Ht H2 i Hs Hc) as [K1 K2].
    destruct (append_assign t n c2 i) as [t' i1]. cbn [fst snd] in *.
    assert (Hs1 : typing_sep i1) by (apply K1; exact Hs).
    assert (Hc1 : covers i1 L) by (eapply covers_mono; eassumption).
    destruct (IH L t n c3 ltac:(lia) Hn Ht H3 i1 Hs1 Hc1) as [M1 M2].
    destruct (append_assign t n c3 i1) as [e' i2]. cbn [fst snd] in *.
    split; [eapply ile_trans; eassumption|]. cbn [needs]. apply covers_app. split.
    + eapply covers_mono; [exact M1 | exact Hs1|]. eapply covers_incl; eassumption.
    + apply covers_app. split; [eapply covers_mono; eassumption | exact M2].
  - (* Match *)
    cbn [append_assign]. cbn [needs] in Hcn.
    assert (H1 : incl (needs c) L) by (intros x Hx; apply Hcn; apply in_or_app; left; exact Hx).
    assert (H2 : incl (flat_map needs cases) L) by (intros x Hx; apply Hcn; apply in_or_app; right; exact Hx).
    assert (Hsz : csizes cases <= k) by (unfold csizes; lia).
    destruct (smap_cov L (append_assign t n) cases (Hl _ Hsz H2) i Hs Hc) as [M1 M2].
    destruct (smap (append_assign t n) cases i) as [cs i']. cbn [fst snd] in *.
    split; [exact M1|]. cbn [needs]. apply covers_app. split; [|exact M2].
    eapply covers_mono; [exact M1 | exact Hs|]. eapply covers_incl; eassumption.
  - (* Case *)
    cbn [append_assign]. cbn [needs] in Hcn.
    assert (H1 : incl (needs c1) L) by (intros x Hx; apply Hcn; apply in_or_app; left; exact Hx).
    assert (H2 : incl (needs c2) L) by (intros x Hx; apply Hcn; apply in_or_app; right; exact Hx).
    destruct (IH L t n c2 ltac:(lia) Hn Ht H2 i Hs Hc) as [K1 K2].
    destruct (append_assign t n c2 i) as [b' i1]. cbn [fst snd] in *.
    split; [exact K1|]. cbn [needs]. apply covers_app. split; [|exact K2].
    eapply covers_mono; [exact K1 | exact Hs|]. eapply covers_incl; eassumption.
  - (* TryExcept *)
    cbn [append_assign]. cbn [needs] in Hcn.
    assert (H1 : incl (oneeds needs setup) L) by (intros x Hx; apply Hcn; apply in_or_app; left; exact Hx).
    assert (H2 : incl (needs c) L) by (intros x Hx; apply Hcn; apply in_or_app; right; apply in_or_app; left; exact Hx).
    assert (H3 : incl (flat_map needs except) L)
      by (intros x Hx; apply Hcn; apply in_or_app; right; apply in_or_app; right; exact Hx).
    destruct (IH L t n c ltac:(lia) Hn Ht H2 i Hs Hc) as [K1 K2].
    destruct (append_assign t n c i) as [a' i1]. cbn [fst snd] in *.
    assert (Hs1 : typing_sep i1) by (apply K1; exact Hs).
    assert (Hc1 : covers i1 L) by (eapply covers_mono; eassumption).
    assert (Hsz : csizes except <= k) by (unfold csizes; lia).
    destruct (smap_cov L (append_assign t n) except (Hl _ Hsz H3) i1 Hs1 Hc1) as [M1 M2].
    destruct (smap (append_assign t n) except i1) as [ex' i2]. cbn [fst snd] in *.
    split; [eapply ile_trans; eassumption|]. cbn [needs]. apply covers_app. split.
    + eapply covers_mono; [exact M1 | exact Hs1|]. eapply covers_incl; eassumption.
    + apply covers_app. split; [eapply covers_mono; eassumption | exact M2].
  - (* ExceptId *)
    cbn [append_assign]. cbn [needs] in Hcn.
    assert (H1 : incl (needs c1) L) by (intros x Hx; apply Hcn; apply in_or_app; left; exact Hx).
    assert (H2 : incl (needs c2) L) by (intros x Hx; apply Hcn; apply in_or_app; right; apply in_or_app; left; exact Hx).
    assert (H3 : incl (needs c3) L) by (intros x Hx; apply Hcn; apply in_or_app; right; apply in_or_app; right; exact Hx).
    destruct (IH L t n c3 ltac:(lia) Hn Ht H3 i Hs Hc) as [K1 K2].
    destruct (append_assign t n c3 i) as [b' i1]. cbn [fst snd] in *.
    split; [exact K1|]. cbn [needs]. apply covers_app. split.
    + eapply covers_mono; [exact K1 | exact Hs|]. eapply covers_incl; eassumption.
    + apply covers_app. split; [|exact K2]. eapply covers_mono; [exact K1 | exact Hs|]. eapply covers_incl; eassumption.
  - (* Except *)
    cbn [append_assign]. cbn [needs] in Hcn.
    assert (H1 : incl (needs c1) L) by (intros x Hx; apply Hcn; apply in_or_app; left; exact Hx).
    assert (H2 : incl (needs c2) L) by (intros x Hx; apply Hcn; apply in_or_app; right; exact Hx).
    destruct (IH L t n c2 ltac:(lia) Hn Ht H2 i Hs Hc) as [K1 K2].
    destruct (append_assign t n c2 i) as [b' i1]. cbn [fst snd] in *.
    split; [exact K1|]. cbn [needs]. apply covers_app. split; [|exact K2].
    eapply covers_mono; [exact K1 | exact Hs|]. eapply covers_incl; eassumption.
Qed.

Lemma append_assign_cov L t n c :
  onm_ok n = true -> incl (needs t) L -> incl (needs c) L -> fcov L (append_assign t n) c.
Proof. apply (append_assign_cov_n (csize c)). lia. Qed.

Lemma assign_leaf_head t n c i : head_ok c -> head_ok (fst (assign_leaf t n c i)).
Proof.
  intros H. unfold assign_leaf. destruct (skip_assign c); [exact H|].
  destruct n as [n|]; [destruct (nm_to_py n i)|]; exact I.
Qed.

Lemma append_assign_head t n c i : head_ok c -> head_ok (fst (append_assign t n c i)).
Proof.
  intros H.
  destruct c;
    try (match goal with |- head_ok (fst (append_assign t n ?c i)) =>
           change (append_assign t n c i) with (assign_leaf t n c i); apply assign_leaf_head; exact H end).
  - (* Block *) match goal with |- context [Block ?l] => destruct l as [|x l] end; [exact I|]. rewrite append_assign_block.
    destruct (smap_last _ _ _); exact I.
  - cbn [append_assign]. destruct (append_assign t n c2 i) as [t' i1]. destruct (append_assign t n c3 i1). exact I.
  - cbn [append_assign]. destruct (smap _ _ _). exact I.
  - cbn [append_assign]. destruct (append_assign t n c2 i). exact I.
  - cbn [append_assign]. destruct (append_assign t n c i) as [a' i1]. destruct (smap _ _ _). exact I.
  - cbn [append_assign]. destruct (append_assign t n c3 i). exact I.
  - cbn [append_assign]. destruct (append_assign t n c2 i). exact I.
Qed.
