(** The table regenerated from [src/generate/ast/mod.rs] equals the reference
    table the round-trip theorem is proved for.  Discharged by computation;
    this is the obligation that breaks when a [format!] template or the
    [operand] rule of the Rust printer changes. *)
From MambaModel Require Import model.PyExpr model.CoreExpr gen.PrinterTable.

Lemma generated_ok : table_ok generated = true.
Proof. vm_compute. reflexivity. Qed.
