(** * ProjectFs.v - lemmas about file names and the abstract file system of [model/Project.v] *)
From Coq Require Import List String Ascii Bool Arith Lia.
Import ListNotations.
From MambaModel Require Import model.Project.
Local Open Scope string_scope.
Local Open Scope list_scope.

(** ** Paths *)
Lemma path_eqb_true : forall p q, path_eqb p q = true <-> p = q.
Proof. intros p q. unfold path_eqb. destruct (path_eq_dec p q); split; congruence. Qed.

Lemma path_eqb_refl : forall p, path_eqb p p = true.
Proof. intro p. apply path_eqb_true. reflexivity. Qed.

Lemma path_eqb_false : forall p q, path_eqb p q = false <-> p <> q.
Proof. intros p q. unfold path_eqb. destruct (path_eq_dec p q); split; congruence. Qed.

Definition is_prefix (q p : path) : Prop := exists t, p = q ++ t.
Definition strict_prefix (q p : path) : Prop := exists c t, p = q ++ c :: t.

Lemma strict_is_prefix : forall q p, strict_prefix q p -> is_prefix q p.
Proof. intros q p (c & t & ->). exists (c :: t). reflexivity. Qed.

Lemma is_prefix_refl : forall p, is_prefix p p.
Proof. intro p. exists []. now rewrite app_nil_r. Qed.

Lemma is_prefix_trans : forall a b c, is_prefix a b -> is_prefix b c -> is_prefix a c.
Proof. intros a b c [t ->] [u ->]. exists (t ++ u). now rewrite app_assoc. Qed.

Lemma strip_spec : forall pre p r, strip pre p = Some r <-> p = pre ++ r.
Proof.
  induction pre as [|a pre IH]; intros p r; cbn [strip app].
  - split; [intros [= ->]; reflexivity | intros ->; reflexivity].
  - destruct p as [|b p]; [split; [discriminate | discriminate]|].
    destruct (String.eqb a b) eqn:E.
    + apply String.eqb_eq in E. subst b. rewrite IH. split; [intros ->; reflexivity | intros [= ->]; reflexivity].
    + apply String.eqb_neq in E. split; [discriminate | intros [= <- _]; congruence].
Qed.

Lemma strip_none : forall pre p, strip pre p = None <-> ~ is_prefix pre p.
Proof.
  intros pre p. split.
  - intros H [t Ht]. apply strip_spec in Ht. congruence.
  - intro H. destruct (strip pre p) eqn:E; [|reflexivity]. apply strip_spec in E. exfalso. apply H. now exists p0.
Qed.

(** two prefixes of one path are comparable *)
Lemma prefixes_comparable : forall a b p, is_prefix a p -> is_prefix b p -> is_prefix a b \/ is_prefix b a.
Proof.
  induction a as [|x a IH]; intros b p Ha Hb.
  - left. now exists b.
  - destruct b as [|y b]; [right; now exists (x :: a)|].
    destruct Ha as [t ->]. destruct Hb as [u Hu]. cbn in Hu. injection Hu as -> Hu.
    destruct (IH b (a ++ t)) as [[w ->]|[w ->]]; [now exists t | now exists u | |].
    + left. now exists w.
    + right. now exists w.
Qed.

Lemma under_spec : forall src p r, under src p = Some r <-> p = src ++ r /\ r <> [].
Proof.
  intros src p r. unfold under. destruct (strip src p) as [[|c t]|] eqn:E.
  - split; [discriminate|]. intros [-> Hr]. apply strip_spec in E.
    apply app_inv_head in E. congruence.
  - apply strip_spec in E. subst p. split.
    + intros [= <-]. split; [reflexivity | discriminate].
    + intros [H _]. apply app_inv_head in H. now subst r.
  - split; [discriminate|]. intros [-> _]. apply strip_none in E. exfalso. apply E. now exists r.
Qed.

Lemma under_none_of : forall src p, ~ is_prefix src p -> under src p = None.
Proof.
  intros src p H. destruct (under src p) eqn:E; [|reflexivity].
  apply under_spec in E. destruct E as [-> _]. exfalso. apply H. now exists p0.
Qed.

(** ** Strings *)
Lemma soa_app : forall a b, string_of_list_ascii (a ++ b) = (string_of_list_ascii a ++ string_of_list_ascii b)%string.
Proof. induction a as [|c a IH]; intro b; cbn; [reflexivity | now rewrite IH]. Qed.

Lemma aos_app : forall a b, list_ascii_of_string (a ++ b)%string = list_ascii_of_string a ++ list_ascii_of_string b.
Proof. induction a as [|c a IH]; intro b; cbn; [reflexivity | now rewrite IH]. Qed.

Lemma str_length_app : forall a b, String.length (a ++ b)%string = String.length a + String.length b.
Proof. induction a as [|c a IH]; intro b; cbn; [reflexivity | now rewrite IH]. Qed.

Lemma starts_spec : forall pre l, starts pre l = true -> exists t, l = pre ++ t.
Proof.
  induction pre as [|a pre IH]; intros l H; cbn in H.
  - now exists l.
  - destruct l as [|b l]; [discriminate|]. apply andb_true_iff in H. destruct H as [H1 H2].
    apply Ascii.eqb_eq in H1. subst b. destruct (IH _ H2) as [t ->]. now exists t.
Qed.

Lemma is_mamba_spec : forall n, is_mamba n = true -> exists s, n = (s ++ ".mamba")%string.
Proof.
  intros n H. unfold is_mamba in H. apply starts_spec in H. destruct H as [t Ht].
  exists (string_of_list_ascii (rev t)).
  rewrite <- (string_of_list_ascii_of_string n).
  unfold rev_s in Ht. apply (f_equal (@rev _)) in Ht. rewrite rev_involutive, rev_app_distr in Ht.
  rewrite Ht, soa_app. f_equal.
Qed.

Lemma with_ext_mamba : forall s, s <> "" -> with_extension_py (s ++ ".mamba")%string = (s ++ ".py")%string.
Proof.
  intros s Hs. unfold with_extension_py.
  destruct (String.eqb (s ++ ".mamba")%string "..") eqn:E.
  - apply String.eqb_eq in E. apply (f_equal String.length) in E.
    rewrite str_length_app in E. cbn in E. lia.
  - f_equal. unfold file_stem, rev_s. rewrite aos_app, rev_app_distr. cbn [list_ascii_of_string rev app].
    cbn [split_dot_rev Ascii.eqb dot]. cbn.
    destruct (rev (list_ascii_of_string s)) eqn:R.
    + exfalso. apply Hs. apply (f_equal (@rev _)) in R. rewrite rev_involutive in R. cbn in R.
      rewrite <- (string_of_list_ascii_of_string s), R. reflexivity.
    + rewrite <- R, rev_involutive. apply string_of_list_ascii_of_string.
Qed.

Lemma append_inv_tail : forall a b c, (a ++ c)%string = (b ++ c)%string -> a = b.
Proof.
  intros a b c H. apply (f_equal list_ascii_of_string) in H. rewrite !aos_app in H.
  apply app_inv_tail in H. apply (f_equal string_of_list_ascii) in H.
  now rewrite !string_of_list_ascii_of_string in H.
Qed.

(** [with_extension("py")] is injective on glob matches, EXCEPT for the name ".mamba", whose stem is
    the whole name: ".mamba" and ".mamba.mamba" both become ".mamba.py". *)
Lemma with_ext_name_inj : forall n1 n2,
  is_mamba n1 = true -> is_mamba n2 = true -> n1 <> ".mamba" -> n2 <> ".mamba" ->
  with_extension_py n1 = with_extension_py n2 -> n1 = n2.
Proof.
  intros n1 n2 H1 H2 N1 N2 E.
  apply is_mamba_spec in H1. apply is_mamba_spec in H2. destruct H1 as [s1 ->]. destruct H2 as [s2 ->].
  assert (s1 <> "") by (intros ->; now apply N1).
  assert (s2 <> "") by (intros ->; now apply N2).
  rewrite !with_ext_mamba in E by assumption. apply append_inv_tail in E. now subst.
Qed.

Lemma with_ext_path_inj : forall p1 p2,
  p1 <> [] -> p2 <> [] ->
  is_mamba (file_name p1) = true -> is_mamba (file_name p2) = true ->
  file_name p1 <> ".mamba" -> file_name p2 <> ".mamba" ->
  with_ext_path p1 = with_ext_path p2 -> p1 = p2.
Proof.
  intros p1 p2 E1 E2 M1 M2 N1 N2 H. unfold with_ext_path in H.
  destruct p1 as [|a p1]; [congruence|]. destruct p2 as [|b p2]; [congruence|].
  apply app_inj_tail in H. destruct H as [Hr Hl].
  apply with_ext_name_inj in Hl; try assumption.
  rewrite (app_removelast_last "" E1), (app_removelast_last "" E2). unfold file_name in *. now rewrite Hr, Hl.
Qed.

Lemma with_ext_path_nonempty : forall p, p <> [] -> with_ext_path p <> [].
Proof. intros [|a p] H; [congruence|]. unfold with_ext_path. intro E. now apply app_eq_nil in E. Qed.

Lemma with_ext_path_parent : forall p, p <> [] -> parent (with_ext_path p) = parent p.
Proof.
  intros [|a p] H; [congruence|]. unfold with_ext_path, parent. now rewrite removelast_last.
Qed.

Lemma parent_app : forall a r, r <> [] -> parent (a ++ r) = a ++ parent r.
Proof. intros a r H. unfold parent. now apply removelast_app. Qed.

Lemma parent_strict_prefix : forall p, p <> [] -> strict_prefix (parent p) p.
Proof.
  intros p H. exists (last p ""), []. unfold parent. now apply app_removelast_last.
Qed.

(** ** File system *)
Lemma get_set_same : forall fs p n, fs_get (fs_set fs p n) p = Some n.
Proof.
  induction fs as [|[q m] fs IH]; intros p n; cbn [fs_set fs_get].
  - now rewrite path_eqb_refl.
  - destruct (path_eqb q p) eqn:E; cbn [fs_get]; rewrite E; [reflexivity | apply IH].
Qed.

Lemma get_set_other : forall fs p q n, p <> q -> fs_get (fs_set fs p n) q = fs_get fs q.
Proof.
  induction fs as [|[r m] fs IH]; intros p q n H; cbn [fs_set fs_get].
  - apply path_eqb_false in H. now rewrite H.
  - destruct (path_eqb r p) eqn:E; cbn [fs_get].
    + apply path_eqb_true in E. subst r. apply path_eqb_false in H. now rewrite H.
    + destruct (path_eqb r q); [reflexivity | now apply IH].
Qed.

Lemma set_same_id : forall fs p n, fs_get fs p = Some n -> fs_set fs p n = fs.
Proof.
  induction fs as [|[q m] fs IH]; intros p n H; cbn [fs_set fs_get] in *; [discriminate|].
  destruct (path_eqb q p); [congruence | now rewrite IH].
Qed.

(** keys: [fs_set] keeps the key list duplicate free *)
Lemma set_keys : forall fs p n,
  map fst (fs_set fs p n) = map fst fs \/ (fs_get fs p = None /\ map fst (fs_set fs p n) = map fst fs ++ [p]).
Proof.
  induction fs as [|[q m] fs IH]; intros p n; cbn [fs_set fs_get map fst].
  - right. split; reflexivity.
  - destruct (path_eqb q p) eqn:E; cbn [map fst].
    + left. reflexivity.
    + destruct (IH p n) as [H|[H1 H2]]; [left; now rewrite H | right; split; [assumption | now rewrite H2]].
Qed.

Lemma get_none_not_in : forall fs p, fs_get fs p = None -> ~ In p (map fst fs).
Proof.
  induction fs as [|[q m] fs IH]; intros p H; cbn in *; [tauto|].
  destruct (path_eqb q p) eqn:E; [discriminate|]. apply path_eqb_false in E. intros [F|F]; [congruence | now apply (IH p)].
Qed.

Lemma nodup_snoc : forall (A : Type) (l : list A) x, NoDup l -> ~ In x l -> NoDup (l ++ [x]).
Proof.
  induction l as [|a l IH]; intros x H N; cbn.
  - constructor; [tauto | constructor].
  - inversion H; subst. constructor.
    + rewrite in_app_iff. cbn. intros [F|[F|[]]]; [tauto | subst; apply N; now left].
    + apply IH; [assumption | intro F; apply N; now right].
Qed.

Lemma set_nodup : forall fs p n, NoDup (map fst fs) -> NoDup (map fst (fs_set fs p n)).
Proof.
  intros fs p n H. destruct (set_keys fs p n) as [E|[E1 E2]]; [now rewrite E|].
  rewrite E2. apply nodup_snoc; [assumption | now apply get_none_not_in].
Qed.

(** ** Sequences of updates *)
Definition apply_ops (fs : FS) (ops : list (path * node)) : FS :=
  fold_left (fun f e => fs_set f (fst e) (snd e)) ops fs.

Lemma apply_ops_app : forall a b fs, apply_ops fs (a ++ b) = apply_ops (apply_ops fs a) b.
Proof. intros. unfold apply_ops. apply fold_left_app. Qed.

Lemma apply_ops_nodup : forall ops fs, NoDup (map fst fs) -> NoDup (map fst (apply_ops fs ops)).
Proof.
  induction ops as [|e ops IH]; intros fs H; cbn; [assumption|]. apply IH. now apply set_nodup.
Qed.

Definition glob_pick (src : path) (e : path * node) : list path :=
  match under src (fst e), snd e with
  | Some r, File _ => if is_mamba (file_name r) then [r] else []
  | _, _ => []
  end.

Lemma glob_mamba_eq : forall fs src, glob_mamba fs src = sort_paths (flat_map (glob_pick src) fs).
Proof. reflexivity. Qed.

Lemma pick_set : forall src fs p n, under src p = None ->
  flat_map (glob_pick src) (fs_set fs p n) = flat_map (glob_pick src) fs.
Proof.
  intros src. induction fs as [|[q m] fs IH]; intros p n H; cbn [fs_set flat_map].
  - unfold glob_pick. cbn [fst]. now rewrite H.
  - destruct (path_eqb q p) eqn:E; cbn [flat_map].
    + apply path_eqb_true in E. subst q. unfold glob_pick at 1 3. cbn [fst]. now rewrite H.
    + now rewrite IH.
Qed.

Lemma pick_ops : forall src ops fs, Forall (fun e => under src (fst e) = None) ops ->
  flat_map (glob_pick src) (apply_ops fs ops) = flat_map (glob_pick src) fs.
Proof.
  intros src. induction ops as [|e ops IH]; intros fs H; cbn; [reflexivity|].
  inversion H; subst. unfold apply_ops in IH. rewrite IH by assumption. now apply pick_set.
Qed.

Lemma get_ops_other : forall ops fs q, Forall (fun e => fst e <> q) ops -> fs_get (apply_ops fs ops) q = fs_get fs q.
Proof.
  induction ops as [|e ops IH]; intros fs q H; cbn; [reflexivity|]. inversion H; subst.
  unfold apply_ops in IH. rewrite IH by assumption. now apply get_set_other.
Qed.

(** ** create_dir_all *)
Definition changed_to_dir (fs fs' : FS) (q : path) : Prop := fs_get fs q = None /\ fs_get fs' q = Some Dir.

Lemma mkdirs_get : forall rest fs pre fs', mkdirs_from fs pre rest = Some fs' ->
  forall q, fs_get fs' q = fs_get fs q \/ (changed_to_dir fs fs' q /\ is_prefix q (pre ++ rest) /\ q <> []).
Proof.
  induction rest as [|c rest IH]; intros fs pre fs' H q; cbn [mkdirs_from] in H.
  - injection H as <-. now left.
  - assert (Eq : pre ++ c :: rest = (pre ++ [c]) ++ rest) by now rewrite <- app_assoc.
    destruct (fs_get fs (pre ++ [c])) as [[t|]|] eqn:G; [discriminate | |].
    + rewrite Eq. now apply IH.
    + destruct (IH _ _ _ H q) as [E|[[E1 E2] [E3 E4]]].
      * destruct (path_eq_dec (pre ++ [c]) q) as [<-|N].
        -- right. rewrite get_set_same in E. repeat split; try assumption.
           ++ rewrite Eq. now exists rest.
           ++ intro F. now apply app_eq_nil in F.
        -- left. rewrite E. now apply get_set_other.
      * destruct (path_eq_dec (pre ++ [c]) q) as [<-|N].
        -- now rewrite get_set_same in E1.
        -- right. rewrite get_set_other in E1 by assumption. rewrite Eq. repeat split; assumption.
Qed.

Lemma mkdirs_ops : forall rest fs pre fs', mkdirs_from fs pre rest = Some fs' ->
  exists ops, fs' = apply_ops fs ops /\ Forall (fun e => is_prefix (fst e) (pre ++ rest)) ops.
Proof.
  induction rest as [|c rest IH]; intros fs pre fs' H; cbn [mkdirs_from] in H.
  - injection H as <-. exists []. split; [reflexivity | constructor].
  - assert (Eq : pre ++ c :: rest = (pre ++ [c]) ++ rest) by now rewrite <- app_assoc.
    destruct (fs_get fs (pre ++ [c])) as [[t|]|] eqn:G; [discriminate | |].
    + rewrite Eq. now apply IH.
    + destruct (IH _ _ _ H) as (ops & -> & F). exists ((pre ++ [c], Dir) :: ops). split; [reflexivity|].
      rewrite Eq. constructor; [now exists rest | assumption].
Qed.

Fixpoint dirs_exist (fs : FS) (pre rest : path) : Prop :=
  match rest with
  | [] => True
  | c :: r => fs_get fs (pre ++ [c]) = Some Dir /\ dirs_exist fs (pre ++ [c]) r
  end.

Definition keeps_dirs (fs fs' : FS) : Prop := forall q, fs_get fs q = Some Dir -> fs_get fs' q = Some Dir.

Lemma keeps_dirs_refl : forall fs, keeps_dirs fs fs.
Proof. intros fs q H. exact H. Qed.

Lemma keeps_dirs_trans : forall a b c, keeps_dirs a b -> keeps_dirs b c -> keeps_dirs a c.
Proof. intros a b c H1 H2 q H. now apply H2, H1. Qed.

Lemma dirs_exist_mono : forall rest fs fs' pre, keeps_dirs fs fs' -> dirs_exist fs pre rest -> dirs_exist fs' pre rest.
Proof.
  induction rest as [|c rest IH]; intros fs fs' pre K H; cbn in *; [exact I|].
  destruct H as [H1 H2]. split; [now apply K | now apply (IH fs)].
Qed.

Lemma mkdirs_keeps : forall rest fs pre fs', mkdirs_from fs pre rest = Some fs' -> keeps_dirs fs fs'.
Proof.
  intros rest fs pre fs' H q G. destruct (mkdirs_get _ _ _ _ H q) as [E|[[E _] _]]; congruence.
Qed.

Lemma mkdirs_noop : forall rest fs pre, dirs_exist fs pre rest -> mkdirs_from fs pre rest = Some fs.
Proof.
  induction rest as [|c rest IH]; intros fs pre H; cbn in *; [reflexivity|].
  destruct H as [H1 H2]. rewrite H1. now apply IH.
Qed.

Lemma mkdirs_done : forall rest fs pre fs', mkdirs_from fs pre rest = Some fs' -> dirs_exist fs' pre rest.
Proof.
  induction rest as [|c rest IH]; intros fs pre fs' H; cbn [mkdirs_from dirs_exist] in *; [exact I|].
  destruct (fs_get fs (pre ++ [c])) as [[t|]|] eqn:G; [discriminate | |].
  - split; [|now apply (IH fs)]. now apply (mkdirs_keeps _ _ _ _ H).
  - split; [|now apply (IH _ _ _ H)]. apply (mkdirs_keeps _ _ _ _ H). apply get_set_same.
Qed.

Lemma prefix_strict : forall q a p, is_prefix q a -> strict_prefix a p -> strict_prefix q p.
Proof.
  intros q a p [t ->] (c & u & ->). destruct t as [|d t].
  - rewrite app_nil_r. now exists c, u.
  - exists d, (t ++ c :: u). now rewrite <- app_assoc.
Qed.

(** ** write_source and the write loop *)
Section Writes.
  Variable msg : Type.
  Notation write_source := (@write_source msg) (only parsing).
  Notation write_all := (@write_all msg) (only parsing).

  Definition targets (l : list (string * path)) : list path := map (fun e => with_ext_path (snd e)) l.

  Lemma write_source_spec : forall fs p t fs', write_source fs p t = Ok fs' ->
    p <> [] /\ fs_get fs' p = Some (File (crlf t)) /\ fs_get fs p <> Some Dir /\
    (forall q, q <> p -> fs_get fs' q = fs_get fs q \/ (changed_to_dir fs fs' q /\ strict_prefix q p)) /\
    keeps_dirs fs fs' /\ dirs_exist fs' [] (parent p) /\
    exists ops, fs' = apply_ops fs ops /\ Forall (fun e => is_prefix (fst e) p) ops.
  Proof.
    intros fs p t fs' H. unfold Project.write_source in H.
    destruct p as [|c0 p0]; [discriminate|]. set (p := c0 :: p0) in *.
    assert (Pne : p <> []) by discriminate.
    destruct (mkdirs fs (parent p)) as [fs1|] eqn:M; [|discriminate].
    destruct (is_dir fs1 p) eqn:D; [discriminate|]. injection H as <-.
    unfold mkdirs in M.
    assert (ND1 : fs_get fs1 p <> Some Dir).
    { intro F. unfold is_dir in D. subst p. now rewrite F in D. }
    assert (ND : fs_get fs p <> Some Dir).
    { intro F. apply ND1. now apply (mkdirs_keeps _ _ _ _ M). }
    assert (K1 : keeps_dirs fs1 (fs_set fs1 p (File (crlf t)))).
    { intros q G. destruct (path_eq_dec p q) as [<-|N]; [congruence | now rewrite get_set_other]. }
    split; [assumption|]. split; [apply get_set_same|]. split; [assumption|]. split; [|split; [|split]].
    - intros q N. rewrite get_set_other by congruence.
      destruct (mkdirs_get _ _ _ _ M q) as [E|[[E1 E2] [E3 _]]]; [now left|]. right. split.
      + split; [assumption|]. now rewrite get_set_other by congruence.
      + apply (prefix_strict _ (parent p)); [exact E3 | now apply parent_strict_prefix].
    - apply (keeps_dirs_trans _ fs1); [now apply (mkdirs_keeps _ _ _ _ M) | exact K1].
    - apply (dirs_exist_mono _ fs1); [exact K1 | now apply (mkdirs_done _ _ _ _ M)].
    - destruct (mkdirs_ops _ _ _ _ M) as (ops & -> & F). exists (ops ++ [(p, File (crlf t))]). split.
      + now rewrite apply_ops_app.
      + apply Forall_app. split.
        * eapply Forall_impl; [|exact F]. intros e He. cbn in He.
          apply (is_prefix_trans _ (parent p)); [exact He|]. apply strict_is_prefix. now apply parent_strict_prefix.
        * constructor; [apply is_prefix_refl | constructor].
  Qed.

  Lemma write_source_noop : forall fs p t, p <> [] -> dirs_exist fs [] (parent p) ->
    fs_get fs p = Some (File (crlf t)) -> write_source fs p t = Ok fs.
  Proof.
    intros fs p t N D G. unfold Project.write_source. destruct p as [|c0 p0]; [congruence|].
    unfold mkdirs. rewrite (mkdirs_noop _ _ _ D). unfold is_dir. rewrite G. now rewrite set_same_id.
  Qed.

  Lemma write_source_err : forall fs p t e, write_source fs p t = Err e -> is_write_err e = true.
  Proof.
    intros fs p t e H. unfold Project.write_source in H. destruct p; [injection H as <-; reflexivity|].
    destruct (mkdirs fs _); [|injection H as <-; reflexivity].
    destruct (is_dir f _); [injection H as <-; reflexivity | discriminate].
  Qed.

  Lemma write_all_cons : forall fs py out r fs', write_all fs ((py, out) :: r) = (fs', None) ->
    exists fs1, write_source fs (with_ext_path out) py = Ok fs1 /\ write_all fs1 r = (fs', None).
  Proof.
    intros fs py out r fs' H. cbn [Project.write_all] in H.
    destruct (write_source fs (with_ext_path out) py) as [fs1|e]; [now exists fs1 | discriminate].
  Qed.

  Lemma write_all_err : forall l fs fs' e, write_all fs l = (fs', Some e) -> is_write_err e = true.
  Proof.
    induction l as [|[py out] l IH]; intros fs fs' e H; cbn [Project.write_all] in H; [discriminate|].
    destruct (write_source fs (with_ext_path out) py) as [fs1|e1] eqn:W.
    - now apply (IH _ _ _ H).
    - injection H as _ <-. now apply (write_source_err _ _ _ _ W).
  Qed.

  Lemma write_all_keeps : forall l fs fs', write_all fs l = (fs', None) -> keeps_dirs fs fs'.
  Proof.
    induction l as [|[py out] l IH]; intros fs fs' H.
    - injection H as <-. apply keeps_dirs_refl.
    - apply write_all_cons in H. destruct H as (fs1 & W & H).
      apply (keeps_dirs_trans _ fs1); [apply (write_source_spec _ _ _ _ W) | now apply IH].
  Qed.

  Lemma write_all_other : forall l fs fs', write_all fs l = (fs', None) ->
    forall q, ~ In q (targets l) ->
      fs_get fs' q = fs_get fs q \/
      (changed_to_dir fs fs' q /\ exists o, In o (targets l) /\ strict_prefix q o).
  Proof.
    induction l as [|[py out] l IH]; intros fs fs' H q N.
    - injection H as <-. now left.
    - apply write_all_cons in H. destruct H as (fs1 & W & H). cbn [targets map snd] in N.
      assert (N1 : q <> with_ext_path out) by (intro F; apply N; now left).
      assert (N2 : ~ In q (targets l)) by (intro F; apply N; now right).
      destruct (write_source_spec _ _ _ _ W) as (_ & _ & _ & Ho & _).
      destruct (Ho q N1) as [E1|[[E1 E1'] P1]]; destruct (IH _ _ H q N2) as [E2|[[E2 E2'] (o & Io & Po)]].
      + left. congruence.
      + right. split; [split; congruence|]. exists o. split; [now right | assumption].
      + right. split; [split; congruence|]. exists (with_ext_path out). split; [now left | assumption].
      + congruence.
  Qed.

  Lemma write_all_content : forall l fs fs', write_all fs l = (fs', None) -> NoDup (targets l) ->
    forall py out, In (py, out) l -> fs_get fs' (with_ext_path out) = Some (File (crlf py)).
  Proof.
    induction l as [|[py0 out0] l IH]; intros fs fs' H ND py out I; [destruct I|].
    apply write_all_cons in H. destruct H as (fs1 & W & H). cbn [targets map snd] in ND. inversion ND; subst.
    destruct I as [[= -> ->]|I].
    - destruct (write_source_spec _ _ _ _ W) as (_ & G & _).
      destruct (write_all_other _ _ _ H _ H2) as [E|[[E _] _]]; congruence.
    - now apply (IH _ _ H).
  Qed.

  Lemma write_all_files : forall l fs fs', write_all fs l = (fs', None) ->
    forall q, In q (targets l) -> exists t, fs_get fs' q = Some (File t).
  Proof.
    induction l as [|[py0 out0] l IH]; intros fs fs' H q I; [destruct I|].
    apply write_all_cons in H. destruct H as (fs1 & W & H). cbn [targets map snd] in I.
    destruct (in_dec path_eq_dec q (targets l)) as [J|J]; [now apply (IH _ _ H)|].
    destruct I as [<-|I]; [|contradiction].
    destruct (write_source_spec _ _ _ _ W) as (_ & G & _).
    destruct (write_all_other _ _ _ H _ J) as [E|[[E _] _]]; [|congruence]. exists (crlf py0). congruence.
  Qed.

  Lemma write_all_dirs : forall l fs fs', write_all fs l = (fs', None) ->
    forall py out, In (py, out) l -> dirs_exist fs' [] (parent (with_ext_path out)).
  Proof.
    induction l as [|[py0 out0] l IH]; intros fs fs' H py out I; [destruct I|].
    apply write_all_cons in H. destruct H as (fs1 & W & H).
    destruct I as [[= -> ->]|I]; [|now apply (IH _ _ H py)].
    apply (dirs_exist_mono _ fs1); [now apply (write_all_keeps _ _ _ H) | apply (write_source_spec _ _ _ _ W)].
  Qed.

  Lemma write_all_ops : forall l fs fs', write_all fs l = (fs', None) ->
    exists ops, fs' = apply_ops fs ops /\
                Forall (fun e => exists o, In o (targets l) /\ is_prefix (fst e) o) ops.
  Proof.
    induction l as [|[py0 out0] l IH]; intros fs fs' H.
    - injection H as <-. exists []. split; [reflexivity | constructor].
    - apply write_all_cons in H. destruct H as (fs1 & W & H).
      destruct (write_source_spec _ _ _ _ W) as (_ & _ & _ & _ & _ & _ & ops1 & -> & F1).
      destruct (IH _ _ H) as (ops2 & -> & F2). exists (ops1 ++ ops2). split; [now rewrite apply_ops_app|].
      apply Forall_app. split; (eapply Forall_impl; [|eassumption]); cbn.
      + intros e He. exists (with_ext_path out0). split; [now left | assumption].
      + intros e (o & Io & Po). exists o. split; [now right | assumption].
  Qed.

  Lemma write_all_noop : forall l fs,
    (forall py out, In (py, out) l ->
       with_ext_path out <> [] /\ dirs_exist fs [] (parent (with_ext_path out)) /\
       fs_get fs (with_ext_path out) = Some (File (crlf py))) ->
    write_all fs l = (fs, None).
  Proof.
    induction l as [|[py out] l IH]; intros fs H; [reflexivity|]. cbn [Project.write_all].
    destruct (H py out (or_introl eq_refl)) as (N & D & G).
    rewrite (write_source_noop _ _ _ N D G). apply IH. intros py' out' I. apply H. now right.
  Qed.
End Writes.
