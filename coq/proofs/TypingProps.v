(** * TypingProps: the algorithmic check of model/Typing.v against the declarative relation

    - [check_iff]            [check_with noq p = true <-> conforms_with p], for every program of the mini-language and
                             every class / signature / function / field table
    - [outside_known]        on programs none of whose obligations falls into a known class, the implementation's
                             verdict ([impl_quirks]) is the declarative one; [in_known_*] characterise the classes
    - [local_*]              a non-conforming statement or expression at any depth makes the program non-conforming
    - [null_flow]            in a conforming program no None / T? reaches a position that requires a non-nullable T *)
From Coq Require Import List String Bool ZArith Arith Lia.
From MambaModel Require Import model.Types model.TypingSig model.Typing proofs.TypesProps.
Import ListNotations.
Local Open Scope string_scope.
Local Open Scope list_scope.

Lemma forallb_app3 {A} (f : A -> bool) a b c :
  forallb f (a ++ b ++ c) = forallb f a && forallb f b && forallb f c.
Proof. rewrite !forallb_app. now rewrite andb_assoc. Qed.

Ltac fb := repeat (rewrite forallb_app in * ); cbn [forallb] in *; repeat rewrite andb_true_r in *.

Section Tables.
  Variable cx : ctx.
  Variable sigs : list msig.
  Variable funs : list fsig.
  Variable fields : list (string * string * ty).

  Notation sup := (sup cx).
  Notation sub := (sub cx).
  Notation dis := (discharge cx noq).
  Notation gen_e := (gen_e cx sigs funs fields).
  Notation gen_es := (gen_es cx sigs funs fields).
  Notation gen_strs := (gen_strs cx sigs funs fields).
  Notation gen_s := (gen_s cx sigs funs fields).
  Notation gen_b := (gen_b cx sigs funs fields).
  Notation call_method := (call_method cx sigs).
  Notation has_type := (has_type cx sigs funs fields).
  Notation has_types := (has_types cx sigs funs fields).
  Notation strs_ok := (strs_ok cx sigs funs fields).
  Notation meth_ok := (meth_ok cx sigs).
  Notation args_ok := (args_ok cx).

  Lemma sup_sub T t : sup T t = true <-> sub T t.
  Proof.
    unfold Typing.sup, Typing.sub. destruct (super cx T [t]) as [[|]| |]; split; intros H; try discriminate; auto.
  Qed.

  Lemma dis_sub k T t lo : dis (OSub k T t lo) = sup T t.
  Proof. destruct k, lo; reflexivity. Qed.

  Lemma dis_field t lo : dis (OFieldRecv t lo) = nonnull t.
  Proof. destruct lo; reflexivity. Qed.

  Lemma dis_range p t lo : dis (ORange p t lo) = sup [tInt] t.
  Proof. destruct lo, p; reflexivity. Qed.

  (** ** formals against actuals *)
  Lemma zip_sound k0 k ps : forall acts l,
    zip_params k0 k ps acts = Some l -> forallb dis l = true -> args_ok ps (map fst acts).
  Proof.
    revert k0. induction ps as [|p ps IH]; intros k0 [|a acts] l H D; cbn in H.
    - constructor.
    - discriminate.
    - destruct (sp_default p) eqn:E; [|discriminate]. apply AO_default; [exact E|]. exact (IH k [] l H D).
    - destruct (sp_ty p) as [T|] eqn:ET; [|discriminate].
      destruct (zip_params k k ps acts) as [l'|] eqn:EZ; [|discriminate]. inversion H; subst l. clear H.
      cbn [forallb] in D. apply andb_prop in D as [D1 D2]. rewrite dis_sub in D1.
      cbn [map]. eapply AO_both; [exact ET| apply sup_sub; exact D1 | exact (IH k acts l' EZ D2)].
  Qed.

  Lemma zip_complete k0 k ps : forall acts,
    args_ok ps (map fst acts) -> exists l, zip_params k0 k ps acts = Some l /\ forallb dis l = true.
  Proof.
    revert k0. induction ps as [|p ps IH]; intros k0 acts H.
    - inversion H. destruct acts; [|discriminate]. exists []. split; reflexivity.
    - destruct acts as [|a acts]; cbn [map] in H;
        inversion H as [| p' ps' T t ts ET HS HA | p' ps' HD HA]; subst.
      + cbn. rewrite HD. exact (IH k [] HA).
      + destruct (IH k acts HA) as [l [E D]]. exists (OSub k0 T (fst a) (snd a) :: l). split.
        * cbn. rewrite ET, E. reflexivity.
        * cbn [forallb]. rewrite dis_sub, D, andb_true_r. apply sup_sub. exact HS.
  Qed.

  Lemma call_sound recv m acts t l :
    call_method recv m acts = Some (t, l) -> forallb dis l = true -> meth_ok (fst recv) m (map fst acts) t.
  Proof.
    unfold Typing.call_method. intros H D.
    destruct (find_method cx sigs (tcname (fst recv)) m) as [sg|] eqn:EF; [|discriminate].
    destruct (zip_params KRecv KArg (sg_params sg) (recv :: acts)) as [l'|] eqn:EZ; [|discriminate].
    inversion H; subst. exists sg. split; [exact EF|]. split; [|reflexivity].
    exact (zip_sound _ _ _ (recv :: acts) l EZ D).
  Qed.

  Lemma call_complete recv m acts t :
    meth_ok (fst recv) m (map fst acts) t -> exists l, call_method recv m acts = Some (t, l) /\ forallb dis l = true.
  Proof.
    intros [sg [EF [HA Ht]]]. unfold Typing.call_method. rewrite EF.
    destruct (zip_complete KRecv KArg (sg_params sg) (recv :: acts) HA) as [l [EZ D]].
    exists l. rewrite EZ, Ht. split; [reflexivity|exact D].
  Qed.

  (** what [args_ok] says: every given argument is a subtype of its formal, no more arguments than formals, and
      every formal without an argument has a default *)
  Lemma args_ok_spec ps ts :
    args_ok ps ts <->
    List.length ts <= List.length ps /\
    (forall i p t, nth_error ps i = Some p -> nth_error ts i = Some t -> exists T, sp_ty p = Some T /\ sub T t) /\
    (forall i p, nth_error ps i = Some p -> List.length ts <= i -> sp_default p = true).
  Proof.
    split.
    - induction 1 as [| p ps T t ts ET HS HA IH | p ps HD HA IH].
      + split; [apply le_n|]. split; intros i p; destruct i; discriminate.
      + destruct IH as [IL [IA ID]]. split; [cbn; lia|]. split.
        * intros [|i] p0 t0 Hp Ht; cbn in Hp, Ht.
          -- inversion Hp; inversion Ht; subst. eauto.
          -- eapply IA; eassumption.
        * intros [|i] p0 Hp Hl; cbn in Hp, Hl; [lia|]. eapply ID; [eassumption|lia].
      + destruct IH as [IL [IA ID]]. split; [cbn; lia|]. split.
        * intros i p0 t0 _ Ht. destruct i; discriminate.
        * intros [|i] p0 Hp Hl; cbn in Hp.
          -- inversion Hp; subst. exact HD.
          -- eapply ID; [eassumption|cbn; lia].
    - revert ts. induction ps as [|p ps IH]; intros ts [HL [HA HD]].
      + destruct ts; [constructor|cbn in HL; lia].
      + destruct ts as [|t ts].
        * apply AO_default; [exact (HD 0 p eq_refl (le_n 0))|]. apply IH. split; [cbn; lia|]. split.
          -- intros i p0 t0 _ Ht. destruct i; discriminate.
          -- intros i p0 Hp _. exact (HD (S i) p0 Hp (Nat.le_0_l _)).
        * destruct (HA 0 p t eq_refl eq_refl) as [T [ET HS]]. eapply AO_both; [exact ET|exact HS|].
          apply IH. split; [cbn in HL; lia|]. split.
          -- intros i p0 t0 Hp Ht. exact (HA (S i) p0 t0 Hp Ht).
          -- intros i p0 Hp Hl. apply (HD (S i) p0 Hp). cbn. lia.
  Qed.

  (** ** environments *)
  Lemma lookup_erase env x :
    dlookup (erase env) x = option_map (fun v => {| d_ty := v_ty v; d_mut := v_mut v |}) (lookup env x).
  Proof.
    induction env as [|[y v] r IH]; [reflexivity|]. cbn. destruct (String.eqb y x); [reflexivity|exact IH].
  Qed.

  (** ** expressions: unfolding of the nested recursions *)
  Lemma gen_e_call env f args :
    gen_e env (ECall f args) =
    match find_fun funs f, gen_es env args with
    | Some fs, Some (acts, oa) =>
        match zip_params KFunArg KFunArg (fs_params fs) acts with
        | Some o => Some (single (fs_ret fs), false, oa ++ o)
        | None => None
        end
    | _, _ => None
    end.
  Proof.
    cbn [Typing.gen_e]. destruct (find_fun funs f); [|reflexivity].
    match goal with |- match ?A with _ => _ end = match ?B with _ => _ end => assert (E : A = B) end.
    { induction args as [|a r IH]; [reflexivity|]. cbn [Typing.gen_es]. rewrite <- IH. reflexivity. }
    rewrite E. reflexivity.
  Qed.

  Lemma gen_e_meth env ob m args :
    gen_e env (EMeth ob m args) =
    match gen_e env ob, gen_es env args with
    | Some (tb, lb, ob'), Some (acts, oa) =>
        match call_method (tb, lb) m acts with
        | Some (t, o) => Some (t, false, ob' ++ oa ++ o)
        | None => None
        end
    | _, _ => None
    end.
  Proof.
    cbn [Typing.gen_e]. destruct (gen_e env ob) as [[[tb lb] ob']|]; [|reflexivity].
    match goal with |- match ?A with _ => _ end = match ?B with _ => _ end => assert (E : A = B) end.
    { induction args as [|a r IH]; [reflexivity|]. cbn [Typing.gen_es]. rewrite <- IH. reflexivity. }
    rewrite E. reflexivity.
  Qed.

  Lemma gen_e_fmt env es :
    gen_e env (EFmt es) = match gen_strs env es with Some o => Some (tStr, false, o) | None => None end.
  Proof.
    cbn [Typing.gen_e].
    match goal with |- match ?A with _ => _ end = match ?B with _ => _ end => assert (E : A = B) end.
    { induction es as [|a r IH]; [reflexivity|]. cbn [Typing.gen_strs]. rewrite <- IH. reflexivity. }
    rewrite E. reflexivity.
  Qed.

  (** ** induction principle for expressions (nested lists) *)
  Section ExprInd.
    Variable P : expr -> Prop.
    Hypothesis HInt : forall z, P (EInt z).
    Hypothesis HFloat : forall s, P (EFloat s).
    Hypothesis HStr : forall s, P (EStr s).
    Hypothesis HBool : forall b, P (EBool b).
    Hypothesis HNone : P ENone.
    Hypothesis HVar : forall x, P (EVar x).
    Hypothesis HOp : forall m l r, P l -> P r -> P (EOp m l r).
    Hypothesis HNot : forall a, P a -> P (ENot a).
    Hypothesis HBoolOp : forall l r, P l -> P r -> P (EBoolOp l r).
    Hypothesis HCall : forall f args, Forall P args -> P (ECall f args).
    Hypothesis HMeth : forall o m args, P o -> Forall P args -> P (EMeth o m args).
    Hypothesis HField : forall o f, P o -> P (EField o f).
    Hypothesis HQuest : forall x d, P x -> P d -> P (EQuest x d).
    Hypothesis HIf : forall c t e, P c -> P t -> P e -> P (EIf c t e).
    Hypothesis HFmt : forall es, Forall P es -> P (EFmt es).

    Fixpoint expr_ind' (e : expr) : P e :=
      let fix go (l : list expr) : Forall P l :=
        match l with
        | [] => Forall_nil P
        | x :: r => Forall_cons x (expr_ind' x) (go r)
        end in
      match e with
      | EInt z => HInt z
      | EFloat s => HFloat s
      | EStr s => HStr s
      | EBool b => HBool b
      | ENone => HNone
      | EVar x => HVar x
      | EOp m l r => HOp m l r (expr_ind' l) (expr_ind' r)
      | ENot a => HNot a (expr_ind' a)
      | EBoolOp l r => HBoolOp l r (expr_ind' l) (expr_ind' r)
      | ECall f args => HCall f args (go args)
      | EMeth o m args => HMeth o m args (expr_ind' o) (go args)
      | EField o f => HField o f (expr_ind' o)
      | EQuest x d => HQuest x d (expr_ind' x) (expr_ind' d)
      | EIf c t e => HIf c t e (expr_ind' c) (expr_ind' t) (expr_ind' e)
      | EFmt es => HFmt es (go es)
      end.
  End ExprInd.

  Scheme has_type_mind := Minimality for Typing.has_type Sort Prop
    with has_types_mind := Minimality for Typing.has_types Sort Prop
    with strs_ok_mind := Minimality for Typing.strs_ok Sort Prop.
  Combined Scheme has_type_mutind from has_type_mind, has_types_mind, strs_ok_mind.

  (** ** expressions: the declarative typing is what [gen_e] + [discharge noq] decide *)
  Definition e_ok (env : tenv) (e : expr) (t : ty) : Prop :=
    exists lo l, gen_e env e = Some (t, lo, l) /\ forallb dis l = true.
  Definition es_ok (env : tenv) (es : list expr) (ts : list ty) : Prop :=
    exists acts l, gen_es env es = Some (acts, l) /\ map fst acts = ts /\ forallb dis l = true.
  Definition ss_ok (env : tenv) (es : list expr) : Prop :=
    exists l, gen_strs env es = Some l /\ forallb dis l = true.

  Lemma complete_all denv :
    (forall e t, has_type denv e t -> forall env, erase env = denv -> e_ok env e t) /\
    (forall es ts, has_types denv es ts -> forall env, erase env = denv -> es_ok env es ts) /\
    (forall es, strs_ok denv es -> forall env, erase env = denv -> ss_ok env es).
  Proof.
    apply has_type_mutind; intros; unfold e_ok, es_ok, ss_ok in *.
    - exists false, []. split; reflexivity.
    - exists false, []. split; reflexivity.
    - exists false, []. split; reflexivity.
    - exists false, []. split; reflexivity.
    - exists false, []. split; reflexivity.
    - (* Var *) subst denv. rewrite lookup_erase in H. cbn [Typing.gen_e].
      destruct (lookup env x) as [w|]; [|discriminate]. cbn in H. inversion H; subst. cbn.
      exists (v_loose w), []. split; reflexivity.
    - (* Op *)
      destruct (H0 env H4) as [ll [ol [E1 D1]]]. destruct (H2 env H4) as [lr [orr [E2 D2]]].
      destruct (call_complete (tl, ll) m [(tr, lr)] t H3) as [o [E3 D3]].
      cbn [Typing.gen_e]. rewrite E1, E2, E3. exists false, (ol ++ orr ++ o). split; [reflexivity|].
      rewrite forallb_app3, D1, D2, D3. reflexivity.
    - (* Not *)
      destruct (H0 env H2) as [la [oa [E1 D1]]].
      destruct (call_complete (ta, la) "__bool__" [] t H1) as [o [E3 D3]].
      cbn [Typing.gen_e]. rewrite E1, E3. exists false, (oa ++ o). split; [reflexivity|].
      rewrite forallb_app, D1, D3. reflexivity.
    - (* BoolOp *)
      destruct (H0 env H5) as [ll [ol [E1 D1]]]. destruct (H2 env H5) as [lr [orr [E2 D2]]].
      destruct (call_complete (tl, ll) "__bool__" [] t1 H3) as [o1 [E3 D3]].
      destruct (call_complete (tr, lr) "__bool__" [] t2 H4) as [o2 [E4 D4]].
      cbn [Typing.gen_e]. rewrite E1, E2, E3, E4. exists false, (ol ++ orr ++ o1 ++ o2). split; [reflexivity|].
      rewrite !forallb_app, D1, D2, D3, D4. reflexivity.
    - (* Call *)
      destruct (H1 env H3) as [acts [oa [E1 [Em D1]]]]. subst ts.
      destruct (zip_complete KFunArg KFunArg (fs_params fs) acts H2) as [o [E2 D2]].
      rewrite gen_e_call, H, E1, E2. exists false, (oa ++ o). split; [reflexivity|].
      rewrite forallb_app, D1, D2. reflexivity.
    - (* Meth *)
      destruct (H0 env H4) as [lb [ob' [E0 D0]]].
      destruct (H2 env H4) as [acts [oa [E1 [Em D1]]]]. subst ts.
      destruct (call_complete (tb, lb) m acts t H3) as [o [E2 D2]].
      rewrite gen_e_meth, E0, E1, E2. exists false, (ob' ++ oa ++ o). split; [reflexivity|].
      rewrite forallb_app3, D0, D1, D2. reflexivity.
    - (* Field *)
      destruct (H0 env H3) as [lb [ob' [E0 D0]]].
      cbn [Typing.gen_e]. rewrite E0, H2. exists false, (ob' ++ [OFieldRecv tb lb]). split; [reflexivity|].
      rewrite forallb_app, D0. cbn [forallb]. rewrite dis_field, H1. reflexivity.
    - (* Quest *)
      destruct (H0 env H5) as [lx [ox [E1 D1]]]. destruct (H2 env H5) as [ld [od [E2 D2]]].
      cbn [Typing.gen_e]. rewrite E1, E2, H4.
      exists true, (ox ++ od ++ [OSub KQuest [tx] tNone lx; OJoin true]). split; [reflexivity|].
      rewrite forallb_app3, D1, D2. cbn [forallb]. rewrite dis_sub.
      apply sup_sub in H3. rewrite H3. reflexivity.
    - (* If *)
      destruct (H0 env H7) as [lc [oc [E1 D1]]]. destruct (H2 env H7) as [l1 [o1 [E2 D2]]].
      destruct (H4 env H7) as [l2 [o2 [E3 D3]]].
      destruct (call_complete (tc, lc) "__bool__" [] tb H5) as [o [E4 D4]].
      cbn [Typing.gen_e]. rewrite E1, E2, E3, E4, H6. exists (l1 || l2), (oc ++ o1 ++ o2 ++ o). split; [reflexivity|].
      rewrite !forallb_app, D1, D2, D3, D4. reflexivity.
    - (* Fmt *)
      destruct (H0 env H1) as [l [E D]]. rewrite gen_e_fmt, E. exists false, l. split; [reflexivity|exact D].
    - exists [], []. repeat split; reflexivity.
    - destruct (H0 env H3) as [lo [o [E1 D1]]]. destruct (H2 env H3) as [acts [os [E2 [Em D2]]]].
      cbn [Typing.gen_es]. rewrite E1, E2. exists ((t, lo) :: acts), (o ++ os). split; [reflexivity|]. split.
      + cbn. rewrite Em. reflexivity.
      + rewrite forallb_app, D1, D2. reflexivity.
    - exists []. split; reflexivity.
    - destruct (H0 env H4) as [lo [o [E1 D1]]]. destruct (H3 env H4) as [os [E2 D2]].
      destruct (call_complete (t, lo) "__str__" [] ts H1) as [o' [E3 D3]].
      cbn [Typing.gen_strs]. rewrite E1, E2, E3. exists (o ++ o' ++ os). split; [reflexivity|].
      rewrite forallb_app3, D1, D3, D2. reflexivity.
  Qed.

  Lemma es_sound env : forall es,
    Forall (fun e => forall t lo l, gen_e env e = Some (t, lo, l) -> forallb dis l = true -> has_type (erase env) e t) es ->
    forall acts l, gen_es env es = Some (acts, l) -> forallb dis l = true -> has_types (erase env) es (map fst acts).
  Proof.
    induction 1 as [|e es He Hes IH]; intros acts l E D; cbn [Typing.gen_es] in E.
    - inversion E; subst. constructor.
    - destruct (gen_e env e) as [[[t lo] o]|] eqn:E1; [|discriminate].
      destruct (gen_es env es) as [[ts os]|] eqn:E2; [|discriminate]. inversion E; subst. clear E.
      rewrite forallb_app in D. apply andb_prop in D as [D1 D2]. cbn [map fst]. constructor.
      + exact (He t lo o eq_refl D1).
      + exact (IH ts os eq_refl D2).
  Qed.

  Lemma ss_sound env : forall es,
    Forall (fun e => forall t lo l, gen_e env e = Some (t, lo, l) -> forallb dis l = true -> has_type (erase env) e t) es ->
    forall l, gen_strs env es = Some l -> forallb dis l = true -> strs_ok (erase env) es.
  Proof.
    induction 1 as [|e es He Hes IH]; intros l E D; cbn [Typing.gen_strs] in E.
    - constructor.
    - destruct (gen_e env e) as [[[t lo] o]|] eqn:E1; [|discriminate].
      destruct (gen_strs env es) as [os|] eqn:E2; [|discriminate].
      destruct (call_method (t, lo) "__str__" []) as [[rt o']|] eqn:E3; [|discriminate]. inversion E; subst. clear E.
      rewrite forallb_app3 in D. apply andb_prop in D as [D12 D3]. apply andb_prop in D12 as [D1 D2].
      eapply SO_cons.
      + exact (He t lo o eq_refl D1).
      + exact (call_sound (t, lo) "__str__" [] rt o' E3 D2).
      + exact (IH os eq_refl D3).
  Qed.

  Lemma spec_env es env :
    Forall (fun e => forall env t lo l, gen_e env e = Some (t, lo, l) -> forallb dis l = true -> has_type (erase env) e t) es ->
    Forall (fun e => forall t lo l, gen_e env e = Some (t, lo, l) -> forallb dis l = true -> has_type (erase env) e t) es.
  Proof. intros H. eapply Forall_impl; [|exact H]. intros e He. exact (He env). Qed.

  Lemma sound_e : forall e env t lo l,
    gen_e env e = Some (t, lo, l) -> forallb dis l = true -> has_type (erase env) e t.
  Proof.
    induction e using expr_ind'; intros env t0 lo0 l0 E D.
    - inversion E; subst. constructor.
    - inversion E; subst. constructor.
    - inversion E; subst. constructor.
    - inversion E; subst. constructor.
    - inversion E; subst. constructor.
    - cbn [Typing.gen_e] in E. destruct (lookup env x) as [w|] eqn:EL; [|discriminate]. inversion E; subst.
      replace (v_ty w) with (d_ty {| d_ty := v_ty w; d_mut := v_mut w |}) by reflexivity.
      constructor. rewrite lookup_erase, EL. reflexivity.
    - cbn [Typing.gen_e] in E.
      destruct (gen_e env e1) as [[[tl ll] ol]|] eqn:E1; [|discriminate].
      destruct (gen_e env e2) as [[[tr lr] orr]|] eqn:E2; [|discriminate].
      destruct (call_method (tl, ll) m [(tr, lr)]) as [[t o]|] eqn:E3; [|discriminate]. inversion E; subst. clear E.
      rewrite forallb_app3 in D. apply andb_prop in D as [D12 D3]. apply andb_prop in D12 as [D1 D2].
      eapply T_Op; [exact (IHe1 _ _ _ _ E1 D1) | exact (IHe2 _ _ _ _ E2 D2) | exact (call_sound _ _ _ _ _ E3 D3)].
    - cbn [Typing.gen_e] in E.
      destruct (gen_e env e) as [[[ta la] oa]|] eqn:E1; [|discriminate].
      destruct (call_method (ta, la) "__bool__" []) as [[t o]|] eqn:E3; [|discriminate]. inversion E; subst. clear E.
      rewrite forallb_app in D. apply andb_prop in D as [D1 D3].
      eapply T_Not; [exact (IHe _ _ _ _ E1 D1) | exact (call_sound _ _ _ _ _ E3 D3)].
    - cbn [Typing.gen_e] in E.
      destruct (gen_e env e1) as [[[tl ll] ol]|] eqn:E1; [|discriminate].
      destruct (gen_e env e2) as [[[tr lr] orr]|] eqn:E2; [|discriminate].
      destruct (call_method (tl, ll) "__bool__" []) as [[t1 o1]|] eqn:E3; [|discriminate].
      destruct (call_method (tr, lr) "__bool__" []) as [[t2 o2]|] eqn:E4; [|discriminate]. inversion E; subst. clear E.
      rewrite !forallb_app in D. apply andb_prop in D as [D1 D]. apply andb_prop in D as [D2 D].
      apply andb_prop in D as [D3 D4].
      eapply T_BoolOp; [exact (IHe1 _ _ _ _ E1 D1) | exact (IHe2 _ _ _ _ E2 D2)
                        | exact (call_sound _ _ _ _ _ E3 D3) | exact (call_sound _ _ _ _ _ E4 D4)].
    - rewrite gen_e_call in E. destruct (find_fun funs f) as [fs|] eqn:EF; [|discriminate].
      destruct (gen_es env args) as [[acts oa]|] eqn:E1; [|discriminate].
      destruct (zip_params KFunArg KFunArg (fs_params fs) acts) as [o|] eqn:E2; [|discriminate]. inversion E; subst. clear E.
      rewrite forallb_app in D. apply andb_prop in D as [D1 D2].
      eapply T_Call; [exact EF | exact (es_sound env args (spec_env _ env H) acts oa E1 D1) | exact (zip_sound _ _ _ _ _ E2 D2)].
    - rewrite gen_e_meth in E.
      destruct (gen_e env e) as [[[tb lb] ob']|] eqn:E0; [|discriminate].
      destruct (gen_es env args) as [[acts oa]|] eqn:E1; [|discriminate].
      destruct (call_method (tb, lb) m acts) as [[t o]|] eqn:E2; [|discriminate]. inversion E; subst. clear E.
      rewrite forallb_app3 in D. apply andb_prop in D as [D01 D2]. apply andb_prop in D01 as [D0 D1].
      eapply T_Meth; [exact (IHe _ _ _ _ E0 D0) | exact (es_sound env args (spec_env _ env H) acts oa E1 D1)
                      | exact (call_sound _ _ _ _ _ E2 D2)].
    - cbn [Typing.gen_e] in E.
      destruct (gen_e env e) as [[[tb lb] ob']|] eqn:E0; [|discriminate].
      destruct (find_field cx fields (tcname tb) f) as [ft|] eqn:EF; [|discriminate]. inversion E; subst. clear E.
      rewrite forallb_app in D. apply andb_prop in D as [D0 D1]. cbn [forallb] in D1. rewrite dis_field, andb_true_r in D1.
      eapply T_Field; [exact (IHe _ _ _ _ E0 D0) | exact D1 | exact EF].
    - cbn [Typing.gen_e] in E.
      destruct (gen_e env e1) as [[[tx lx] ox]|] eqn:E1; [|discriminate].
      destruct (gen_e env e2) as [[[td ld] od]|] eqn:E2; [|discriminate].
      destruct (join_ty cx (strip_null tx) td) as [tj|] eqn:EJ; inversion E; subst; clear E;
        rewrite forallb_app3 in D; apply andb_prop in D as [D12 D3]; apply andb_prop in D12 as [D1 D2];
        cbn [forallb] in D3; rewrite dis_sub in D3; apply andb_prop in D3 as [D3 D4].
      + eapply T_Quest; [exact (IHe1 _ _ _ _ E1 D1) | exact (IHe2 _ _ _ _ E2 D2) | apply sup_sub; exact D3 | exact EJ].
      + discriminate.
    - cbn [Typing.gen_e] in E.
      destruct (gen_e env e1) as [[[tc lc] oc]|] eqn:E1; [|discriminate].
      destruct (gen_e env e2) as [[[t1 l1] o1]|] eqn:E2; [|discriminate].
      destruct (gen_e env e3) as [[[t2 l2] o2]|] eqn:E3; [|discriminate].
      destruct (call_method (tc, lc) "__bool__" []) as [[tb o]|] eqn:E4; [|discriminate].
      destruct (join_ty cx t1 t2) as [tj|] eqn:EJ; [|discriminate]. inversion E; subst. clear E.
      rewrite !forallb_app in D. apply andb_prop in D as [D1 D]. apply andb_prop in D as [D2 D].
      apply andb_prop in D as [D3 D4].
      eapply T_If; [exact (IHe1 _ _ _ _ E1 D1) | exact (IHe2 _ _ _ _ E2 D2) | exact (IHe3 _ _ _ _ E3 D3)
                    | exact (call_sound _ _ _ _ _ E4 D4) | exact EJ].
    - rewrite gen_e_fmt in E. destruct (gen_strs env es) as [o|] eqn:E1; [|discriminate]. inversion E; subst. clear E.
      constructor. eapply (ss_sound env es (spec_env _ env H)); [exact E1 | exact D].
  Qed.

  Theorem gen_e_iff env e t : has_type (erase env) e t <-> e_ok env e t.
  Proof.
    split.
    - intros H. exact (proj1 (complete_all (erase env)) e t H env eq_refl).
    - intros [lo [l [E D]]]. exact (sound_e e env t lo l E D).
  Qed.

  Lemma gen_es_iff env es ts : has_types (erase env) es ts <-> es_ok env es ts.
  Proof.
    split.
    - intros H. exact (proj1 (proj2 (complete_all (erase env))) es ts H env eq_refl).
    - intros [acts [l [E [Em D]]]]. subst ts. apply (es_sound env es) with (l := l); [|exact E|exact D].
      apply Forall_forall. intros e _ t lo l0. apply sound_e.
  Qed.

  (** the synthesised type is unique *)
  Lemma has_type_fun env e t1 t2 : has_type (erase env) e t1 -> has_type (erase env) e t2 -> t1 = t2.
  Proof.
    intros H1 H2. apply gen_e_iff in H1 as [lo1 [l1 [E1 _]]]. apply gen_e_iff in H2 as [lo2 [l2 [E2 _]]].
    rewrite E1 in E2. inversion E2. reflexivity.
  Qed.

  (** ** statements *)
  Notation gen_use := (gen_use cx sigs funs fields).
  Notation gen_marms := (gen_marms cx sigs funs fields).
  Notation gen_harm := (gen_harm cx sigs funs fields).
  Notation gen_harms := (gen_harms cx sigs funs fields).
  Notation stmt_ok := (stmt_ok cx sigs funs fields).
  Notation block_ok := (block_ok cx sigs funs fields).
  Notation marms_ok := (marms_ok cx sigs funs fields).
  Notation harms_ok := (harms_ok cx sigs funs fields).
  Notation use_ok := (use_ok cx sigs funs fields).
  Notation range_ok := (range_ok cx sigs funs fields).

  Lemma gen_b_nil R env : gen_b R env [] = Some (env, []).
  Proof. reflexivity. Qed.

  Lemma gen_b_cons R env s r :
    gen_b R env (s :: r) =
    match gen_s R env s with
    | Some (env', o) => match gen_b R env' r with
                        | Some (env'', o') => Some (env'', o ++ o')
                        | None => None
                        end
    | None => None
    end.
  Proof. reflexivity. Qed.

  Lemma gen_s_if R env c t e :
    gen_s R env (SIf c t e) =
    match gen_use "__bool__" env c, gen_b R env t, gen_b R env e with
    | Some o, Some (_, o1), Some (_, o2) => Some (env, o ++ o1 ++ o2)
    | _, _, _ => None
    end.
  Proof. reflexivity. Qed.

  Lemma gen_s_while R env c b :
    gen_s R env (SWhile c b) =
    match gen_use "__bool__" env c, gen_b R env b with
    | Some o, Some (_, o1) => Some (env, o ++ o1)
    | _, _ => None
    end.
  Proof. reflexivity. Qed.

  Lemma gen_s_for R env x lo hi b :
    gen_s R env (SFor x lo hi b) =
    match gen_e env lo, gen_e env hi with
    | Some (t1, l1, o1), Some (t2, l2, o2) =>
        match gen_b R ((x, vfix tInt) :: env) b with
        | Some (_, o3) => Some (env, o1 ++ o2 ++ [ORange (is_path lo) t1 l1; ORange (is_path hi) t2 l2] ++ o3)
        | None => None
        end
    | _, _ => None
    end.
  Proof. reflexivity. Qed.

  Lemma gen_s_match R env e arms :
    gen_s R env (SMatch e arms) =
    match gen_e env e, gen_marms R env arms with
    | Some (_, _, o), Some os => Some (env, o ++ os)
    | _, _ => None
    end.
  Proof.
    cbn [Typing.gen_s]. destruct (gen_e env e) as [[[t0 lo0] o0]|]; [|reflexivity].
    match goal with |- match ?A with _ => _ end = match ?B with _ => _ end => assert (E : A = B) end.
    { induction arms as [|[p b] r IH]; [reflexivity|]. cbn [Typing.gen_marms]. rewrite <- IH. reflexivity. }
    rewrite E. reflexivity.
  Qed.

  Lemma gen_s_handle R env bd call arms :
    gen_s R env (SHandle bd call arms) =
    match gen_e env call with
    | Some (t, lo, o) =>
        match gen_harms R env bd t arms with
        | Some os => Some (bind_env bd t lo env, o ++ bind_obl bd t lo ++ os)
        | None => None
        end
    | None => None
    end.
  Proof.
    cbn [Typing.gen_s]. destruct (gen_e env call) as [[[t lo] o]|]; [|reflexivity].
    match goal with |- match ?A with _ => _ end = match ?B with _ => _ end => assert (E : A = B) end.
    { induction arms as [|[exc var body val] r IH]; [reflexivity|].
      cbn [Typing.gen_harms Typing.gen_harm]. rewrite IH. unfold Typing.gen_b.
      destruct (gen_block (gen_s R) ((var, vfix (tcls exc)) :: env) body) as [[env' ob]|]; [|reflexivity].
      destruct (gen_harms R env bd t r) as [os|].
      - destruct val as [v|].
        + destruct (gen_e env' v) as [[[tv lv] ov]|]; [|reflexivity]. rewrite <- !app_assoc. reflexivity.
        + destruct bd; reflexivity.
      - destruct val as [v|].
        + destruct (gen_e env' v) as [[[tv lv] ov]|]; reflexivity.
        + destruct bd; reflexivity. }
    rewrite E. reflexivity.
  Qed.

  Lemma use_iff m env e :
    use_ok m (erase env) e <-> exists l, gen_use m env e = Some l /\ forallb dis l = true.
  Proof.
    unfold Typing.use_ok, Typing.gen_use. split.
    - intros [t [rt [HT HM]]]. apply gen_e_iff in HT as [lo [o [E D]]]. rewrite E.
      destruct (call_complete (t, lo) m [] rt HM) as [o' [E' D']]. rewrite E'.
      exists (o ++ o'). split; [reflexivity|]. rewrite forallb_app, D, D'. reflexivity.
    - intros [l [E D]]. destruct (gen_e env e) as [[[t lo] o]|] eqn:E1; [|discriminate].
      destruct (call_method (t, lo) m []) as [[rt o']|] eqn:E2; [|discriminate]. inversion E; subst.
      rewrite forallb_app in D. apply andb_prop in D as [D1 D2].
      exists t, rt. split; [exact (sound_e e env t lo o E1 D1) | exact (call_sound _ _ _ _ _ E2 D2)].
  Qed.

  Lemma erase_cons x v env : erase ((x, v) :: env) = (x, {| d_ty := v_ty v; d_mut := v_mut v |}) :: erase env.
  Proof. reflexivity. Qed.

  Lemma erase_bind bd t lo env : erase (bind_env bd t lo env) = dbind_env bd t (erase env).
  Proof. destruct bd as [b|]; [|reflexivity]. unfold bind_env, dbind_env. destruct (b_ann b); reflexivity. Qed.

  Scheme stmt_ok_mind := Minimality for Typing.stmt_ok Sort Prop
    with block_ok_mind := Minimality for Typing.block_ok Sort Prop
    with marms_ok_mind := Minimality for Typing.marms_ok Sort Prop
    with harms_ok_mind := Minimality for Typing.harms_ok Sort Prop.
  Combined Scheme stmt_ok_mutind from stmt_ok_mind, block_ok_mind, marms_ok_mind, harms_ok_mind.

  Definition s_ok R (env : tenv) (s : stmt) (denv' : denv) : Prop :=
    exists env' l, gen_s R env s = Some (env', l) /\ erase env' = denv' /\ forallb dis l = true.
  Definition b_ok R (env : tenv) (b : list stmt) (denv' : denv) : Prop :=
    exists env' l, gen_b R env b = Some (env', l) /\ erase env' = denv' /\ forallb dis l = true.

  Lemma bind_obl_ok bd t lo :
    (forall b T, bd = Some b -> b_ann b = Some T -> sub [T] t) <-> forallb dis (bind_obl bd t lo) = true.
  Proof.
    unfold bind_obl. destruct bd as [b|]; [|split; [reflexivity|intros _ b T Hb; discriminate]].
    destruct (b_ann b) as [T|] eqn:EA.
    - cbn [forallb]. rewrite dis_sub, andb_true_r. split.
      + intros H. apply sup_sub. exact (H b T eq_refl EA).
      + intros H b' T' Hb HA. inversion Hb; subst b'. rewrite EA in HA. inversion HA; subst. apply sup_sub. exact H.
    - split; [reflexivity|]. intros _ b' T' Hb HA. inversion Hb; subst b'. rewrite EA in HA. discriminate.
  Qed.

  Lemma complete_stmts R :
    (forall denv s denv', stmt_ok R denv s denv' -> forall env, erase env = denv -> s_ok R env s denv') /\
    (forall denv b denv', block_ok R denv b denv' -> forall env, erase env = denv -> b_ok R env b denv') /\
    (forall denv arms, marms_ok R denv arms -> forall env, erase env = denv ->
       exists l, gen_marms R env arms = Some l /\ forallb dis l = true) /\
    (forall denv bd t arms, harms_ok R denv bd t arms -> forall env, erase env = denv ->
       exists l, gen_harms R env bd t arms = Some l /\ forallb dis l = true).
  Proof.
    apply stmt_ok_mutind; intros; unfold s_ok, b_ok in *; subst.
    - (* DefAnn *) apply gen_e_iff in H as [lo [o [E D]]]. cbn [Typing.gen_s]. rewrite E.
      eexists _, _. split; [reflexivity|]. split; [reflexivity|].
      apply sup_sub in H0. rewrite forallb_app, D. cbn [forallb]. rewrite dis_sub, H0. reflexivity.
    - (* DefInf *) apply gen_e_iff in H as [lo [o [E D]]]. cbn [Typing.gen_s]. rewrite E.
      eexists _, _. split; [reflexivity|]. split; [reflexivity|exact D].
    - (* Assign *) rewrite lookup_erase in H. destruct (lookup env0 x) as [w|] eqn:EL; [|discriminate].
      cbn in H. inversion H; subst v. cbn in H0, H2. apply gen_e_iff in H1 as [lo [o [E D]]].
      cbn [Typing.gen_s]. rewrite EL, E, H0. eexists _, _. split; [reflexivity|]. split; [reflexivity|].
      apply sup_sub in H2. rewrite forallb_app, D. cbn [forallb]. rewrite dis_sub, H2. reflexivity.
    - (* SetField *) apply gen_e_iff in H as [lb [o1 [E1 D1]]]. apply gen_e_iff in H2 as [lo [o2 [E2 D2]]].
      cbn [Typing.gen_s]. rewrite E1, E2, H1. eexists _, _. split; [reflexivity|]. split; [reflexivity|].
      apply sup_sub in H3. rewrite forallb_app3, D1, D2. cbn [forallb]. rewrite dis_field, dis_sub, H0, H3. reflexivity.
    - (* Expr *) apply gen_e_iff in H as [lo [o [E D]]]. cbn [Typing.gen_s]. rewrite E.
      eexists _, _. split; [reflexivity|]. split; [reflexivity|exact D].
    - (* Print *) apply use_iff in H as [o [E D]]. cbn [Typing.gen_s]. rewrite E.
      eexists _, _. split; [reflexivity|]. split; [reflexivity|exact D].
    - (* If *) apply use_iff in H as [o [E D]].
      destruct (H1 env0 eq_refl) as [e1 [o1 [E1 [_ D1]]]]. destruct (H3 env0 eq_refl) as [e2 [o2 [E2 [_ D2]]]].
      rewrite gen_s_if, E, E1, E2. eexists _, _. split; [reflexivity|]. split; [reflexivity|].
      rewrite forallb_app3, D, D1, D2. reflexivity.
    - (* While *) apply use_iff in H as [o [E D]].
      destruct (H1 env0 eq_refl) as [e1 [o1 [E1 [_ D1]]]].
      rewrite gen_s_while, E, E1. eexists _, _. split; [reflexivity|]. split; [reflexivity|].
      rewrite forallb_app, D, D1. reflexivity.
    - (* For *) destruct H as [t1 [HT1 HS1]]. destruct H0 as [t2 [HT2 HS2]].
      apply gen_e_iff in HT1 as [l1 [o1 [E1 D1]]]. apply gen_e_iff in HT2 as [l2 [o2 [E2 D2]]].
      destruct (H2 ((x, vfix tInt) :: env0) eq_refl) as [e3 [o3 [E3 [_ D3]]]].
      rewrite gen_s_for, E1, E2, E3. eexists _, _. split; [reflexivity|]. split; [reflexivity|].
      rewrite !forallb_app, D1, D2, D3. cbn [forallb]. rewrite !dis_range.
      apply sup_sub in HS1, HS2. rewrite HS1, HS2. reflexivity.
    - (* Match *) apply gen_e_iff in H as [lo [o [E D]]]. destruct (H1 env0 eq_refl) as [os [E1 D1]].
      rewrite gen_s_match, E, E1. eexists _, _. split; [reflexivity|]. split; [reflexivity|].
      rewrite forallb_app, D, D1. reflexivity.
    - (* Handle *) apply gen_e_iff in H as [lo [o [E D]]]. destruct (H2 env0 eq_refl) as [os [E1 D1]].
      rewrite gen_s_handle, E, E1. eexists _, _. split; [reflexivity|]. split; [apply erase_bind|].
      rewrite forallb_app3, D, D1. apply (bind_obl_ok bd t lo) in H0. rewrite H0. reflexivity.
    - (* Return *) apply gen_e_iff in H0 as [lo [o [E D]]]. cbn [Typing.gen_s]. rewrite E.
      eexists _, _. split; [reflexivity|]. split; [reflexivity|].
      apply sup_sub in H1. rewrite forallb_app, D. cbn [forallb]. rewrite dis_sub, H1. reflexivity.
    - (* Raise *) apply gen_e_iff in H as [lo [o [E D]]]. cbn [Typing.gen_s]. rewrite E.
      eexists _, _. split; [reflexivity|]. split; [reflexivity|exact D].
    - (* B_nil *) eexists _, _. split; [apply gen_b_nil|]. split; reflexivity.
    - (* B_cons *) destruct (H0 env0 eq_refl) as [e1 [o1 [E1 [Ee1 D1]]]].
      destruct (H2 e1 Ee1) as [e2 [o2 [E2 [Ee2 D2]]]].
      rewrite gen_b_cons, E1, E2. eexists _, _. split; [reflexivity|]. split; [exact Ee2|].
      rewrite forallb_app, D1, D2. reflexivity.
    - (* MA_nil *) exists []. split; reflexivity.
    - (* MA_cons *) destruct (H0 env0 eq_refl) as [e1 [o1 [E1 [_ D1]]]]. destruct (H2 env0 eq_refl) as [os [E2 D2]].
      cbn [Typing.gen_marms]. rewrite E1, E2. eexists. split; [reflexivity|]. rewrite forallb_app, D1, D2. reflexivity.
    - (* HA_nil *) exists []. split; reflexivity.
    - (* HA_val *) destruct (H0 ((var, vfix (tcls exc)) :: env0) eq_refl) as [e1 [ob [E1 [Ee1 D1]]]].
      subst env1. apply gen_e_iff in H1 as [lv [ov [E2 D2]]]. destruct (H4 env0 eq_refl) as [os [E3 D3]].
      cbn [Typing.gen_harms Typing.gen_harm]. rewrite E1, E2, E3. eexists. split; [reflexivity|].
      rewrite !forallb_app, D1, D2, D3. cbn [forallb]. rewrite dis_sub. apply sup_sub in H2. rewrite H2. reflexivity.
    - (* HA_noval *) destruct (H0 ((var, vfix (tcls exc)) :: env0) eq_refl) as [e1 [ob [E1 [Ee1 D1]]]].
      destruct (H2 env0 eq_refl) as [os [E3 D3]].
      cbn [Typing.gen_harms Typing.gen_harm]. rewrite E1, E3. eexists. split; [reflexivity|].
      rewrite forallb_app, D1, D3. reflexivity.
  Qed.

  (** induction principle for statements (nested lists, mutual with handle arms) *)
  Section StmtInd.
    Variable P : stmt -> Prop.
    Variable Q : harm -> Prop.
    Hypothesis HDef : forall x mut ann e, P (SDef x mut ann e).
    Hypothesis HAssign : forall x e, P (SAssign x e).
    Hypothesis HSetField : forall o f e, P (SSetField o f e).
    Hypothesis HExpr : forall e, P (SExpr e).
    Hypothesis HPrint : forall e, P (SPrint e).
    Hypothesis HIf : forall c t e, Forall P t -> Forall P e -> P (SIf c t e).
    Hypothesis HWhile : forall c b, Forall P b -> P (SWhile c b).
    Hypothesis HFor : forall x lo hi b, Forall P b -> P (SFor x lo hi b).
    Hypothesis HMatch : forall e arms, Forall (fun a => Forall P (snd a)) arms -> P (SMatch e arms).
    Hypothesis HHandle : forall bd call arms, Forall Q arms -> P (SHandle bd call arms).
    Hypothesis HReturn : forall e, P (SReturn e).
    Hypothesis HRaise : forall exc args, P (SRaise exc args).
    Hypothesis HArm' : forall exc var body val, Forall P body -> Q (HArm exc var body val).

    Fixpoint stmt_ind' (s : stmt) : P s :=
      let fix go (l : list stmt) : Forall P l :=
        match l with
        | [] => Forall_nil P
        | x :: r => Forall_cons x (stmt_ind' x) (go r)
        end in
      match s with
      | SDef x mut ann e => HDef x mut ann e
      | SAssign x e => HAssign x e
      | SSetField o f e => HSetField o f e
      | SExpr e => HExpr e
      | SPrint e => HPrint e
      | SIf c t e => HIf c t e (go t) (go e)
      | SWhile c b => HWhile c b (go b)
      | SFor x lo hi b => HFor x lo hi b (go b)
      | SMatch e arms =>
          HMatch e arms
            ((fix goa (l : list (pat * list stmt)) : Forall (fun a => Forall P (snd a)) l :=
                match l with
                | [] => Forall_nil _
                | (p, b) :: r => Forall_cons (p, b) (go b) (goa r)
                end) arms)
      | SHandle bd call arms =>
          HHandle bd call arms
            ((fix goh (l : list harm) : Forall Q l :=
                match l with
                | [] => Forall_nil Q
                | a :: r => Forall_cons a (harm_ind' a) (goh r)
                end) arms)
      | SReturn e => HReturn e
      | SRaise exc args => HRaise exc args
      end
    with harm_ind' (a : harm) : Q a :=
      match a with
      | HArm exc var body val =>
          HArm' exc var body val
            ((fix go (l : list stmt) : Forall P l :=
                match l with
                | [] => Forall_nil P
                | x :: r => Forall_cons x (stmt_ind' x) (go r)
                end) body)
      end.
  End StmtInd.

  Definition s_sound (s : stmt) : Prop :=
    forall R env env' l, gen_s R env s = Some (env', l) -> forallb dis l = true -> stmt_ok R (erase env) s (erase env').

  Lemma sound_b : forall b, Forall s_sound b ->
    forall R env env' l, gen_b R env b = Some (env', l) -> forallb dis l = true -> block_ok R (erase env) b (erase env').
  Proof.
    induction 1 as [|s r Hs Hr IH]; intros R env env' l E D.
    - rewrite gen_b_nil in E. inversion E; subst. constructor.
    - rewrite gen_b_cons in E. destruct (gen_s R env s) as [[e1 o1]|] eqn:E1; [|discriminate].
      destruct (gen_b R e1 r) as [[e2 o2]|] eqn:E2; [|discriminate]. inversion E; subst. clear E.
      rewrite forallb_app in D. apply andb_prop in D as [D1 D2].
      eapply B_cons; [exact (Hs R env e1 o1 E1 D1) | exact (IH R e1 env' o2 E2 D2)].
  Qed.

  Lemma sound_marms : forall arms, Forall (fun a => Forall s_sound (snd a)) arms ->
    forall R env l, gen_marms R env arms = Some l -> forallb dis l = true -> marms_ok R (erase env) arms.
  Proof.
    induction 1 as [|[p b] r Hb Hr IH]; intros R env l E D.
    - constructor.
    - cbn [Typing.gen_marms] in E. destruct (gen_b R env b) as [[e1 o1]|] eqn:E1; [|discriminate].
      destruct (gen_marms R env r) as [os|] eqn:E2; [|discriminate]. inversion E; subst. clear E.
      rewrite forallb_app in D. apply andb_prop in D as [D1 D2].
      eapply MA_cons; [exact (sound_b b Hb R env e1 o1 E1 D1) | exact (IH R env os E2 D2)].
  Qed.

  Definition h_sound (a : harm) : Prop :=
    match a with HArm _ _ body _ => Forall s_sound body end.

  Lemma sound_harms : forall arms, Forall h_sound arms ->
    forall R env bd t l, gen_harms R env bd t arms = Some l -> forallb dis l = true -> harms_ok R (erase env) bd t arms.
  Proof.
    induction 1 as [|[exc var body val] r Hb Hr IH]; intros R env bd t l E D.
    - constructor.
    - cbn [Typing.gen_harms Typing.gen_harm] in E.
      destruct (gen_b R ((var, vfix (tcls exc)) :: env) body) as [[e1 ob]|] eqn:E1; [|discriminate].
      destruct val as [v|].
      + destruct (gen_e e1 v) as [[[tv lv] ov]|] eqn:E2; [|discriminate].
        destruct (gen_harms R env bd t r) as [os|] eqn:E3; [|discriminate]. inversion E; subst. clear E.
        rewrite !forallb_app in D. apply andb_prop in D as [D D3]. apply andb_prop in D as [D1 D].
        apply andb_prop in D as [D2 D4]. cbn [forallb] in D4. rewrite dis_sub, andb_true_r in D4.
        eapply HA_val; [exact (sound_b body Hb R _ e1 ob E1 D1) | exact (sound_e v e1 tv lv ov E2 D2)
                        | apply sup_sub; exact D4 | exact (IH R env bd t os E3 D3)].
      + destruct bd as [b|]; [discriminate|].
        destruct (gen_harms R env None t r) as [os|] eqn:E3; [|discriminate]. inversion E; subst. clear E.
        rewrite forallb_app in D. apply andb_prop in D as [D1 D3].
        eapply HA_noval; [exact (sound_b body Hb R _ e1 ob E1 D1) | exact (IH R env None t os E3 D3)].
  Qed.

  Lemma sound_s : forall s, s_sound s.
  Proof.
    apply (stmt_ind' s_sound h_sound); unfold s_sound; intros.
    - (* Def *) cbn [Typing.gen_s] in H. destruct (gen_e env e) as [[[t lo] o]|] eqn:E; [|discriminate].
      destruct ann as [T|]; inversion H; subst; clear H.
      + rewrite forallb_app in H0. apply andb_prop in H0 as [D1 D2]. cbn [forallb] in D2. rewrite dis_sub, andb_true_r in D2.
        rewrite erase_cons. cbn [v_ty v_mut]. eapply S_DefAnn; [exact (sound_e e env t lo o E D1) | apply sup_sub; exact D2].
      + rewrite erase_cons. cbn [v_ty v_mut]. eapply S_DefInf. exact (sound_e e env t lo l E H0).
    - (* Assign *) cbn [Typing.gen_s] in H. destruct (lookup env x) as [w|] eqn:EL; [|discriminate].
      destruct (gen_e env e) as [[[t lo] o]|] eqn:E; [|discriminate].
      destruct (v_mut w) eqn:EM; [|discriminate]. inversion H; subst; clear H.
      rewrite forallb_app in H0. apply andb_prop in H0 as [D1 D2]. cbn [forallb] in D2. rewrite dis_sub, andb_true_r in D2.
      eapply S_Assign with (v := {| d_ty := v_ty w; d_mut := v_mut w |}).
      + rewrite lookup_erase, EL. reflexivity.
      + exact EM.
      + exact (sound_e e env' t lo o E D1).
      + apply sup_sub. exact D2.
    - (* SetField *) cbn [Typing.gen_s] in H.
      destruct (gen_e env o) as [[[tb lb] o1]|] eqn:E1; [|discriminate].
      destruct (gen_e env e) as [[[t lo] o2]|] eqn:E2; [|discriminate].
      destruct (find_field cx fields (tcname tb) f) as [ft|] eqn:EF; [|discriminate]. inversion H; subst; clear H.
      rewrite forallb_app3 in H0. apply andb_prop in H0 as [D D3]. apply andb_prop in D as [D1 D2].
      cbn [forallb] in D3. rewrite dis_field, dis_sub, andb_true_r in D3. apply andb_prop in D3 as [D3 D4].
      eapply S_SetField; [exact (sound_e o env' tb lb o1 E1 D1) | exact D3 | exact EF
                          | exact (sound_e e env' t lo o2 E2 D2) | apply sup_sub; exact D4].
    - (* Expr *) cbn [Typing.gen_s] in H. destruct (gen_e env e) as [[[t lo] o]|] eqn:E; [|discriminate].
      inversion H; subst; clear H. eapply S_Expr. exact (sound_e e env' t lo l E H0).
    - (* Print *) cbn [Typing.gen_s] in H. destruct (gen_use "__str__" env e) as [o|] eqn:E; [|discriminate].
      inversion H; subst; clear H. apply S_Print. apply use_iff. exists l. split; assumption.
    - (* If *) rewrite gen_s_if in H1. destruct (gen_use "__bool__" env c) as [o|] eqn:E; [|discriminate].
      destruct (gen_b R env t) as [[e1 o1]|] eqn:E1; [|discriminate].
      destruct (gen_b R env e) as [[e2 o2]|] eqn:E2; [|discriminate]. inversion H1; subst; clear H1.
      rewrite forallb_app3 in H2. apply andb_prop in H2 as [D D2]. apply andb_prop in D as [D0 D1].
      eapply S_If; [apply use_iff; exists o; split; assumption
                    | exact (sound_b t H R env' e1 o1 E1 D1) | exact (sound_b e H0 R env' e2 o2 E2 D2)].
    - (* While *) rewrite gen_s_while in H0. destruct (gen_use "__bool__" env c) as [o|] eqn:E; [|discriminate].
      destruct (gen_b R env b) as [[e1 o1]|] eqn:E1; [|discriminate]. inversion H0; subst; clear H0.
      rewrite forallb_app in H1. apply andb_prop in H1 as [D0 D1].
      eapply S_While; [apply use_iff; exists o; split; assumption | exact (sound_b b H R env' e1 o1 E1 D1)].
    - (* For *) rewrite gen_s_for in H0.
      destruct (gen_e env lo) as [[[t1 l1] o1]|] eqn:E1; [|discriminate].
      destruct (gen_e env hi) as [[[t2 l2] o2]|] eqn:E2; [|discriminate].
      destruct (gen_b R ((x, vfix tInt) :: env) b) as [[e3 o3]|] eqn:E3; [|discriminate]. inversion H0; subst; clear H0.
      rewrite !forallb_app in H1. apply andb_prop in H1 as [D1 D]. apply andb_prop in D as [D2 D].
      cbn [forallb app] in D. rewrite !dis_range in D.
      apply andb_prop in D as [D4 D]. apply andb_prop in D as [D5 D3].
      eapply S_For.
      + exists t1. split; [exact (sound_e lo env' t1 l1 o1 E1 D1) | apply sup_sub; exact D4].
      + exists t2. split; [exact (sound_e hi env' t2 l2 o2 E2 D2) | apply sup_sub; exact D5].
      + exact (sound_b b H R _ e3 o3 E3 D3).
    - (* Match *) rewrite gen_s_match in H0. destruct (gen_e env e) as [[[t lo] o]|] eqn:E; [|discriminate].
      destruct (gen_marms R env arms) as [os|] eqn:E1; [|discriminate]. inversion H0; subst; clear H0.
      rewrite forallb_app in H1. apply andb_prop in H1 as [D0 D1].
      eapply S_Match; [exact (sound_e e env' t lo o E D0) | exact (sound_marms arms H R env' os E1 D1)].
    - (* Handle *) rewrite gen_s_handle in H0. destruct (gen_e env call) as [[[t lo] o]|] eqn:E; [|discriminate].
      destruct (gen_harms R env bd t arms) as [os|] eqn:E1; [|discriminate]. inversion H0; subst; clear H0.
      rewrite forallb_app3 in H1. apply andb_prop in H1 as [D D2]. apply andb_prop in D as [D0 D1].
      rewrite erase_bind. eapply S_Handle; [exact (sound_e call env t lo o E D0) | apply (bind_obl_ok bd t lo); exact D1
                                            | exact (sound_harms arms H R env bd t os E1 D2)].
    - (* Return *) cbn [Typing.gen_s] in H. destruct R as [T|]; [|discriminate].
      destruct (gen_e env e) as [[[t lo] o]|] eqn:E; [|discriminate]. inversion H; subst; clear H.
      rewrite forallb_app in H0. apply andb_prop in H0 as [D1 D2]. cbn [forallb] in D2. rewrite dis_sub, andb_true_r in D2.
      eapply S_Return; [reflexivity | exact (sound_e e env' t lo o E D1) | apply sup_sub; exact D2].
    - (* Raise *) cbn [Typing.gen_s] in H. destruct (gen_e env (ECall exc args)) as [[[t lo] o]|] eqn:E; [|discriminate].
      inversion H; subst; clear H. eapply S_Raise. exact (sound_e _ env' t lo l E H0).
    - (* arm *) exact H.
  Qed.

  Theorem gen_b_iff R env b denv' :
    block_ok R (erase env) b denv' <-> b_ok R env b denv'.
  Proof.
    split.
    - intros H. exact (proj1 (proj2 (complete_stmts R)) (erase env) b denv' H env eq_refl).
    - intros [env' [l [E [Ee D]]]]. subst denv'.
      apply (sound_b b) with (l := l); [|exact E|exact D]. apply Forall_forall. intros s _. apply sound_s.
  Qed.

  (** ** definitions and programs *)
  Notation gen_params := (gen_params cx sigs funs fields).
  Notation gen_fun := (gen_fun cx sigs funs fields).
  Notation gen_funs := (gen_funs cx sigs funs fields).
  Notation gen_class := (gen_class cx sigs funs fields).
  Notation gen_classes := (gen_classes cx sigs funs fields).
  Notation gen_prog := (gen_prog cx sigs funs fields).
  Notation params_ok := (params_ok cx sigs funs fields).
  Notation fun_ok := (fun_ok cx sigs funs fields).
  Notation class_ok := (class_ok cx sigs funs fields).

  Definition g_ok (r : option (list oblig)) : Prop := exists l, r = Some l /\ forallb dis l = true.

  Lemma params_iff ps : params_ok ps <-> g_ok (gen_params ps).
  Proof.
    unfold g_ok. induction ps as [|p r IH]; cbn [Typing.gen_params].
    - split; [intros _; exists []; split; reflexivity | intros _; constructor].
    - split.
      + intros H. inversion H as [| p' r' HN HR | p' r' d t HD HT HS HR]; subst.
        * apply IH in HR as [os [E D]]. rewrite E, HN. exists os. split; [reflexivity|exact D].
        * apply IH in HR as [os [E D]]. rewrite E, HD.
          apply (gen_e_iff []) in HT as [lo [o [E1 D1]]]. rewrite E1. eexists. split; [reflexivity|].
          apply sup_sub in HS. rewrite forallb_app3, D1, D. cbn [forallb]. rewrite dis_sub, HS. reflexivity.
      + intros [l [E D]]. destruct (gen_params r) as [os|] eqn:ER; [|discriminate].
        destruct (pa_default p) as [d|] eqn:ED.
        * destruct (gen_e [] d) as [[[t lo] o]|] eqn:E1; [|discriminate]. inversion E; subst; clear E.
          rewrite forallb_app in D. apply andb_prop in D as [D1 D]. cbn [forallb app] in D. rewrite dis_sub in D.
          apply andb_prop in D as [D2 D3].
          eapply PO_def; [exact ED | exact (sound_e d [] t lo o E1 D1) | apply sup_sub; exact D2
                          | apply IH; exists os; split; [reflexivity|exact D3]].
        * inversion E; subst. apply PO_nodef; [exact ED | apply IH; exists l; split; [reflexivity|exact D]].
  Qed.

  Lemma fun_iff self f : fun_ok self f <-> g_ok (gen_fun self f).
  Proof.
    unfold g_ok, Typing.gen_fun.
    set (env := param_env (fd_params f) ++ match self with Some c => [("self", vfix (tcls c))] | None => [] end).
    assert (Eenv : fun_env self f = erase env) by reflexivity.
    split.
    - intros H. destruct H as [env1 T e t HP HB ER EX HT HS | env1 T HP HB ER EX HRet | env1 HP HB ER EX | env1 e t HP HB ER EX HT];
        apply params_iff in HP as [op [EP DP]]; rewrite Eenv in HB; apply gen_b_iff in HB as [env' [ob [EB [Ee DB]]]];
        rewrite EP, EB, ER, EX.
      + subst env1. apply gen_e_iff in HT as [lo [o [E1 D1]]]. rewrite E1. eexists. split; [reflexivity|].
        apply sup_sub in HS. rewrite !forallb_app, DP, DB, D1. cbn [forallb]. rewrite dis_sub, HS. reflexivity.
      + eexists. split; [reflexivity|]. rewrite !forallb_app, DP, DB. cbn [forallb]. cbn. rewrite HRet. reflexivity.
      + eexists. split; [reflexivity|]. rewrite forallb_app, DP, DB. reflexivity.
      + subst env1. apply gen_e_iff in HT as [lo [o [E1 D1]]]. rewrite E1. eexists. split; [reflexivity|].
        rewrite !forallb_app, DP, DB, D1. reflexivity.
    - intros [l [E D]]. destruct (gen_params (fd_params f)) as [op|] eqn:EP; [|discriminate].
      destruct (gen_b (fd_ret f) env (fd_body f)) as [[env' ob]|] eqn:EB; [|discriminate].
      assert (HPok : forallb dis op = true -> params_ok (fd_params f)).
      { intros DP. apply params_iff. exists op. split; [exact EP|exact DP]. }
      assert (HBok : forallb dis ob = true -> block_ok (fd_ret f) (fun_env self f) (fd_body f) (erase env')).
      { intros DB. rewrite Eenv. apply gen_b_iff. exists env', ob. repeat split; assumption. }
      destruct (fd_ret f) as [T|] eqn:ER; destruct (fd_result f) as [e|] eqn:EX.
      + destruct (gen_e env' e) as [[[t lo] o]|] eqn:E1; [|discriminate]. inversion E; subst; clear E.
        rewrite !forallb_app in D. apply andb_prop in D as [DP D]. apply andb_prop in D as [DB D]. apply andb_prop in D as [D1 D2].
        cbn [forallb] in D2. rewrite dis_sub, andb_true_r in D2.
        eapply F_result; [exact (HPok DP) | (rewrite ER; exact (HBok DB)) | exact ER | exact EX
                          | exact (sound_e e env' t lo o E1 D1) | apply sup_sub; exact D2].
      + inversion E; subst; clear E.
        rewrite !forallb_app in D. apply andb_prop in D as [DP D]. apply andb_prop in D as [DB D2].
        cbn in D2. rewrite andb_true_r in D2.
        eapply F_returns; [exact (HPok DP) | (rewrite ER; exact (HBok DB)) | exact ER | exact EX | exact D2].
      + destruct (gen_e env' e) as [[[t lo] o]|] eqn:E1; [|discriminate]. inversion E; subst; clear E.
        rewrite !forallb_app in D. apply andb_prop in D as [DP D]. apply andb_prop in D as [DB D1].
        eapply F_proc_e; [exact (HPok DP) | (rewrite ER; exact (HBok DB)) | exact ER | exact EX | exact (sound_e e env' t lo o E1 D1)].
      + inversion E; subst; clear E. rewrite forallb_app in D. apply andb_prop in D as [DP DB].
        eapply F_proc; [exact (HPok DP) | (rewrite ER; exact (HBok DB)) | exact ER | exact EX].
  Qed.

  Lemma funs_iff self fs : Forall (fun_ok self) fs <-> g_ok (gen_funs self fs).
  Proof.
    unfold g_ok. induction fs as [|f r IH]; cbn [Typing.gen_funs].
    - split; [intros _; exists []; split; reflexivity | intros _; constructor].
    - split.
      + intros H. inversion H as [|f' r' HF HR]; subst. apply fun_iff in HF as [o [E D]]. apply IH in HR as [os [E' D']].
        rewrite E, E'. eexists. split; [reflexivity|]. rewrite forallb_app, D, D'. reflexivity.
      + intros [l [E D]]. destruct (gen_fun self f) as [o|] eqn:E1; [|discriminate].
        destruct (gen_funs self r) as [os|] eqn:E2; [|discriminate]. inversion E; subst; clear E.
        rewrite forallb_app in D. apply andb_prop in D as [D1 D2]. constructor.
        * apply fun_iff. exists o. split; [exact E1|exact D1].
        * apply IH. exists os. split; [reflexivity|exact D2].
  Qed.

  Lemma dis_retag k o : dis (retag k o) = dis o.
  Proof. destruct o as [k' T t lo| | | |]; try reflexivity. destruct k'; cbn [retag]; rewrite ?dis_sub; reflexivity. Qed.

  Lemma forallb_retag k l : forallb dis (map (retag k) l) = forallb dis l.
  Proof. induction l as [|o r IH]; [reflexivity|]. cbn [map forallb]. rewrite dis_retag, IH. reflexivity. Qed.

  Lemma class_iff c : class_ok c <-> g_ok (gen_class c).
  Proof.
    unfold g_ok, Typing.gen_class. split.
    - intros H. destruct H as [HM EPar | pn args fs ts HM EPar EF HT HA];
        apply funs_iff in HM as [om [EM DM]]; rewrite EM, EPar.
      + exists om. split; [reflexivity|exact DM].
      + rewrite EF. apply gen_es_iff in HT as [acts [oa [E1 [Em D1]]]]. subst ts. rewrite E1.
        destruct (zip_complete KFunArg KFunArg (fs_params fs) acts HA) as [o [E2 D2]]. rewrite E2.
        eexists. split; [reflexivity|]. rewrite forallb_app3, DM, D1, forallb_retag, D2. reflexivity.
    - intros [l [E D]]. destruct (gen_funs (Some (cd_name c)) (cd_methods c)) as [om|] eqn:EM; [|discriminate].
      destruct (cd_parent c) as [[pn args]|] eqn:EPar.
      + destruct (find_fun funs pn) as [fs|] eqn:EF; [|discriminate].
        match type of E with match ?G with _ => _ end = _ => destruct G as [[acts oa]|] eqn:E1; [|discriminate] end.
        destruct (zip_params KFunArg KFunArg (fs_params fs) acts) as [o|] eqn:E2; [|discriminate]. inversion E; subst; clear E.
        rewrite forallb_app3, forallb_retag in D. apply andb_prop in D as [D D2]. apply andb_prop in D as [DM D1].
        eapply C_parent; [apply funs_iff; exists om; split; [exact EM|exact DM] | exact EPar | exact EF | | exact (zip_sound _ _ _ _ _ E2 D2)].
        apply gen_es_iff. exists acts, oa. repeat split; assumption.
      + inversion E; subst. apply C_noparent; [apply funs_iff; exists l; split; [exact EM|exact D] | exact EPar].
  Qed.

  Lemma classes_iff cs : Forall class_ok cs <-> g_ok (gen_classes cs).
  Proof.
    unfold g_ok. induction cs as [|c r IH]; cbn [Typing.gen_classes].
    - split; [intros _; exists []; split; reflexivity | intros _; constructor].
    - split.
      + intros H. inversion H as [|c' r' HF HR]; subst. apply class_iff in HF as [o [E D]]. apply IH in HR as [os [E' D']].
        rewrite E, E'. eexists. split; [reflexivity|]. rewrite forallb_app, D, D'. reflexivity.
      + intros [l [E D]]. destruct (gen_class c) as [o|] eqn:E1; [|discriminate].
        destruct (gen_classes r) as [os|] eqn:E2; [|discriminate]. inversion E; subst; clear E.
        rewrite forallb_app in D. apply andb_prop in D as [D1 D2]. constructor.
        * apply class_iff. exists o. split; [exact E1|exact D1].
        * apply IH. exists os. split; [reflexivity|exact D2].
  Qed.

  (** ** C05, main theorem: the check accepts exactly the conforming programs *)
  Theorem check_iff p : check_with cx sigs funs fields noq p = true <-> conforms_with cx sigs funs fields p.
  Proof.
    unfold check_with, conforms_with, Typing.gen_prog. split.
    - intros H. destruct (gen_classes (p_classes p)) as [oc|] eqn:EC; [|discriminate].
      destruct (gen_funs None (p_funs p)) as [of|] eqn:EF; [|discriminate].
      destruct (gen_b None [] (p_main p)) as [[env om]|] eqn:EM; [|discriminate].
      rewrite forallb_app3 in H. apply andb_prop in H as [H DM]. apply andb_prop in H as [DC DF].
      split; [apply classes_iff; exists oc; split; [exact EC|exact DC]|].
      split; [apply funs_iff; exists of; split; [exact EF|exact DF]|].
      exists (erase env). apply (gen_b_iff None []). exists env, om. repeat split; assumption.
    - intros [HC [HF [denv HM]]]. apply classes_iff in HC as [oc [EC DC]]. apply funs_iff in HF as [of [EF DF]].
      apply (gen_b_iff None []) in HM as [env [om [EM [_ DM]]]]. rewrite EC, EF, EM, forallb_app3, DC, DF, DM. reflexivity.
  Qed.
End Tables.


(** * The implementation's verdict outside the known classes *)
Section Known.
  Variable builtins : ctx.
  Variable stubs : list msig.

  Theorem check_noq_iff p : check builtins stubs noq p = true <-> conforms builtins stubs p.
  Proof. apply check_iff. Qed.

  Lemma agree_outside cxp strip l :
    forallb (fun o => negb (in_known cxp strip o)) l = true ->
    forallb (discharge cxp (impl_quirks strip)) l = forallb (discharge cxp noq) l.
  Proof.
    induction l as [|o r IH]; [reflexivity|]. cbn [forallb]. intros H. apply andb_prop in H as [H1 H2].
    rewrite (IH H2). unfold in_known in H1. rewrite negb_involutive in H1. apply eqb_prop in H1. rewrite H1. reflexivity.
  Qed.

  Theorem outside_known strip p :
    known_free builtins stubs strip p = true ->
    (check builtins stubs (impl_quirks strip) p = true <-> conforms builtins stubs p).
  Proof.
    intros H. rewrite <- check_noq_iff. unfold check, check_with. unfold known_free, obligations in H.
    destruct (gen_prog (cx_of builtins p) (sigs_of stubs p) (funs_of stubs p) (fields_of p) p) as [l|]; [|tauto].
    rewrite (agree_outside _ _ _ H). tauto.
  Qed.

  (** the known classes, one by one *)
  Lemma in_known_field cxp strip t : in_known cxp strip (OFieldRecv t false) = negb (nonnull t).
  Proof. unfold in_known. cbn. destruct (nonnull t); reflexivity. Qed.

  Lemma in_known_handle cxp strip T t : in_known cxp strip (OSub KHandleArm T t false) = negb (sup cxp T t).
  Proof. unfold in_known. cbn. destruct (sup cxp T t); reflexivity. Qed.

  Lemma in_known_parent cxp strip T t : in_known cxp strip (OSub KParentArg T t false) = negb (sup cxp T t).
  Proof. unfold in_known. cbn. destruct (sup cxp T t); reflexivity. Qed.

  Lemma in_known_falloff cxp strip r : in_known cxp strip (OFallOff r) = negb r.
  Proof. unfold in_known. cbn. destruct r; reflexivity. Qed.

  Lemma in_known_join cxp strip ok : in_known cxp strip (OJoin ok) = negb ok.
  Proof. unfold in_known. cbn. destruct ok; reflexivity. Qed.

  Lemma in_known_range_expr cxp strip t : in_known cxp strip (ORange false t false) = false.
  Proof. unfold in_known. cbn. destruct (sup cxp [tInt] t); reflexivity. Qed.

  Lemma in_known_range_path cxp strip t :
    in_known cxp strip (ORange true t false) = negb (Bool.eqb (sup cxp [t] tInt) (sup cxp [tInt] t)).
  Proof. reflexivity. Qed.

  Lemma strip_nonnull T : forallb (fun t => negb (tnull t)) T = true -> map strip_null T = T.
  Proof.
    induction T as [|[n c g] r IH]; [reflexivity|]. cbn [forallb map]. intros H. apply andb_prop in H as [H1 H2].
    rewrite (IH H2). destruct n; [discriminate|]. reflexivity.
  Qed.

  Lemma in_known_funarg cxp strip T t :
    strip = false \/ forallb (fun t => negb (tnull t)) T = true -> in_known cxp strip (OSub KFunArg T t false) = false.
  Proof.
    intros [-> | H]; unfold in_known; cbn.
    - destruct (sup cxp T t); reflexivity.
    - destruct strip; rewrite ?(strip_nonnull T H); destruct (sup cxp T t); reflexivity.
  Qed.

  Lemma in_known_other cxp strip k T t :
    match k with KFunArg | KHandleArm | KParentArg => False | _ => True end ->
    in_known cxp strip (OSub k T t false) = false.
  Proof. unfold in_known. destruct k; cbn; intros H; try contradiction; destruct (sup cxp T t); reflexivity. Qed.

  (** a value that came out of [x ? d]: accepted wherever a type is expected, refused as a receiver *)
  Lemma in_known_loose cxp strip k T t :
    in_known cxp strip (OSub k T t true) = match k with KRecv => sup cxp T t | _ => negb (sup cxp T t) end.
  Proof. unfold in_known. destruct k; cbn; destruct (sup cxp T t); reflexivity. Qed.
End Known.

Theorem known_classes : forall cx strip,
  (forall t, in_known cx strip (OFieldRecv t false) = negb (nonnull t)) /\                 (* field of a T? / None receiver *)
  (forall T t, in_known cx strip (OSub KHandleArm T t false) = negb (sup cx T t)) /\      (* handle arm value of another type *)
  (forall T t, in_known cx strip (OSub KParentArg T t false) = negb (sup cx T t)) /\      (* parent constructor argument *)
  (forall r, in_known cx strip (OFallOff r) = negb r) /\                                   (* body can fall off its end *)
  (forall ok, in_known cx strip (OJoin ok) = negb ok) /\                                   (* x ? d with unrelated alternatives *)
  (forall t, in_known cx strip (ORange false t false) = false) /\
  (forall t, in_known cx strip (ORange true t false) = negb (Bool.eqb (sup cx [t] tInt) (sup cx [tInt] t))) /\
  (forall T t, strip = false \/ forallb (fun t => negb (tnull t)) T = true ->
               in_known cx strip (OSub KFunArg T t false) = false) /\                      (* only T? formals of functions *)
  (forall k T t, match k with KFunArg | KHandleArm | KParentArg => False | _ => True end ->
                 in_known cx strip (OSub k T t false) = false) /\
  (forall k T t, in_known cx strip (OSub k T t true) =                                     (* a value that came out of x ? d *)
                 match k with KRecv => sup cx T t | _ => negb (sup cx T t) end).
Proof.
  intros cx strip.
  repeat match goal with |- _ /\ _ => split end; intros;
    first [apply in_known_field | apply in_known_handle | apply in_known_parent | apply in_known_falloff
           | apply in_known_join | apply in_known_range_expr | apply in_known_range_path
           | apply in_known_funarg; assumption | apply in_known_other; assumption | apply in_known_loose].
Qed.

(** * Locality: a non-conforming use at any depth makes the program non-conforming *)
Inductive in_block : stmt -> list stmt -> Prop :=
| IB_here : forall s b, In s b -> in_block s b
| IB_deep : forall s s' b, In s' b -> in_stmt s s' -> in_block s b
with in_stmt : stmt -> stmt -> Prop :=
| IS_if_t : forall s c t e, in_block s t -> in_stmt s (SIf c t e)
| IS_if_e : forall s c t e, in_block s e -> in_stmt s (SIf c t e)
| IS_while : forall s c b, in_block s b -> in_stmt s (SWhile c b)
| IS_for : forall s x lo hi b, in_block s b -> in_stmt s (SFor x lo hi b)
| IS_match : forall s e arms p b, In (p, b) arms -> in_block s b -> in_stmt s (SMatch e arms)
| IS_handle : forall s bd call arms exc var body val,
    In (HArm exc var body val) arms -> in_block s body -> in_stmt s (SHandle bd call arms).

Definition stmt_in_program (s : stmt) (p : program) : Prop :=
  in_block s (p_main p) \/
  (exists f, In f (p_funs p) /\ in_block s (fd_body f)) \/
  (exists c m, In c (p_classes p) /\ In m (cd_methods c) /\ in_block s (fd_body m)).

(** expressions directly consumed by a statement *)
Definition stmt_exprs (s : stmt) : list expr :=
  match s with
  | SDef _ _ _ e | SAssign _ e | SExpr e | SPrint e | SReturn e => [e]
  | SSetField o _ e => [o; e]
  | SIf c _ _ | SWhile c _ => [c]
  | SFor _ lo hi _ => [lo; hi]
  | SMatch e _ => [e]
  | SHandle _ call _ => [call]
  | SRaise exc args => [ECall exc args]
  end.

Inductive subexpr : expr -> expr -> Prop :=
| SE_refl : forall e, subexpr e e
| SE_op_l : forall e m l r, subexpr e l -> subexpr e (EOp m l r)
| SE_op_r : forall e m l r, subexpr e r -> subexpr e (EOp m l r)
| SE_not : forall e a, subexpr e a -> subexpr e (ENot a)
| SE_bool_l : forall e l r, subexpr e l -> subexpr e (EBoolOp l r)
| SE_bool_r : forall e l r, subexpr e r -> subexpr e (EBoolOp l r)
| SE_call : forall e f args a, In a args -> subexpr e a -> subexpr e (ECall f args)
| SE_meth_o : forall e o m args, subexpr e o -> subexpr e (EMeth o m args)
| SE_meth_a : forall e o m args a, In a args -> subexpr e a -> subexpr e (EMeth o m args)
| SE_field : forall e o f, subexpr e o -> subexpr e (EField o f)
| SE_quest_x : forall e x d, subexpr e x -> subexpr e (EQuest x d)
| SE_quest_d : forall e x d, subexpr e d -> subexpr e (EQuest x d)
| SE_if_c : forall e c t f, subexpr e c -> subexpr e (EIf c t f)
| SE_if_t : forall e c t f, subexpr e t -> subexpr e (EIf c t f)
| SE_if_e : forall e c t f, subexpr e f -> subexpr e (EIf c t f)
| SE_fmt : forall e es a, In a es -> subexpr e a -> subexpr e (EFmt es).

Section Local.
  Variable cx : ctx.
  Variable sigs : list msig.
  Variable funs : list fsig.
  Variable fields : list (string * string * ty).
  Notation has_type := (has_type cx sigs funs fields).
  Notation has_types := (has_types cx sigs funs fields).
  Notation strs_ok := (strs_ok cx sigs funs fields).
  Notation stmt_ok := (stmt_ok cx sigs funs fields).
  Notation block_ok := (block_ok cx sigs funs fields).
  Notation marms_ok := (marms_ok cx sigs funs fields).
  Notation harms_ok := (harms_ok cx sigs funs fields).

  Definition typable (d : denv) (e : expr) : Prop := exists t, has_type d e t.

  Lemma has_types_in d es ts a : has_types d es ts -> In a es -> typable d a.
  Proof.
    induction 1 as [|e es' t ts' He Hes IH]; intros HI; [destruct HI|].
    destruct HI as [<- | HI]; [exists t; exact He | exact (IH HI)].
  Qed.

  Lemma strs_ok_in d es a : strs_ok d es -> In a es -> typable d a.
  Proof.
    induction 1 as [|e es' t ts' He Hm Hes IH]; intros HI; [destruct HI|].
    destruct HI as [<- | HI]; [exists t; exact He | exact (IH HI)].
  Qed.

  (** a sub-expression, at any depth, of a typable expression is typable (in the same environment) *)
  Theorem local_expr d e e' : subexpr e e' -> forall t, has_type d e' t -> typable d e.
  Proof.
    induction 1; intros t0 HT; try (inversion HT; subst; eauto; fail).
    - exists t0. exact HT.
    - inversion HT; subst. destruct (has_types_in _ _ _ a ltac:(eassumption) H) as [ta Ha]. eauto.
    - inversion HT; subst. destruct (has_types_in _ _ _ a ltac:(eassumption) H) as [ta Ha]. eauto.
    - inversion HT; subst. destruct (strs_ok_in _ _ a ltac:(eassumption) H) as [ta Ha]. eauto.
  Qed.

  Definition stmt_typable R (s : stmt) : Prop := exists d1 d2, stmt_ok R d1 s d2.

  Lemma block_in R d b d' s : block_ok R d b d' -> In s b -> stmt_typable R s.
  Proof.
    induction 1 as [|d0 s0 d1 r d2 Hs Hr IH]; intros HI; [destruct HI|].
    destruct HI as [<- | HI]; [exists d0, d1; exact Hs | exact (IH HI)].
  Qed.

  Lemma marms_in R d arms p b : marms_ok R d arms -> In (p, b) arms -> exists d', block_ok R d b d'.
  Proof.
    induction 1 as [|d0 p0 b0 r d1 Hb Hr IH]; intros HI; [destruct HI|].
    destruct HI as [E | HI]; [inversion E; subst; exists d1; exact Hb | exact (IH HI)].
  Qed.

  Lemma harms_in R d bd t arms exc var body val :
    harms_ok R d bd t arms -> In (HArm exc var body val) arms -> exists d0 d', block_ok R d0 body d'.
  Proof.
    induction 1; intros HI; [destruct HI| |].
    - destruct HI as [E | HI]; [inversion E; subst; eauto | eauto].
    - destruct HI as [E | HI]; [inversion E; subst; eauto | eauto].
  Qed.

  Scheme in_block_mind := Minimality for in_block Sort Prop
    with in_stmt_mind := Minimality for in_stmt Sort Prop.
  Combined Scheme in_block_mutind from in_block_mind, in_stmt_mind.

  Lemma local_stmt_all :
    (forall s b, in_block s b -> forall R d d', block_ok R d b d' -> stmt_typable R s) /\
    (forall s s', in_stmt s s' -> forall R d d', stmt_ok R d s' d' -> stmt_typable R s).
  Proof.
    apply in_block_mutind; intros.
    - eapply block_in; eassumption.
    - destruct (block_in _ _ _ _ _ H2 H) as [d1 [d2 Hs]]. eapply H1; eassumption.
    - inversion H1; subst. eapply H0; eassumption.
    - inversion H1; subst. eapply H0; eassumption.
    - inversion H1; subst. eapply H0; eassumption.
    - inversion H1; subst. eapply H0; eassumption.
    - inversion H2; subst. destruct (marms_in _ _ _ _ _ ltac:(eassumption) H) as [d1 Hb]. eapply H1; eassumption.
    - inversion H2; subst. destruct (harms_in _ _ _ _ _ _ _ _ _ ltac:(eassumption) H) as [d0 [d1 Hb]]. eapply H1; eassumption.
  Qed.

  Theorem local_block R d b d' s : block_ok R d b d' -> in_block s b -> stmt_typable R s.
  Proof. intros H HI. exact (proj1 local_stmt_all s b HI R d d' H). Qed.

  (** every expression a conforming statement consumes is typable *)
  Theorem local_stmt_exprs R d s d' e : stmt_ok R d s d' -> In e (stmt_exprs s) -> exists d1, typable d1 e.
  Proof.
    intros H HI. destruct H; cbn [stmt_exprs] in HI; repeat (destruct HI as [<- | HI]); try contradiction;
      unfold Typing.use_ok, Typing.range_ok in *;
      repeat match goal with H : exists _, _ |- _ => destruct H end;
      repeat match goal with H : _ /\ _ |- _ => destruct H end;
      eexists; eexists; eassumption.
  Qed.

  (** C05, locality: a statement at any depth of a conforming program conforms in some environment; hence a
      statement that conforms in no environment, anywhere in the program, makes the program non-conforming *)
  Theorem conforms_local p s :
    conforms_with cx sigs funs fields p -> stmt_in_program s p -> exists R, stmt_typable R s.
  Proof.
    intros [HC [HF [denv HM]]] [H | [[f [Hf H]] | [c [m [Hc [Hm H]]]]]].
    - exists None. exact (local_block None [] (p_main p) denv s HM H).
    - rewrite Forall_forall in HF. specialize (HF f Hf). exists (fd_ret f).
      destruct HF; eapply local_block; eassumption.
    - rewrite Forall_forall in HC. specialize (HC c Hc).
      assert (HMs : Forall (fun_ok cx sigs funs fields (Some (cd_name c))) (cd_methods c)) by (destruct HC; assumption).
      rewrite Forall_forall in HMs. specialize (HMs m Hm). exists (fd_ret m).
      destruct HMs; eapply local_block; eassumption.
  Qed.

  Corollary nonconforming_anywhere p s :
    stmt_in_program s p -> (forall R d1 d2, ~ stmt_ok R d1 s d2) -> ~ conforms_with cx sigs funs fields p.
  Proof. intros HI HN HC. destruct (conforms_local p s HC HI) as [R [d1 [d2 H]]]. exact (HN R d1 d2 H). Qed.
End Local.

(** * C06: null flow *)
Definition requires_nonnull (T : name) : bool :=
  forallb (fun s => negb (tnull s) && negb (String.eqb (tcname s) ANY) && negb (is_null s)) T.

Section NullFlow.
  Variable cx : ctx.
  Hypothesis Hok : ctx_ok cx = true.
  Hypothesis Hacyc : acyclic cx.

  (** the rule: what is accepted where a non-nullable (non-Any) type is required is neither nullable nor None *)
  Lemma nonnull_accepted T t :
    plainN cx T = true -> plain cx t = true -> requires_nonnull T = true -> sub cx T t -> nonnull t = true.
  Proof.
    intros PT Pt HR HS. unfold sub in HS.
    assert (PB : plainN cx [t] = true) by (cbn; rewrite Pt; reflexivity).
    apply (super_true cx Hok Hacyc T [t] PT PB) in HS. destruct HS as [_ HS].
    destruct (HS t (or_introl eq_refl)) as [s [Hs Hts]].
    unfold requires_nonnull in HR. rewrite forallb_forall in HR. specialize (HR s Hs).
    apply andb_prop in HR as [HR Hnn]. apply andb_prop in HR as [Hn Ha].
    apply negb_true_iff in Hn, Ha, Hnn. unfold nonnull.
    destruct Hts as [[Hx _] | [[Hx | Hx] Hp]]; try congruence.
    rewrite Hx. cbn [negb andb]. destruct (is_null t) eqn:En; [|reflexivity]. exfalso.
    unfold is_null in En, Hnn. apply String.eqb_eq in En. destruct Hp as [Hp | Hp].
    - rewrite Hp in Ha. rewrite String.eqb_refl in Ha. discriminate.
    - rewrite En in Hp. apply (anc_none cx _ (Hspec cx Hok)) in Hp. rewrite Hp, String.eqb_refl in Hnn. discriminate.
  Qed.

  Variable sigs : list msig.
  Variable funs : list fsig.
  Variable fields : list (string * string * ty).

  (** C06: in an accepted (equivalently, conforming) program no None and no T? reaches a position that requires a
      non-nullable T: argument, initialiser, new value of a variable or field, returned value, default, operand,
      receiver of a method / operator, receiver of a field access, range bound *)
  Theorem null_flow p l :
    conforms_with cx sigs funs fields p -> gen_prog cx sigs funs fields p = Some l ->
    (forall k T t lo, In (OSub k T t lo) l -> plainN cx T = true -> plain cx t = true ->
                      requires_nonnull T = true -> nonnull t = true) /\
    (forall t lo, In (OFieldRecv t lo) l -> nonnull t = true) /\
    (forall pth t lo, In (ORange pth t lo) l -> plainN cx [tInt] = true -> plain cx t = true -> nonnull t = true).
  Proof.
    intros HC HG. apply check_iff in HC. unfold check_with in HC. rewrite HG in HC. rewrite forallb_forall in HC.
    split; [|split].
    - intros k T t lo HI PT Pt HR. specialize (HC _ HI). rewrite dis_sub in HC. apply sup_sub in HC.
      exact (nonnull_accepted T t PT Pt HR HC).
    - intros t lo HI. specialize (HC _ HI). rewrite dis_field in HC. exact HC.
    - intros pth t lo HI PI Pt. specialize (HC _ HI). rewrite dis_range in HC. apply sup_sub in HC.
      exact (nonnull_accepted [tInt] t PI Pt eq_refl HC).
  Qed.

  (** positive half: T and None are accepted where T? is expected, and [x ? d] is a T *)
  Theorem nullable_accepts c :
    is_plain_class cx c = true -> c <> NONE ->
    sub cx [TN true c []] (tcls c) /\ sub cx [TN true c []] tNone /\ sub cx [tcls c] (tcls c).
  Proof.
    intros P Hn. split; [exact (nullable_accepts_base cx Hok Hacyc c P Hn)|].
    split; [exact (nullable_accepts_none cx Hok Hacyc c P Hn)|].
    apply (super_refl cx Hok Hacyc). cbn. unfold plain. cbn. rewrite P. reflexivity.
  Qed.

  Theorem quest_is_nonnull env x d c :
    is_plain_class cx c = true -> c <> NONE ->
    has_type cx sigs funs fields env x (TN true c []) -> has_type cx sigs funs fields env d (tcls c) ->
    has_type cx sigs funs fields env (EQuest x d) (tcls c).
  Proof.
    intros P Hn Hx Hd. destruct (nullable_accepts c P Hn) as [_ [HN HR]].
    eapply T_Quest; [exact Hx | exact Hd | exact HN |].
    unfold join_ty, strip_null, tcls. cbn [tcname tgens tnull is_null].
    apply String.eqb_neq in Hn. unfold is_null. cbn [tcname]. rewrite Hn.
    unfold csup, Typing.sup. unfold sub in HR. rewrite HR. reflexivity.
  Qed.
End NullFlow.


(** C06 for the programs the implementation's rules accept, outside the known classes *)
Theorem null_flow_impl_outside_known builtins stubs strip : forall p l,
  ctx_ok (cx_of builtins p) = true -> acyclic (cx_of builtins p) ->
  known_free builtins stubs strip p = true ->
  check builtins stubs (impl_quirks strip) p = true -> obligations builtins stubs p = Some l ->
  (forall k T t lo, In (OSub k T t lo) l -> plainN (cx_of builtins p) T = true -> plain (cx_of builtins p) t = true ->
                    requires_nonnull T = true -> nonnull t = true) /\
  (forall t lo, In (OFieldRecv t lo) l -> nonnull t = true).
Proof.
  intros p l Hok Hac HK HC HO.
  apply (outside_known builtins stubs strip p HK) in HC.
  destruct (null_flow _ Hok Hac _ _ _ p l HC HO) as [H1 [H2 _]]. split; assumption.
Qed.
