(** * Properties of the lexer model

    - [scan_exact]: the characters consumed for a token are exactly its spelling;
    - [scan_no_nl]: no token other than a string contains a line break;
    - [positions_exact]: on runs without the known string classes, every source
      token's recorded span is the span of its spelling in the input;
    - [balanced]: with indentation in multiples of four, Indent and Dedent balance;
    - [single_eof].
    Side conditions on the generated tables are discharged by computation. *)
From Coq Require Import List Ascii ZArith Bool Lia Arith.
From MambaModel Require Import model.LexTok gen.LexTables model.Lex.
Import ListNotations.
Local Open Scope Z_scope.

(** ** Side conditions on the generated tables *)

Definition keywords_ok : bool :=
  forallb (fun kt => str_eqb (spell (snd kt)) (fst kt)) keywords.
Lemma keywords_ok_true : keywords_ok = true.
Proof. vm_compute. reflexivity. Qed.

Definition no_nl (w : str) : bool := forallb (fun c => negb (Ascii.eqb c c_nl)) w.

Definition tables_no_nl : bool :=
  forallb (fun t => no_nl (spell t)) op_tokens && forallb (fun kt => no_nl (fst kt)) keywords.
Lemma tables_no_nl_true : tables_no_nl = true.
Proof. vm_compute. reflexivity. Qed.

Definition op_tokens_not_nl : bool :=
  forallb (fun t => match t with MNL => false | _ => true end) op_tokens.
Lemma op_tokens_not_nl_true : op_tokens_not_nl = true.
Proof. vm_compute. reflexivity. Qed.

(** ** Basic list facts *)

Lemma starts_with_split w s : starts_with w s = true -> s = w ++ skipn (length w) s.
Proof.
  unfold starts_with. intros H. apply str_eqb_eq in H.
  rewrite H at 1. symmetry. rewrite <- H. rewrite H at 1.
  replace (length (firstn (length w) s)) with (length w) by (rewrite <- H; reflexivity).
  apply firstn_skipn.
Qed.

Lemma match_prefix_sound tbl s t rest :
  match_prefix tbl s = Some (t, rest) -> exists w, In (w, t) tbl /\ s = w ++ rest.
Proof.
  induction tbl as [|[w u] tbl IH]; cbn; [discriminate|].
  destruct (starts_with w s) eqn:Hs.
  - intros H. inversion H; subst. exists w. split; [left; reflexivity | apply starts_with_split, Hs].
  - intros H. destruct (IH H) as (w' & Hin & Heq). exists w'. split; [right; exact Hin | exact Heq].
Qed.

Lemma take_while_split p s a b : take_while p s = (a, b) -> s = a ++ b /\ forallb p a = true.
Proof.
  revert a b. induction s as [|c s IH]; cbn; intros a b H.
  - inversion H; subst. split; reflexivity.
  - destruct (p c) eqn:Hp.
    + destruct (take_while p s) as [a' b'] eqn:Ht. inversion H; subst.
      destruct (IH a' b eq_refl) as [-> Hall]. split; [reflexivity|]. cbn. rewrite Hp. exact Hall.
    + inversion H; subst. split; reflexivity.
Qed.

Lemma lookup_kw_sound tbl w t : lookup_kw tbl w = Some t -> In (w, t) tbl.
Proof.
  induction tbl as [|[k u] tbl IH]; cbn; [discriminate|].
  destruct (str_eqb k w) eqn:Hk.
  - intros H. inversion H; subst. apply str_eqb_eq in Hk. subst. left. reflexivity.
  - intros H. right. apply IH, H.
Qed.

Lemma keyword_spelling w t : In (w, t) keywords -> spell t = w.
Proof.
  intros Hin. pose proof keywords_ok_true as H. unfold keywords_ok in H.
  rewrite forallb_forall in H. specialize (H _ Hin). cbn in H. apply str_eqb_eq, H.
Qed.

(** ** Numbers *)

Definition numtext (num exp : str) (en : bool) : str := num ++ (if en then c_E :: exp else []).

Lemma scan_number_text fuel :
  forall num exp fl en s num' exp' fl' en' rest,
    (en = false -> exp = []) ->
    scan_number fuel num exp fl en s = (num', exp', fl', en', rest) ->
    numtext num' exp' en' ++ rest = numtext num exp en ++ s /\ (en' = false -> exp' = []).
Proof.
  induction fuel as [|fuel IH]; intros num exp fl en s num' exp' fl' en' rest Hen H; cbn [scan_number] in H.
  - inversion H; subst. split; [reflexivity | exact Hen].
  - destruct s as [|c r]; [inversion H; subst; split; [reflexivity | exact Hen]|].
    destruct (is_digit c) eqn:Hd.
    + destruct en.
      * apply IH in H; [|discriminate]. destruct H as [H1 H2]. split; [|exact H2].
        rewrite H1. unfold numtext. rewrite <- !app_assoc. cbn. rewrite <- app_assoc. reflexivity.
      * apply IH in H; [|exact Hen]. destruct H as [H1 H2]. split; [|exact H2].
        rewrite H1. unfold numtext. rewrite !app_nil_r. rewrite <- app_assoc. reflexivity.
    + destruct (Ascii.eqb c c_E) eqn:HE.
      * destruct en; [inversion H; subst; split; [reflexivity | exact Hen]|].
        apply IH in H; [|intros; apply Hen; reflexivity]. destruct H as [H1 H2]. split; [|exact H2].
        rewrite H1. apply Ascii.eqb_eq in HE. subst c. unfold numtext. rewrite (Hen eq_refl).
        rewrite app_nil_r. rewrite <- app_assoc. reflexivity.
      * destruct (Ascii.eqb c c_dot) eqn:Hdot; [|inversion H; subst; split; [reflexivity | exact Hen]].
        destruct (fl || en) eqn:Hfe; [inversion H; subst; split; [reflexivity | exact Hen]|].
        apply orb_false_elim in Hfe as [-> ->].
        assert (Hstep : forall res, scan_number fuel (num ++ [c]) exp true false r = res ->
                  res = (num', exp', fl', en', rest) ->
                  numtext num' exp' en' ++ rest = numtext num exp false ++ c :: r /\ (en' = false -> exp' = [])).
        { intros res Hr Heq. subst res. apply IH in Heq; [|exact Hen]. destruct Heq as [H1 H2].
          split; [|exact H2]. rewrite H1. unfold numtext. rewrite !app_nil_r, <- app_assoc. reflexivity. }
        destruct r as [|c2 r2].
        -- apply (Hstep _ eq_refl H).
        -- destruct (Ascii.eqb c2 c_dot); [inversion H; subst; split; [reflexivity | exact Hen]|].
           apply (Hstep _ eq_refl H).
Qed.

(** ** The scanner consumes exactly the spelling of the token it makes *)

Lemma op_table_entries w t :
  In (w, t) op_table -> (t = MNL /\ (w = [c_cr; c_nl] \/ w = [c_nl])) \/ (w = spell t /\ In t op_tokens).
Proof.
  unfold op_table. intros [H | [H | H]].
  - inversion H; subst. left. split; [reflexivity | left; reflexivity].
  - inversion H; subst. left. split; [reflexivity | right; reflexivity].
  - apply in_map_iff in H as (u & Hu & Hin). inversion Hu; subst. right. split; [reflexivity | exact Hin].
Qed.

Theorem scan_exact c r t rest :
  scan c r = STok t rest -> t <> MNL -> spell t ++ rest = c :: r.
Proof.
  unfold scan. intros H Hnl.
  destruct (match_prefix op_table (c :: r)) as [[t0 rest0]|] eqn:Hm.
  - inversion H; subst. apply match_prefix_sound in Hm as (w & Hin & Heq).
    apply op_table_entries in Hin as [[Ht _] | [Hw _]]; [contradiction|]. subst w. symmetry. exact Heq.
  - destruct (Ascii.eqb c c_hash) eqn:Hh.
    { destruct (take_while not_eol r) as [cm rest'] eqn:Ht. inversion H; subst.
      apply take_while_split in Ht as [-> _]. apply Ascii.eqb_eq in Hh. subst c. reflexivity. }
    destruct (Ascii.eqb c c_quote).
    { destruct (scan_string _ r). discriminate H. }
    destruct (Ascii.eqb c c_sp); [discriminate H|].
    destruct (Ascii.eqb c c_cr); [discriminate H|].
    destruct (Ascii.eqb c (ch 33)); [discriminate H|].
    destruct (is_digit c).
    { destruct (scan_number (S (length r)) [c] [] false false r) as [[[[number exp] float] e_num] rest'] eqn:Hn.
      apply scan_number_text in Hn as [Hn Hexp]; [|reflexivity]. inversion H; subst. clear H.
      unfold numtext in Hn. cbn [app] in Hn.
      destruct e_num.
      - change (spell (MENum number exp)) with (number ++ (c_E :: nil) ++ exp).
        rewrite <- !app_assoc in *. cbn [app] in *. exact Hn.
      - rewrite app_nil_r in Hn. destruct float; exact Hn. }
    destruct (is_id_start c); [|discriminate H].
    destruct (take_while is_id_char r) as [w rest'] eqn:Ht. inversion H; subst. clear H.
    apply take_while_split in Ht as [-> _].
    unfold as_op_or_id. destruct (lookup_kw keywords (c :: w)) as [k|] eqn:Hk.
    + apply lookup_kw_sound in Hk. rewrite (keyword_spelling _ _ Hk). reflexivity.
    + reflexivity.
Qed.

(** ** Tokens other than strings contain no line break *)

Lemma digit_not_nl c : is_digit c = true -> Ascii.eqb c c_nl = false.
Proof.
  intros H. destruct (Ascii.eqb_spec c c_nl) as [->|]; [|reflexivity]. vm_compute in H. discriminate H.
Qed.
Lemma idchar_not_nl c : is_id_char c = true -> Ascii.eqb c c_nl = false.
Proof.
  intros H. destruct (Ascii.eqb_spec c c_nl) as [->|]; [|reflexivity]. vm_compute in H. discriminate H.
Qed.
Lemma idstart_not_nl c : is_id_start c = true -> Ascii.eqb c c_nl = false.
Proof.
  intros H. destruct (Ascii.eqb_spec c c_nl) as [->|]; [|reflexivity]. vm_compute in H. discriminate H.
Qed.

Lemma no_nl_app a b : no_nl (a ++ b) = no_nl a && no_nl b.
Proof. unfold no_nl. apply forallb_app. Qed.

Lemma forallb_impl {A} (p q : A -> bool) l :
  (forall x, p x = true -> q x = true) -> forallb p l = true -> forallb q l = true.
Proof.
  intros H. induction l as [|x l IH]; cbn; [easy|]. intros Hp. apply andb_prop in Hp as [Hx Hl].
  rewrite (H _ Hx), (IH Hl). reflexivity.
Qed.

Lemma no_nl_one c : Ascii.eqb c c_nl = false -> no_nl [c] = true.
Proof. unfold no_nl. cbn [forallb]. intros ->. reflexivity. Qed.
Lemma no_nl_cons c w : no_nl (c :: w) = negb (Ascii.eqb c c_nl) && no_nl w.
Proof. reflexivity. Qed.

Lemma scan_number_no_nl fuel :
  forall num exp fl en s num' exp' fl' en' rest,
    no_nl num = true -> no_nl exp = true ->
    scan_number fuel num exp fl en s = (num', exp', fl', en', rest) ->
    no_nl num' = true /\ no_nl exp' = true.
Proof.
  induction fuel as [|fuel IH]; intros num exp fl en s num' exp' fl' en' rest Hn He H;
    cbn [scan_number] in H.
  - inversion H; subst. split; assumption.
  - destruct s as [|c r]; [inversion H; subst; split; assumption|].
    destruct (is_digit c) eqn:Hd.
    + assert (Hc : no_nl [c] = true) by (apply no_nl_one, digit_not_nl, Hd).
      destruct en; (eapply IH; [| |exact H]); rewrite ?no_nl_app, ?Hn, ?He, ?Hc; reflexivity.
    + destruct (Ascii.eqb c c_E).
      * destruct en; [inversion H; subst; split; assumption|]. eapply IH; [| |exact H]; assumption.
      * destruct (Ascii.eqb c c_dot) eqn:Hdot; [|inversion H; subst; split; assumption].
        destruct (fl || en); [inversion H; subst; split; assumption|].
        assert (Hc : no_nl [c] = true).
        { apply Ascii.eqb_eq in Hdot. subst c. reflexivity. }
        destruct r as [|c2 r2].
        -- eapply IH; [| |exact H]; rewrite ?no_nl_app, ?Hn, ?Hc; auto.
        -- destruct (Ascii.eqb c2 c_dot); [inversion H; subst; split; assumption|].
           eapply IH; [| |exact H]; rewrite ?no_nl_app, ?Hn, ?Hc; auto.
Qed.

Lemma op_token_no_nl t : In t op_tokens -> no_nl (spell t) = true.
Proof.
  intros Hin. pose proof tables_no_nl_true as H. unfold tables_no_nl in H.
  apply andb_prop in H as [H _]. rewrite forallb_forall in H. apply H, Hin.
Qed.

Lemma keyword_no_nl w t : In (w, t) keywords -> no_nl w = true.
Proof.
  intros Hin. pose proof tables_no_nl_true as H. unfold tables_no_nl in H.
  apply andb_prop in H as [_ H]. rewrite forallb_forall in H. apply (H _ Hin).
Qed.

Theorem scan_no_nl c r t rest :
  scan c r = STok t rest -> t <> MNL -> no_nl (spell t) = true.
Proof.
  unfold scan. intros H Hnl.
  destruct (match_prefix op_table (c :: r)) as [[t0 rest0]|] eqn:Hm.
  - inversion H; subst. apply match_prefix_sound in Hm as (w & Hin & Heq).
    apply op_table_entries in Hin as [[Ht _] | [_ Hin]]; [contradiction|]. apply op_token_no_nl, Hin.
  - destruct (Ascii.eqb c c_hash) eqn:Hh.
    { destruct (take_while not_eol r) as [cm rest'] eqn:Ht. inversion H; subst.
      apply take_while_split in Ht as [_ Hall].
      change (spell (MComment cm)) with ([c_hash] ++ cm). rewrite no_nl_app.
      rewrite (no_nl_one c_hash eq_refl). cbn [andb].
      revert Hall. apply forallb_impl. intros x Hx. unfold not_eol in Hx.
      apply andb_prop in Hx as [Hx _]. exact Hx. }
    destruct (Ascii.eqb c c_quote).
    { destruct (scan_string _ r). discriminate H. }
    destruct (Ascii.eqb c c_sp); [discriminate H|].
    destruct (Ascii.eqb c c_cr); [discriminate H|].
    destruct (Ascii.eqb c (ch 33)); [discriminate H|].
    destruct (is_digit c) eqn:Hd.
    { destruct (scan_number (S (length r)) [c] [] false false r) as [[[[number exp] float] e_num] rest'] eqn:Hn.
      apply scan_number_no_nl in Hn as [Hnum Hexp];
        [| apply no_nl_one, digit_not_nl, Hd | reflexivity ].
      inversion H; subst. clear H.
      destruct e_num.
      - change (spell (MENum number exp)) with (number ++ (c_E :: nil) ++ exp).
        rewrite !no_nl_app, Hnum, Hexp. reflexivity.
      - destruct float; exact Hnum. }
    destruct (is_id_start c) eqn:His; [|discriminate H].
    destruct (take_while is_id_char r) as [w rest'] eqn:Ht. inversion H; subst. clear H.
    apply take_while_split in Ht as [_ Hall].
    assert (Hw : no_nl (c :: w) = true).
    { rewrite no_nl_cons, (idstart_not_nl _ His). cbn [negb andb]. revert Hall. apply forallb_impl.
      intros x Hx. rewrite (idchar_not_nl _ Hx). reflexivity. }
    unfold as_op_or_id. destruct (lookup_kw keywords (c :: w)) as [k|] eqn:Hk.
    + apply lookup_kw_sound in Hk. rewrite (keyword_spelling _ _ Hk). exact Hw.
    + exact Hw.
Qed.

(** ** Positions *)

Definition p0 : cpos := {| line := 1; col := 1 |}.
Definition advance1 (p : cpos) (c : ascii) : cpos :=
  if Ascii.eqb c c_nl then {| line := line p + 1; col := 1 |}
  else {| line := line p; col := col p + 1 |}.
Definition advance (p : cpos) (w : str) : cpos := fold_left advance1 w p.

Lemma advance_app p a b : advance p (a ++ b) = advance (advance p a) b.
Proof. unfold advance. apply fold_left_app. Qed.

Lemma advance_no_nl w : forall p, no_nl w = true -> advance p w = offset_pos p (Z.of_nat (length w)).
Proof.
  induction w as [|c w IH]; intros p H.
  - cbn. unfold offset_pos. destruct p. cbn. f_equal. lia.
  - rewrite no_nl_cons in H. apply andb_prop in H as [Hc Hw]. apply negb_true_iff in Hc.
    cbn [advance fold_left]. fold (advance (advance1 p c) w). rewrite (IH _ Hw).
    unfold advance1. rewrite Hc. unfold offset_pos. cbn [line col length]. f_equal. lia.
Qed.

Lemma count_nl_no_nl s : no_nl s = true -> count_nl s = 0.
Proof.
  induction s as [|c s IH]; [reflexivity|]. rewrite no_nl_cons. intros H. apply andb_prop in H as [Hc Hs].
  apply negb_true_iff in Hc. cbn [count_nl]. rewrite Hc, (IH Hs). reflexivity.
Qed.

Lemma spell_str_inner s : no_nl (spell (MStr s)) = true -> no_nl s = true.
Proof.
  change (spell (MStr s)) with ([c_quote] ++ s ++ [c_quote]). rewrite !no_nl_app.
  intros H. apply andb_prop in H as [_ H]. apply andb_prop in H as [H _]. exact H.
Qed.
Lemma spell_docstr_inner s : no_nl (spell (MDocStr s)) = true -> no_nl s = true.
Proof.
  change (spell (MDocStr s)) with ([c_hash; c_hash] ++ s). rewrite no_nl_app.
  intros H. apply andb_prop in H as [_ H]. exact H.
Qed.

Lemma mk_lex_start p t : lstart (mk_lex p t) = p.
Proof. reflexivity. Qed.
Lemma mk_lex_tok p t : ltok (mk_lex p t) = t.
Proof. reflexivity. Qed.

Lemma mk_lex_end p t : no_nl (spell t) = true -> lend (mk_lex p t) = advance p (spell t).
Proof.
  intros H. rewrite (advance_no_nl _ _ H). unfold mk_lex, offset_pos, width. cbn [lend].
  destruct t; try reflexivity.
  - rewrite (count_nl_no_nl _ (spell_str_inner _ H)). f_equal. lia.
  - rewrite (count_nl_no_nl _ (spell_docstr_inner _ H)). f_equal. lia.
Qed.

(** ** [State::token] *)

Definition is_nl (t : token) : bool := match t with MNL => true | _ => false end.
Lemma is_nl_true t : is_nl t = true -> t = MNL.
Proof. destruct t; cbn; easy. Qed.
Lemma is_nl_false t : is_nl t = false -> t <> MNL.
Proof. destruct t; cbn; easy. Qed.

(** the body of [state_token] for tokens other than NL *)
Definition emit_token (st : state) (t : token) : state * list lex :=
  let p := pos st in
  let popped := match rev (newlines st) with [] => [] | nl :: _ => [nl] end in
  let remaining := match rev (newlines st) with [] => [] | _ :: r => rev r end in
  let layout :=
    if cur_indent st <=? line_indent st then
      repeat (mk_lex p MIndent) (Z.to_nat (Z.quot (line_indent st - cur_indent st) 4))
    else
      repeat (mk_lex p MDedent) (Z.to_nat (Z.quot (cur_indent st - line_indent st) 4))
        ++ [mk_lex p MNL] in
  let out := popped ++ layout ++ remaining ++ [mk_lex p t] in
  let p1 := offset_pos p (width t) in
  let p2 := match t with MStr s | MDocStr s => offset_line p1 (count_nl s) | _ => p1 end in
  ({| newlines := []; cur_indent := line_indent st; line_indent := line_indent st;
      token_this_line := true; pos := p2 |}, out).

Lemma state_token_emit st t : t <> MNL -> state_token st t = emit_token st t.
Proof. destruct t; intros H; try reflexivity. contradiction. Qed.

Definition nls_ok (st : state) : Prop := Forall (fun l => ltok l = MNL) (newlines st).

Lemma nls_ok_rev_parts st :
  nls_ok st ->
  Forall (fun l => ltok l = MNL) (match rev (newlines st) with [] => [] | nl :: _ => [nl] end)
  /\ Forall (fun l => ltok l = MNL) (match rev (newlines st) with [] => [] | _ :: r => rev r end).
Proof.
  unfold nls_ok. intros H. apply Forall_rev in H. destruct (rev (newlines st)) as [|x r].
  - split; constructor.
  - inversion H; subst. split; [constructor; [assumption | constructor] | apply Forall_rev; assumption].
Qed.

Lemma emit_pos st t :
  no_nl (spell t) = true -> pos (fst (emit_token st t)) = advance (pos st) (spell t).
Proof.
  intros H. rewrite (advance_no_nl _ _ H). unfold emit_token, width. cbn [fst pos].
  destruct t; try reflexivity.
  - rewrite (count_nl_no_nl _ (spell_str_inner _ H)). unfold offset_line, offset_pos. cbn. f_equal. lia.
  - rewrite (count_nl_no_nl _ (spell_docstr_inner _ H)). unfold offset_line, offset_pos. cbn. f_equal. lia.
Qed.

Definition is_layout (t : token) : bool :=
  match t with MNL | MIndent | MDedent => true | _ => false end.
Lemma layout_synthetic t : is_layout t = true -> synthetic t = true.
Proof. destruct t; cbn; easy. Qed.

(** every token handed out is a layout token or the token itself, which comes last *)
Lemma emit_out st t :
  nls_ok st ->
  exists layout, snd (emit_token st t) = layout ++ [mk_lex (pos st) t]
                 /\ Forall (fun l => is_layout (ltok l) = true) layout.
Proof.
  intros Hn. destruct (nls_ok_rev_parts st Hn) as [Hp Hr].
  unfold emit_token. cbn [snd].
  set (popped := match rev (newlines st) with [] => [] | nl :: _ => [nl] end) in *.
  set (remaining := match rev (newlines st) with [] => [] | _ :: r => rev r end) in *.
  set (layout := if cur_indent st <=? line_indent st then _ else _).
  exists (popped ++ layout ++ remaining). split.
  - rewrite <- !app_assoc. reflexivity.
  - apply Forall_app. split; [|apply Forall_app; split].
    + revert Hp. apply Forall_impl. intros l ->. reflexivity.
    + subst layout. destruct (cur_indent st <=? line_indent st).
      * apply Forall_forall. intros l Hl. apply repeat_spec in Hl. subst. reflexivity.
      * apply Forall_app. split.
        -- apply Forall_forall. intros l Hl. apply repeat_spec in Hl. subst. reflexivity.
        -- constructor; [reflexivity | constructor].
    + revert Hr. apply Forall_impl. intros l ->. reflexivity.
Qed.

Lemma emit_nls_ok st t : nls_ok (fst (emit_token st t)).
Proof. unfold nls_ok, emit_token. cbn. constructor. Qed.

Lemma newline_nls_ok st : nls_ok st -> nls_ok (state_newline st).
Proof.
  unfold nls_ok, state_newline. cbn. intros H. apply Forall_app. split; [exact H|].
  constructor; [reflexivity | constructor].
Qed.

Lemma space_nls_ok st : nls_ok st -> nls_ok (state_space st).
Proof. unfold nls_ok, state_space. cbn. easy. Qed.

(** ** What [scan] returns for line breaks and blanks *)

Definition keywords_plain : bool :=
  forallb (fun kt => match snd kt with
                     | MNL | MIndent | MDedent | MEof | MStr _ | MDocStr _ => false
                     | _ => true end) keywords
  && forallb (fun t => match t with
                       | MNL | MIndent | MDedent | MEof | MStr _ | MDocStr _ => false
                       | _ => true end) op_tokens.
Lemma keywords_plain_true : keywords_plain = true.
Proof. vm_compute. reflexivity. Qed.

Definition plain (t : token) : bool :=
  match t with MNL | MIndent | MDedent | MEof | MStr _ | MDocStr _ => false | _ => true end.

Lemma scan_kind c r t rest :
  scan c r = STok t rest ->
  (t = MNL /\ (c :: r = [c_cr; c_nl] ++ rest \/ c :: r = [c_nl] ++ rest)) \/ plain t = true.
Proof.
  unfold scan. intros H.
  pose proof keywords_plain_true as Hk. unfold keywords_plain in Hk. apply andb_prop in Hk as [Hkw Hop].
  rewrite forallb_forall in Hkw, Hop.
  destruct (match_prefix op_table (c :: r)) as [[t0 rest0]|] eqn:Hm.
  - inversion H; subst. apply match_prefix_sound in Hm as (w & Hin & Heq).
    apply op_table_entries in Hin as [[Ht Hw] | [_ Hin]].
    + left. split; [exact Ht|]. destruct Hw as [-> | ->]; [left | right]; exact Heq.
    + right. apply (Hop _ Hin).
  - destruct (Ascii.eqb c c_hash).
    { destruct (take_while not_eol r). inversion H; subst. right. reflexivity. }
    destruct (Ascii.eqb c c_quote). { destruct (scan_string _ r). discriminate H. }
    destruct (Ascii.eqb c c_sp); [discriminate H|].
    destruct (Ascii.eqb c c_cr); [discriminate H|].
    destruct (Ascii.eqb c (ch 33)); [discriminate H|].
    destruct (is_digit c).
    { destruct (scan_number _ _ _ _ _ r) as [[[[number exp] float] e_num] rest'].
      inversion H; subst. right. destruct e_num; [|destruct float]; reflexivity. }
    destruct (is_id_start c); [|discriminate H].
    destruct (take_while is_id_char r) as [w rest']. inversion H; subst. right.
    unfold as_op_or_id. destruct (lookup_kw keywords (c :: w)) as [k|] eqn:Hl; [|reflexivity].
    apply lookup_kw_sound in Hl. apply (Hkw _ Hl).
Qed.

Lemma scan_space c r rest : scan c r = SSpace rest -> c = c_sp /\ rest = r.
Proof.
  unfold scan. intros H.
  destruct (match_prefix op_table (c :: r)) as [[t0 rest0]|]; [discriminate H|].
  destruct (Ascii.eqb c c_hash). { destruct (take_while not_eol r). discriminate H. }
  destruct (Ascii.eqb c c_quote). { destruct (scan_string _ r). discriminate H. }
  destruct (Ascii.eqb c c_sp) eqn:Hs.
  - inversion H; subst. apply Ascii.eqb_eq in Hs. split; [exact Hs | reflexivity].
  - destruct (Ascii.eqb c c_cr); [discriminate H|].
    destruct (Ascii.eqb c (ch 33)); [discriminate H|].
    destruct (is_digit c). { destruct (scan_number _ _ _ _ _ r) as [[[[? ?] ?] ?] ?]. discriminate H. }
    destruct (is_id_start c); [|discriminate H].
    destruct (take_while is_id_char r). discriminate H.
Qed.

(** ** Exact spans on the whole run *)

(** the recorded span of [l] is the span of its spelling in the input *)
Definition tok_ok (input : str) (l : lex) : Prop :=
  exists pre post,
    input = pre ++ spell (ltok l) ++ post
    /\ lstart l = advance p0 pre
    /\ lend l = advance (lstart l) (spell (ltok l)).

Definition ok (input : str) (l : lex) : Prop := synthetic (ltok l) = true \/ tok_ok input l.

(** Runs outside the known string classes: every string literal is terminated,
    has no line break inside and is not the (unreachable) in-arm doc-string. *)
Fixpoint clean (fuel : nat) (s : str) : bool :=
  match fuel with
  | O => true
  | S fuel =>
      match s with
      | [] => true
      | c :: r =>
          match scan c r with
          | SErr _ => true
          | SSpace rest => clean fuel rest
          | STok _ rest => clean fuel rest
          | SString content _ rest =>
              negb (is_docstring_arm content) && no_nl content
              && str_eqb (c :: r) (c_quote :: content ++ c_quote :: rest) && clean fuel rest
          end
      end
  end.

Lemma tops_app (a b : list tl) : map top (a ++ b) = map top a ++ map top b.
Proof. apply map_app. Qed.
Lemma tops_tl0 (ls : list lex) : map top (map tl0 ls) = ls.
Proof. induction ls as [|l ls IH]; cbn; [reflexivity | rewrite IH; reflexivity]. Qed.

Lemma string_out_tops (out : list lex) layout l inn :
  out = layout ++ [l] ->
  map top (match rev out with
           | x :: before => map tl0 (rev before) ++ [{| top := x; inner := inn |}]
           | [] => []
           end) = out.
Proof.
  intros ->. rewrite rev_app_distr. cbn [rev app]. rewrite rev_involutive, tops_app, tops_tl0. reflexivity.
Qed.

Lemma Forall_ok_layout input layout :
  Forall (fun l => is_layout (ltok l) = true) layout -> Forall (ok input) layout.
Proof. apply Forall_impl. intros l H. left. apply layout_synthetic, H. Qed.

Lemma new_token_ok input pre t rest st :
  input = pre ++ spell t ++ rest -> pos st = advance p0 pre -> no_nl (spell t) = true ->
  ok input (mk_lex (pos st) t).
Proof.
  intros Hin Hpos Hnl. right. exists pre, rest. rewrite mk_lex_tok, mk_lex_start.
  split; [exact Hin|]. split; [exact Hpos|]. apply mk_lex_end, Hnl.
Qed.

Lemma advance_nl p : advance p [c_nl] = {| line := line p + 1; col := 1 |}.
Proof. reflexivity. Qed.
Lemma advance_crnl p : advance p [c_cr; c_nl] = {| line := line p + 1; col := 1 |}.
Proof. reflexivity. Qed.
Lemma advance_sp p : advance p [c_sp] = offset_pos p 1.
Proof. reflexivity. Qed.

Theorem loop_positions fuel :
  forall s st acc pre input st' acc',
    input = pre ++ s -> pos st = advance p0 pre -> nls_ok st ->
    clean fuel s = true ->
    Forall (ok input) (map top acc) ->
    tok_loop fuel s st acc = inl (inl (st', acc')) ->
    Forall (ok input) (map top acc').
Proof.
  induction fuel as [|fuel IH]; intros s st acc pre input st' acc' Hin Hpos Hnls Hclean Hacc Hrun.
  - cbn in Hrun. discriminate Hrun.
  - cbn [tok_loop] in Hrun. cbn [clean] in Hclean.
    destruct s as [|c r]; [inversion Hrun; subst; exact Hacc|].
    destruct (scan c r) as [t rest | content exprs rest | rest | e] eqn:Hscan.
    + (* token *)
      destruct (is_nl t) eqn:Ht.
      * apply is_nl_true in Ht. subst t.
        destruct (scan_kind _ _ _ _ Hscan) as [[_ Hw] | Hp]; [|discriminate Hp].
        cbn [state_token] in Hrun. rewrite app_nil_r in Hrun.
        destruct Hw as [Hw | Hw]; rewrite Hw in Hin;
          (eapply IH; [rewrite Hin, app_assoc; reflexivity | | apply newline_nls_ok, Hnls
                      | exact Hclean | exact Hacc | exact Hrun]);
          rewrite advance_app, <- Hpos; reflexivity.
      * apply is_nl_false in Ht.
        pose proof (scan_exact _ _ _ _ Hscan Ht) as Hex.
        pose proof (scan_no_nl _ _ _ _ Hscan Ht) as Hnl.
        rewrite (state_token_emit st t Ht) in Hrun.
        destruct (emit_token st t) as [st1 out] eqn:He.
        destruct (emit_out st t Hnls) as (layout & Hout & Hlay). rewrite He in Hout. cbn [snd] in Hout.
        assert (Hin' : input = pre ++ spell t ++ rest) by (rewrite Hex; exact Hin).
        eapply IH; [| | | exact Hclean | | exact Hrun].
        -- rewrite Hin', app_assoc. reflexivity.
        -- replace st1 with (fst (emit_token st t)) by (rewrite He; reflexivity).
           rewrite (emit_pos st t Hnl), advance_app, Hpos. reflexivity.
        -- replace st1 with (fst (emit_token st t)) by (rewrite He; reflexivity). apply emit_nls_ok.
        -- rewrite tops_app, tops_tl0, Hout. apply Forall_app. split; [exact Hacc|].
           apply Forall_app. split; [apply Forall_ok_layout, Hlay|].
           constructor; [|constructor]. eapply new_token_ok; eassumption.
    + (* string *)
      apply andb_prop in Hclean as [Hclean Hrest]. apply andb_prop in Hclean as [Hclean Hterm].
      apply andb_prop in Hclean as [Harm Hnl]. apply negb_true_iff in Harm.
      apply str_eqb_eq in Hterm.
      rewrite Harm in Hrun.
      assert (Htok : string_tok content = MStr content) by (unfold string_tok; rewrite Harm; reflexivity).
      rewrite Htok in Hrun.
      assert (Hne : MStr content <> MNL) by discriminate.
      assert (Hsp : spell (MStr content) = c_quote :: content ++ [c_quote]) by reflexivity.
      assert (Hnls' : no_nl (spell (MStr content)) = true).
      { rewrite Hsp. rewrite no_nl_cons, no_nl_app, Hnl, (no_nl_one c_quote eq_refl). reflexivity. }
      match type of Hrun with
      | match ?nested with _ => _ end = _ => destruct nested as [[inn|]|err]; try discriminate Hrun
      end.
      rewrite (state_token_emit st _ Hne) in Hrun.
      destruct (emit_token st (MStr content)) as [st1 out] eqn:He.
      destruct (emit_out st (MStr content) Hnls) as (layout & Hout & Hlay). rewrite He in Hout. cbn [snd] in Hout.
      assert (Hin' : input = pre ++ spell (MStr content) ++ rest).
      { rewrite Hin, Hterm, Hsp. cbn [app]. rewrite <- app_assoc. reflexivity. }
      eapply IH; [| | | exact Hrest | | exact Hrun].
      * rewrite Hin', app_assoc. reflexivity.
      * replace st1 with (fst (emit_token st (MStr content))) by (rewrite He; reflexivity).
        rewrite (emit_pos st _ Hnls'), advance_app, Hpos. reflexivity.
      * replace st1 with (fst (emit_token st (MStr content))) by (rewrite He; reflexivity). apply emit_nls_ok.
      * rewrite tops_app, (string_out_tops out layout _ inn Hout), Hout.
        apply Forall_app. split; [exact Hacc|].
        apply Forall_app. split; [apply Forall_ok_layout, Hlay|].
        constructor; [|constructor]. eapply new_token_ok; eassumption.
    + (* blank *)
      destruct (scan_space _ _ _ Hscan) as [-> ->].
      eapply IH; [| | apply space_nls_ok, Hnls | exact Hclean | exact Hacc | exact Hrun].
      * rewrite Hin. change (c_sp :: r) with ([c_sp] ++ r). rewrite app_assoc. reflexivity.
      * rewrite advance_app, <- Hpos. reflexivity.
    + discriminate Hrun.
Qed.

(** ** Indentation balance *)

Definition is_indent (t : token) : bool := match t with MIndent => true | _ => false end.
Definition is_dedent (t : token) : bool := match t with MDedent => true | _ => false end.
Definition is_eof (t : token) : bool := match t with MEof => true | _ => false end.
Definition is_strlike (t : token) : bool := match t with MStr _ | MDocStr _ => true | _ => false end.

Definition cnt (p : token -> bool) (ls : list lex) : Z :=
  Z.of_nat (length (filter (fun l => p (ltok l)) ls)).

Lemma cnt_app p a b : cnt p (a ++ b) = cnt p a + cnt p b.
Proof. unfold cnt. rewrite filter_app, app_length. lia. Qed.
Lemma cnt_nil p : cnt p [] = 0. Proof. reflexivity. Qed.
Lemma cnt_one p l : cnt p [l] = if p (ltok l) then 1 else 0.
Proof. unfold cnt. cbn. destruct (p (ltok l)); reflexivity. Qed.
Lemma cnt_cons p l ls : cnt p (l :: ls) = (if p (ltok l) then 1 else 0) + cnt p ls.
Proof. change (l :: ls) with ([l] ++ ls). rewrite cnt_app, cnt_one. reflexivity. Qed.
Lemma cnt_repeat p l n : cnt p (repeat l n) = if p (ltok l) then Z.of_nat n else 0.
Proof.
  unfold cnt. induction n as [|n IH]; cbn [repeat filter]; [destruct (p (ltok l)); reflexivity|].
  destruct (p (ltok l)) eqn:Hp; cbn [length]; rewrite ?Hp in IH; lia.
Qed.
Lemma cnt_zero p ls : Forall (fun l => p (ltok l) = false) ls -> cnt p ls = 0.
Proof.
  unfold cnt. induction 1 as [|l ls Hl _ IH]; [reflexivity|]. cbn [filter]. rewrite Hl. exact IH.
Qed.

Definition J (st : state) (tops : list lex) : Prop :=
  1 <= line_indent st /\
  exists k, 0 <= k /\ cur_indent st = 1 + 4 * k /\ cnt is_indent tops = cnt is_dedent tops + k.

Lemma quot4 m : 0 <= m -> Z.quot (4 * m) 4 = m.
Proof. intros H. rewrite Z.mul_comm. apply Z.quot_mul. lia. Qed.

Lemma emit_counts st t k :
  nls_ok st -> is_indent t = false -> is_dedent t = false ->
  1 <= line_indent st -> (line_indent st - 1) mod 4 = 0 ->
  0 <= k -> cur_indent st = 1 + 4 * k ->
  exists k', 0 <= k' /\ cur_indent (fst (emit_token st t)) = 1 + 4 * k'
             /\ cnt is_indent (snd (emit_token st t)) - cnt is_dedent (snd (emit_token st t)) = k' - k.
Proof.
  intros Hn Hi Hd Hli Hmod Hk Hcur.
  destruct (nls_ok_rev_parts st Hn) as [Hp Hr].
  assert (Hj : exists j, 0 <= j /\ line_indent st = 1 + 4 * j).
  { exists ((line_indent st - 1) / 4). split.
    - apply Z.div_pos; lia.
    - pose proof (Z.div_mod (line_indent st - 1) 4 ltac:(lia)) as Hdm. lia. }
  destruct Hj as (j & Hj0 & Hj).
  exists j. split; [exact Hj0|]. split; [exact Hj|].
  unfold emit_token. cbn [fst snd].
  assert (Hnl_i : forall ls, Forall (fun l => ltok l = MNL) ls -> cnt is_indent ls = 0).
  { intros ls H. apply cnt_zero. revert H. apply Forall_impl. intros l ->. reflexivity. }
  assert (Hnl_d : forall ls, Forall (fun l => ltok l = MNL) ls -> cnt is_dedent ls = 0).
  { intros ls H. apply cnt_zero. revert H. apply Forall_impl. intros l ->. reflexivity. }
  rewrite !cnt_app, !cnt_one, !mk_lex_tok, Hi, Hd, (Hnl_i _ Hp), (Hnl_i _ Hr), (Hnl_d _ Hp), (Hnl_d _ Hr).
  destruct (cur_indent st <=? line_indent st) eqn:Hle.
  - apply Z.leb_le in Hle. rewrite !cnt_repeat, !mk_lex_tok. cbn [is_indent is_dedent].
    replace (line_indent st - cur_indent st) with (4 * (j - k)) by lia.
    rewrite quot4 by lia. rewrite Z2Nat.id by lia. lia.
  - apply Z.leb_gt in Hle. rewrite !cnt_app, !cnt_repeat, !cnt_one, !mk_lex_tok. cbn [is_indent is_dedent].
    replace (cur_indent st - line_indent st) with (4 * (k - j)) by lia.
    rewrite quot4 by lia. rewrite Z2Nat.id by lia. lia.
Qed.

Fixpoint aligned (fuel : nat) (s : str) (st : state) : bool :=
  match fuel with
  | O => true
  | S fuel =>
      match s with
      | [] => true
      | c :: r =>
          match scan c r with
          | SErr _ => true
          | SSpace rest => aligned fuel rest (state_space st)
          | STok t rest =>
              (is_nl t || ((line_indent st - 1) mod 4 =? 0))
              && aligned fuel rest (fst (state_token st t))
          | SString content _ rest =>
              ((line_indent st - 1) mod 4 =? 0)
              && aligned fuel rest (fst (state_token st (string_tok content)))
          end
      end
  end.

Lemma plain_not_layout t : plain t = true -> is_indent t = false /\ is_dedent t = false /\ is_eof t = false.
Proof. destruct t; cbn; try discriminate; easy. Qed.

Lemma string_tok_kind content :
  string_tok content <> MNL /\ is_indent (string_tok content) = false
  /\ is_dedent (string_tok content) = false /\ is_eof (string_tok content) = false.
Proof. unfold string_tok. destruct (is_docstring_arm content); repeat split; discriminate. Qed.

Lemma J_step st tops t :
  J st tops -> nls_ok st -> t <> MNL -> is_indent t = false -> is_dedent t = false ->
  (line_indent st - 1) mod 4 = 0 ->
  J (fst (emit_token st t)) (tops ++ snd (emit_token st t)).
Proof.
  intros [Hli (k & Hk & Hcur & Hcnt)] Hn Hnl Hi Hd Hmod.
  destruct (emit_counts st t k Hn Hi Hd Hli Hmod Hk Hcur) as (k' & Hk' & Hcur' & Hdiff).
  split.
  - unfold emit_token. cbn. exact Hli.
  - exists k'. split; [exact Hk'|]. split; [exact Hcur'|]. rewrite !cnt_app. lia.
Qed.

Theorem loop_balance fuel :
  forall s st acc st' acc',
    J st (map top acc) -> nls_ok st -> aligned fuel s st = true ->
    tok_loop fuel s st acc = inl (inl (st', acc')) ->
    J st' (map top acc').
Proof.
  induction fuel as [|fuel IH]; intros s st acc st' acc' HJ Hnls Hal Hrun.
  - cbn in Hrun. discriminate Hrun.
  - cbn [tok_loop] in Hrun. cbn [aligned] in Hal.
    destruct s as [|c r]; [inversion Hrun; subst; exact HJ|].
    destruct (scan c r) as [t rest | content exprs rest | rest | e] eqn:Hscan.
    + apply andb_prop in Hal as [Hmod Hal].
      destruct (is_nl t) eqn:Ht.
      * apply is_nl_true in Ht. subst t. cbn [state_token fst] in Hrun, Hal. rewrite app_nil_r in Hrun.
        eapply IH; [| apply newline_nls_ok, Hnls | exact Hal | exact Hrun].
        destruct HJ as [_ HJ]. split; [cbn; lia | exact HJ].
      * apply is_nl_false in Ht. cbn [orb] in Hmod. apply Z.eqb_eq in Hmod.
        destruct (scan_kind _ _ _ _ Hscan) as [[Heq _] | Hp]; [contradiction|].
        destruct (plain_not_layout _ Hp) as (Hi & Hd & _).
        rewrite (state_token_emit st t Ht) in Hrun, Hal.
        pose proof (J_step st (map top acc) t HJ Hnls Ht Hi Hd Hmod) as HJ'.
        destruct (emit_token st t) as [st1 out] eqn:He. cbn [fst snd] in *.
        eapply IH; [| | exact Hal | exact Hrun].
        -- rewrite tops_app, tops_tl0. exact HJ'.
        -- replace st1 with (fst (emit_token st t)) by (rewrite He; reflexivity). apply emit_nls_ok.
    + apply andb_prop in Hal as [Hmod Hal]. apply Z.eqb_eq in Hmod.
      destruct (string_tok_kind content) as (Hne & Hi & Hd & _).
      rewrite (state_token_emit st _ Hne) in Hrun, Hal.
      pose proof (J_step st (map top acc) _ HJ Hnls Hne Hi Hd Hmod) as HJ'.
      destruct (emit_out st (string_tok content) Hnls) as (layout & Hout & _).
      destruct (emit_token st (string_tok content)) as [st1 out] eqn:He. cbn [fst snd] in *.
      assert (Hn1 : nls_ok st1).
      { replace st1 with (fst (emit_token st (string_tok content))) by (rewrite He; reflexivity).
        apply emit_nls_ok. }
      destruct (is_docstring_arm content).
      * eapply IH; [| exact Hn1 | exact Hal | exact Hrun]. rewrite tops_app, tops_tl0. exact HJ'.
      * match type of Hrun with
        | match ?nested with _ => _ end = _ => destruct nested as [[inn|]|err]; try discriminate Hrun
        end.
        eapply IH; [| exact Hn1 | exact Hal | exact Hrun].
        rewrite tops_app, (string_out_tops out layout _ inn Hout). exact HJ'.
    + eapply IH; [| apply space_nls_ok, Hnls | exact Hal | exact Hrun].
      destruct HJ as [Hli HJ]. split; [|exact HJ]. unfold state_space. cbn.
      destruct (token_this_line st); lia.
    + discriminate Hrun.
Qed.

(** ** No end-of-file token inside the run *)

Lemma layout_not_eof t : is_layout t = true -> is_eof t = false.
Proof. destruct t; cbn; easy. Qed.

Theorem loop_no_eof fuel :
  forall s st acc st' acc',
    Forall (fun l => is_eof (ltok l) = false) (map top acc) -> nls_ok st ->
    tok_loop fuel s st acc = inl (inl (st', acc')) ->
    Forall (fun l => is_eof (ltok l) = false) (map top acc') /\ nls_ok st'.
Proof.
  induction fuel as [|fuel IH]; intros s st acc st' acc' Hacc Hnls Hrun.
  - cbn in Hrun. discriminate Hrun.
  - cbn [tok_loop] in Hrun.
    destruct s as [|c r]; [inversion Hrun; subst; split; assumption|].
    assert (Hstep : forall t st1 out, t <> MNL -> is_eof t = false -> emit_token st t = (st1, out) ->
              Forall (fun l => is_eof (ltok l) = false) (map top acc ++ out) /\ nls_ok st1).
    { intros t st1 out Ht He Hem. destruct (emit_out st t Hnls) as (layout & Hout & Hlay).
      rewrite Hem in Hout. cbn [snd] in Hout. split.
      - rewrite Hout. apply Forall_app. split; [exact Hacc|]. apply Forall_app. split.
        + revert Hlay. apply Forall_impl. intros l Hl. apply layout_not_eof, Hl.
        + constructor; [exact He | constructor].
      - replace st1 with (fst (emit_token st t)) by (rewrite Hem; reflexivity). apply emit_nls_ok. }
    destruct (scan c r) as [t rest | content exprs rest | rest | e] eqn:Hscan.
    + destruct (is_nl t) eqn:Ht.
      * apply is_nl_true in Ht. subst t. cbn [state_token] in Hrun. rewrite app_nil_r in Hrun.
        eapply IH; [exact Hacc | apply newline_nls_ok, Hnls | exact Hrun].
      * apply is_nl_false in Ht.
        destruct (scan_kind _ _ _ _ Hscan) as [[Heq _] | Hp]; [contradiction|].
        destruct (plain_not_layout _ Hp) as (_ & _ & He).
        rewrite (state_token_emit st t Ht) in Hrun.
        destruct (emit_token st t) as [st1 out] eqn:Hem.
        destruct (Hstep t st1 out Ht He Hem) as [H1 H2].
        eapply IH; [| exact H2 | exact Hrun]. rewrite tops_app, tops_tl0. exact H1.
    + destruct (string_tok_kind content) as (Hne & _ & _ & He).
      rewrite (state_token_emit st _ Hne) in Hrun.
      destruct (emit_out st (string_tok content) Hnls) as (layout & Hout & _).
      destruct (emit_token st (string_tok content)) as [st1 out] eqn:Hem. cbn [snd] in Hout.
      destruct (Hstep _ st1 out Hne He Hem) as [H1 H2].
      destruct (is_docstring_arm content).
      * eapply IH; [| exact H2 | exact Hrun]. rewrite tops_app, tops_tl0. exact H1.
      * match type of Hrun with
        | match ?nested with _ => _ end = _ => destruct nested as [[inn|]|err]; try discriminate Hrun
        end.
        eapply IH; [| exact H2 | exact Hrun].
        rewrite tops_app, (string_out_tops out layout _ inn Hout). exact H1.
    + eapply IH; [exact Hacc | apply space_nls_ok, Hnls | exact Hrun].
    + discriminate Hrun.
Qed.

(** ** The doc-string pass *)

Definition ocnt (p : token -> bool) (o : option tl) : Z :=
  match o with Some x => if p (ltok (top x)) then 1 else 0 | None => 0 end.

Lemma doc_get_some f m b d :
  doc_get f m b = Some d ->
  exists lf lm lb fs ds bs,
    f = Some lf /\ m = Some lm /\ b = Some lb /\ ltok lf = MStr fs /\ ltok lm = MStr ds
    /\ ltok lb = MStr bs /\ d = mk_lex (lstart lf) (MDocStr ds).
Proof.
  unfold doc_get. destruct f as [lf|], m as [lm|], b as [lb|]; try discriminate.
  destruct (ltok lf) eqn:Hf; try discriminate.
  destruct (ltok lm) eqn:Hm; try discriminate.
  destruct (ltok lb) eqn:Hb; try discriminate.
  match goal with |- (if ?c then _ else _) = _ -> _ => destruct c end; [|discriminate].
  intros H. inversion H; subst. repeat eexists; eassumption.
Qed.

Lemma otop_some o l : otop o = Some l -> exists x, o = Some x /\ top x = l.
Proof. destruct o as [x|]; cbn; [|discriminate]. intros H. inversion H. exists x. split; reflexivity. Qed.

Lemma doc_pass_cnt p :
  (forall s, p (MStr s) = false) -> (forall s, p (MDocStr s) = false) ->
  forall input m b,
    cnt p (map top (doc_pass None m b input)) = ocnt p m + ocnt p b + cnt p (map top input).
Proof.
  intros Hs Hd. induction input as [|l rest IH]; intros m b.
  - cbn [doc_pass app map]. destruct m as [x|], b as [y|]; cbn [app map ocnt];
      rewrite ?cnt_cons, ?cnt_nil; lia.
  - cbn [doc_pass].
    destruct (doc_get (otop m) (otop b) (otop (Some l))) as [d|] eqn:Hg.
    + apply doc_get_some in Hg as (lf & lm & lb & fs & ds & bs & Hf & Hm & Hb & Htf & Htm & Htb & ->).
      apply otop_some in Hf as (xf & -> & <-). apply otop_some in Hm as (xm & -> & <-).
      cbn in Hb. inversion Hb; subst lb.
      cbn [map top tl0]. rewrite !cnt_cons, mk_lex_tok, Hd, IH.
      cbn [ocnt]. rewrite Htf, Htm, Htb, !Hs. lia.
    + destruct m as [x|].
      * cbn [map]. rewrite !cnt_cons, IH. cbn [ocnt]. lia.
      * rewrite IH. cbn [ocnt map]. rewrite cnt_cons. lia.
Qed.

Definition is_docstr (t : token) : bool := match t with MDocStr _ => true | _ => false end.

(** every token after the pass was there before it, or is a doc-string *)
Lemma doc_pass_in (P : lex -> Prop) :
  (forall l, is_docstr (ltok l) = true -> P l) ->
  forall input m b,
    (forall x, m = Some x -> P (top x)) -> (forall x, b = Some x -> P (top x)) ->
    Forall P (map top input) ->
    Forall P (map top (doc_pass None m b input)).
Proof.
  intros Hdoc. induction input as [|l rest IH]; intros m b Hm Hb Hin.
  - cbn [doc_pass app]. destruct m as [x|], b as [y|]; cbn [app map]; repeat constructor; auto.
  - cbn [doc_pass]. inversion Hin as [|? ? Hl Hrest]; subst.
    destruct (doc_get (otop m) (otop b) (otop (Some l))) as [d|] eqn:Hg.
    + apply doc_get_some in Hg as (lf & lm & lb & fs & ds & bs & _ & _ & _ & _ & _ & _ & ->).
      cbn [map top tl0]. constructor; [apply Hdoc; reflexivity|].
      apply IH; [discriminate | discriminate | exact Hrest].
    + destruct m as [x|].
      * cbn [map]. constructor; [apply Hm; reflexivity|].
        apply IH; [exact Hb | intros y Hy; inversion Hy; subst; exact Hl | exact Hrest].
      * apply IH; [exact Hb | intros y Hy; inversion Hy; subst; exact Hl | exact Hrest].
Qed.

(** ** Whole-input theorems *)

Definition run_fuel (s : str) : nat := S (S (length s)).

(** top-level tokens of [tokenize s] with the tokens of interpolations attached *)
Definition run_tls (s : str) : option (list tl) :=
  match tok_loop (run_fuel s) s state0 [] with
  | inl (inl (st, acc)) =>
      let ts := acc ++ map tl0 (flush_indents st) in
      Some (docstring_pass (ts ++ [tl0 (mk_lex (last_end ts) MEof)]))
  | _ => None
  end.

Lemma tokenize_run s ts :
  tokenize s = LexOk ts <-> exists tls, run_tls s = Some tls /\ ts = flatten tls.
Proof.
  unfold tokenize, tokenize_fuel, run_tls, run_fuel.
  destruct (tok_loop (S (S (length s))) s state0 []) as [[[st acc]|[p e]]|u]; split.
  - intros H. inversion H; subst. eexists. split; reflexivity.
  - intros (tls & H & ->). inversion H; subst. reflexivity.
  - discriminate.
  - intros (tls & H & _). discriminate H.
  - discriminate.
  - intros (tls & H & _). discriminate H.
Qed.

Lemma nls_ok0 : nls_ok state0. Proof. constructor. Qed.

Lemma flush_count st k :
  0 <= k -> cur_indent st = 1 + 4 * k ->
  cnt is_dedent (flush_indents st) = k /\ cnt is_indent (flush_indents st) = 0
  /\ cnt is_eof (flush_indents st) = 0.
Proof.
  intros Hk Hc. unfold flush_indents. rewrite !cnt_repeat, mk_lex_tok. cbn [is_dedent is_indent is_eof].
  rewrite Hc. rewrite Z.quot_div_nonneg by lia.
  replace (1 + 4 * k) with (k * 4 + 1) by lia. rewrite Z.div_add_l by lia.
  change (1 / 4) with 0. rewrite Z.add_0_r, Z2Nat.id by lia. repeat split; reflexivity.
Qed.

Theorem balanced s tls :
  aligned (run_fuel s) s state0 = true -> run_tls s = Some tls ->
  cnt is_indent (map top tls) = cnt is_dedent (map top tls).
Proof.
  unfold run_tls. intros Hal Hrun.
  destruct (tok_loop (run_fuel s) s state0 []) as [[[st acc]|?]|?] eqn:Hloop; try discriminate Hrun.
  inversion Hrun; subst tls. clear Hrun.
  assert (HJ0 : J state0 (map top [])).
  { split; [cbn; lia|]. exists 0. repeat split; cbn; lia. }
  destruct (loop_balance _ _ _ _ _ _ HJ0 nls_ok0 Hal Hloop) as [_ (k & Hk & Hcur & Hcnt)].
  destruct (flush_count st k Hk Hcur) as (Hfd & Hfi & _).
  unfold docstring_pass.
  rewrite !doc_pass_cnt by reflexivity. cbn [ocnt].
  rewrite !tops_app, !tops_tl0. cbn [map top tl0]. rewrite !cnt_app, !cnt_one, mk_lex_tok.
  cbn [is_indent is_dedent]. lia.
Qed.

Theorem single_eof s tls :
  run_tls s = Some tls -> cnt is_eof (map top tls) = 1.
Proof.
  unfold run_tls. intros Hrun.
  destruct (tok_loop (run_fuel s) s state0 []) as [[[st acc]|?]|?] eqn:Hloop; try discriminate Hrun.
  inversion Hrun; subst tls. clear Hrun.
  destruct (loop_no_eof _ _ _ [] _ _ (Forall_nil _) nls_ok0 Hloop) as [Hacc _].
  unfold docstring_pass. rewrite doc_pass_cnt by reflexivity. cbn [ocnt].
  rewrite !tops_app, !tops_tl0. cbn [map top tl0]. rewrite !cnt_app, !cnt_one, mk_lex_tok.
  rewrite (cnt_zero is_eof _ Hacc). unfold flush_indents. rewrite cnt_repeat, mk_lex_tok. reflexivity.
Qed.

Theorem positions_exact s tls :
  clean (run_fuel s) s = true -> run_tls s = Some tls ->
  Forall (fun l => synthetic (ltok l) = true \/ is_docstr (ltok l) = true \/ tok_ok s l) (map top tls).
Proof.
  unfold run_tls. intros Hcl Hrun.
  destruct (tok_loop (run_fuel s) s state0 []) as [[[st acc]|?]|?] eqn:Hloop; try discriminate Hrun.
  inversion Hrun; subst tls. clear Hrun.
  pose proof (loop_positions _ s state0 [] [] s _ _ eq_refl eq_refl nls_ok0 Hcl (Forall_nil _) Hloop) as Hacc.
  unfold docstring_pass. apply doc_pass_in.
  - intros l Hl. right. left. exact Hl.
  - discriminate.
  - discriminate.
  - rewrite !tops_app, !tops_tl0. cbn [map top tl0]. apply Forall_app. split; [apply Forall_app; split|].
    + revert Hacc. apply Forall_impl. intros l [H | H]; [left; exact H | right; right; exact H].
    + unfold flush_indents. apply Forall_forall. intros l Hl. apply repeat_spec in Hl. subst. left. reflexivity.
    + constructor; [left; reflexivity | constructor].
Qed.
