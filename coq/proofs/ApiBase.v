(** * C17 - infrastructure: monad inversion, clean states, table facts, shapes of [conv] results *)
From Coq Require Import List String Bool Arith Lia Ascii.
From MambaModel Require Import model.Core gen.Names model.Convert model.Api
  proofs.ConvUnfold proofs.ConvertProps.
Import ListNotations.
Local Open Scope string_scope.

(** ** Inversion of the monad *)

Lemma bind_inv {X Y} (m : M X) (k : X -> M Y) i y j :
  bind m k i = Some (y, j) -> exists x i', m i = Some (x, i') /\ k x i' = Some (y, j).
Proof. unfold bind. destruct (m i) as [[x i']|]; [|discriminate]. intros H. exists x, i'. split; [reflexivity | exact H]. Qed.

Lemma ret_inv {X} (x y : X) i j : ret x i = Some (y, j) -> x = y /\ i = j.
Proof. unfold ret. intros H. inversion H. split; reflexivity. Qed.

Lemma mmap_inv {X Y} (f : X -> M Y) l : forall i ys j,
  mmap f l i = Some (ys, j) -> Forall2 (fun x y => exists i j, f x i = Some (y, j)) l ys.
Proof.
  induction l as [|x l IH]; intros i ys j H; cbn [mmap] in H.
  - apply ret_inv in H. destruct H as [<- _]. constructor.
  - apply bind_inv in H. destruct H as (c & i1 & Hc & H). apply bind_inv in H. destruct H as (cs & i2 & Hcs & H).
    apply ret_inv in H. destruct H as [<- _]. constructor; [exists i, i1; exact Hc | exact (IH _ _ _ Hcs)].
Qed.

Lemma mopt_inv {X Y} (f : X -> M Y) o i r j :
  mopt f o i = Some (r, j) -> is_some r = is_some o /\
  match o, r with Some x, Some y => f x i = Some (y, j) | _, _ => True end.
Proof.
  destruct o as [x|]; cbn [mopt]; intros H.
  - apply bind_inv in H. destruct H as (c & i1 & Hc & H). apply ret_inv in H. destruct H as [<- <-].
    split; [reflexivity | exact Hc].
  - apply ret_inv in H. destruct H as [<- _]. split; [reflexivity | exact I].
Qed.

Ltac minv :=
  repeat match goal with
  | H : bind _ _ _ = Some _ |- _ =>
      let x := fresh "x" in let i := fresh "i" in let Hx := fresh "Hx" in
      apply bind_inv in H; destruct H as (x & i & Hx & H)
  | H : ret _ _ = Some _ |- _ => apply ret_inv in H; destruct H as [? ?]; subst
  | H : fail _ = Some _ |- _ => discriminate H
  end.

(** ** States whose post-processing is the identity *)

Definition clean (st : state) : Prop := assign_to st = None /\ last_ret st = false.

Lemma clear_clean st : clean st -> with_last_ret (with_assign st None) false = st.
Proof. destruct st. unfold clean. cbn. intros [-> ->]. reflexivity. Qed.
Lemma clean_clear st : clean (with_last_ret (with_assign st None) false).
Proof. split; reflexivity. Qed.
Lemma clean_state0 ann : clean (state0 ann). Proof. split; reflexivity. Qed.
Lemma clean_tup st : clean st -> clean (with_tup_lit st). Proof. intros H. exact H. Qed.
Lemma clean_interface st b : clean st -> clean (with_interface st b). Proof. intros H. exact H. Qed.
Lemma clean_dafa st b : clean st -> clean (with_def_as_fun_arg st b). Proof. intros H. exact H. Qed.
Lemma clean_expand st b : clean st -> clean (with_expand st b). Proof. intros H. exact H. Qed.

Lemma post_clean st c i : clean st -> post st c i = Some (c, i).
Proof. intros [Ha Hl]. unfold post. rewrite Ha, Hl. reflexivity. Qed.

Lemma bind_post_clean st (r : M core) i : clean st -> bind r (post st) i = r i.
Proof.
  intros H. unfold bind. destruct (r i) as [[c i']|]; [|reflexivity]. apply post_clean, H.
Qed.

(** every conversion is a raw result followed by [post] *)
Ltac conv_clean H := rewrite conv_eq; cbv beta match zeta; etransitivity; [apply (bind_post_clean _ _ _ H)|].

(** ** Table facts (computed on the regenerated tables) *)

Definition table_ok : bool :=
  forallb (fun kv => negb (existsb (String.eqb (snd kv)) [n_self_; n_init; "size"; "@"; "ABC"])
                     && negb (existsb (String.eqb (fst kv)) [n_self_; n_init; "ABC"])
                     && match funop_of (snd kv) with Some _ => false | None => true end) py_names
  && String.eqb (concrete_to_python n_tuple_m) n_tuple_py
  && String.eqb (concrete_to_python n_callable_m) n_callable_py.
Lemma table_ok_true : table_ok = true. Proof. vm_compute. reflexivity. Qed.

Lemma lookup_in k m v : lookup k m = Some v -> In (k, v) m.
Proof.
  induction m as [|[k' v'] m IH]; cbn [lookup]; [discriminate|].
  destruct (String.eqb k k') eqn:E.
  - apply String.eqb_eq in E. subst k'. intros H. inversion H. left. reflexivity.
  - intros H. right. apply IH, H.
Qed.
Lemma lookup_none k m : lookup k m = None -> forall v, ~ In (k, v) m.
Proof.
  induction m as [|[k' v'] m IH]; cbn [lookup]; [intros _ v []|].
  destruct (String.eqb k k') eqn:E; [discriminate|]. intros H v [Hin | Hin].
  - inversion Hin. subst. rewrite String.eqb_refl in E. discriminate.
  - exact (IH H v Hin).
Qed.

(** a name the table neither maps from nor to is a fixed point, in both directions *)
Lemma ctp_fixed (t : string) :
  (forall kv, In kv py_names -> String.eqb (snd kv) t = false /\ String.eqb (fst kv) t = false) ->
  forall s, concrete_to_python s = t <-> s = t.
Proof.
  intros Ht s. unfold concrete_to_python. destruct (lookup s py_names) as [p|] eqn:E.
  - apply lookup_in in E. destruct (Ht _ E) as [H1 H2]. cbn [fst snd] in *. split; intros ->.
    + rewrite String.eqb_refl in H1. discriminate.
    + rewrite String.eqb_refl in H2. discriminate.
  - reflexivity.
Qed.

Lemma table_rows : forall kv, In kv py_names ->
  (negb (existsb (String.eqb (snd kv)) [n_self_; n_init; "size"; "@"; "ABC"])
   && negb (existsb (String.eqb (fst kv)) [n_self_; n_init; "ABC"])
   && match funop_of (snd kv) with Some _ => false | None => true end) = true.
Proof.
  pose proof table_ok_true as H. unfold table_ok in H.
  apply andb_prop in H. destruct H as [H _]. apply andb_prop in H. destruct H as [H _].
  rewrite forallb_forall in H. exact H.
Qed.

Lemma ctp_self s : concrete_to_python s = n_self_ <-> s = n_self_.
Proof.
  apply ctp_fixed. intros kv Hin. pose proof (table_rows kv Hin) as H.
  apply andb_prop in H. destruct H as [H _]. apply andb_prop in H. destruct H as [H1 H2].
  apply negb_true_iff in H1, H2. cbn [existsb] in H1, H2.
  apply orb_false_elim in H1. destruct H1 as [H1 _]. apply orb_false_elim in H2. destruct H2 as [H2 _].
  split; assumption.
Qed.
Lemma ctp_init s : concrete_to_python s = n_init <-> s = n_init.
Proof.
  apply ctp_fixed. intros kv Hin. pose proof (table_rows kv Hin) as H.
  apply andb_prop in H. destruct H as [H _]. apply andb_prop in H. destruct H as [H1 H2].
  apply negb_true_iff in H1, H2. cbn [existsb] in H1, H2.
  apply orb_false_elim in H1. destruct H1 as [_ H1]. apply orb_false_elim in H1. destruct H1 as [H1 _].
  apply orb_false_elim in H2. destruct H2 as [_ H2]. apply orb_false_elim in H2. destruct H2 as [H2 _].
  split; assumption.
Qed.

(** a table value is never an operator name, [size] or [@] *)
Lemma ctp_value s :
  concrete_to_python s = s \/
  (funop_of (concrete_to_python s) = None /\ String.eqb (concrete_to_python s) "size" = false
   /\ concrete_to_python s <> "@" /\ concrete_to_python s <> n_init).
Proof.
  unfold concrete_to_python. destruct (lookup s py_names) as [p|] eqn:E; [|left; reflexivity].
  right. apply lookup_in in E. pose proof (table_rows _ E) as H. cbn [fst snd] in H.
  apply andb_prop in H. destruct H as [H H3]. apply andb_prop in H. destruct H as [H1 _].
  apply negb_true_iff in H1. cbn [existsb] in H1.
  repeat (apply orb_false_elim in H1; let H' := fresh "H" in destruct H1 as [H' H1]).
  split; [destruct (funop_of p); [discriminate | reflexivity]|].
  split; [assumption|]. split; intros ->.
  - rewrite String.eqb_refl in *. discriminate.
  - rewrite String.eqb_refl in *. discriminate.
Qed.

(** ** One-step equations of [conv] in clean states *)

Lemma conv_id_eq ty s st i : clean st -> conv (A ty (NId s)) st i = Some (Id (concrete_to_python s), i).
Proof. intros H. conv_clean H. reflexivity. Qed.

Lemma conv_block_eq ty stmts st i : clean st ->
  conv (A ty (NBlock stmts)) st i = (cs <- mmap (fun x => conv x st) stmts ;; ret (Block cs)) i.
Proof. intros H. conv_clean H. rewrite (clear_clean st H). reflexivity. Qed.

Lemma conv_funarg_eq ty vararg var aty default st i : clean st ->
  conv (A ty (NFunArg vararg var aty default)) st i =
  (v <- conv var st ;;
   let ann := annotate st && expand_ty st && negb (is_self v) in
   ty <- (if ann then opt_nm_to_py aty else ret None) ;;
   d <- mopt (fun x => conv x st) default ;;
   ret (FunArg vararg v ty d)) i.
Proof. intros H. conv_clean H. rewrite (clear_clean st H). reflexivity. Qed.

Lemma conv_fundef_eq ty id args ret_ty body st i : clean st ->
  conv (A ty (NFunDef id args ret_ty body)) st i =
  (arg <- mmap (fun x => conv x st) args ;;
   ty <- (if annotate st then opt_nm_to_py ret_ty else ret None) ;;
   decbody <-
     (if interface st && match body with None => true | Some _ => false end then
        _ <- touch (add_from_import "abc" "abstractmethod") ;; ret (["abstractmethod"], Pass)
      else
        match body with
        | Some b =>
            c <- conv b (with_last_ret (with_expand st true)
                           (match ret_ty with Some _ => true | None => false end)) ;;
            ret ([], c)
        | None => ret ([], Pass)
        end) ;;
   cid <- conv id st ;;
   match cid with
   | Id lit =>
       match funop_of lit with
       | Some op => ret (FunDefOp op arg ty (snd decbody))
       | None =>
           let name := if String.eqb lit "size" then "__size__" else lit in
           ret (FunDef (fst decbody) name arg ty (snd decbody))
       end
   | _ => fail
   end) i.
Proof. intros H. conv_clean H. rewrite (clear_clean st H). reflexivity. Qed.

Lemma conv_parent_eq ty name generics args st i : clean st ->
  conv (A ty (NParent name generics args)) st i =
  (t <- lift (tn_to_py (TN false name generics)) ;;
   match args with
   | [] => ret t
   | _ => cs <- mmap (fun x => conv x st) args ;; ret (FunctionCall t cs)
   end) i.
Proof. intros H. conv_clean H. rewrite (clear_clean st H). reflexivity. Qed.

Lemma conv_class_eq ty name generics args parents body st i : clean st ->
  conv (A ty (NClass name generics args parents body)) st i =
  (ps <- mmap (fun x => conv x st) parents ;;
   let cst := with_interface st false in
   b <- mopt (fun x => conv x cst) body ;;
   ca <- mmap (fun x => conv x (with_def_as_fun_arg cst true)) args ;;
   let stmts := match b with Some x => block_stmts x | None => [] end in
   match assemble_class stmts ca ps with
   | Some (parent_names, body_stmts) =>
       t <- lift (tn_to_py (TN false name generics)) ;;
       match t with
       | Type_ lit _ => ret (ClassDef (Id lit) parent_names (Block body_stmts))
       | _ => fail
       end
   | None => fail
   end) i.
Proof. intros H. conv_clean H. rewrite (clear_clean st H). reflexivity. Qed.

Lemma conv_typedef_eq ty name generics isa body abstract_parent st i : clean st ->
  conv (A ty (NTypeDef name generics isa body abstract_parent)) st i =
  (ps <- (match isa with
          | Some n => (t <- lift (nm_to_py n) ;; ret [t])
          | None => ret []
          end) ;;
   let cst := with_interface st true in
   b <- mopt (fun x => conv x cst) body ;;
   let stmts := match b with Some x => block_stmts x | None => [] end in
   match assemble_class stmts [] ps with
   | Some (parent_names, body_stmts) =>
       pn <- (if abstract_parent then ret parent_names
              else (_ <- touch (add_from_import "abc" "ABC") ;; ret (parent_names ++ [Id "ABC"])%list)) ;;
       t <- lift (tn_to_py (TN false name generics)) ;;
       match t with
       | Type_ lit _ => ret (ClassDef (Id lit) pn (Block body_stmts))
       | _ => fail
       end
   | None => fail
   end) i.
Proof. intros H. conv_clean H. rewrite (clear_clean st H). reflexivity. Qed.

Lemma conv_vardef_eq ty var vty expr st i : clean st ->
  conv (A ty (NVarDef var vty expr)) st i =
  (v <- conv var (with_tup_lit st) ;;
   let ann := annotate st && expand_ty st && negb (is_tuple_literal v) in
   ty <- (if ann then
            match vty, expr with
            | Some t, _ => opt_nm_to_py (Some t)
            | None, Some e => opt_nm_to_py (ast_ty e)
            | None, None => ret None
            end
          else ret None) ;;
   if def_as_fun_arg st then
     d <- mopt (fun x => conv x st) expr ;; ret (FunArg false v ty d)
   else
     match expr with
     | Some e =>
         c <- conv e st ;;
         match c with
         | IfElse _ _ _ | Match _ _ => conv e (with_assign st (Some (v, ast_ty e)))
         | other => ret (VarDef v ty (Some other))
         end
     | None =>
         match v with
         | TupleLiteral els => ret (VarDef v ty (Some (Tuple (map (fun _ => None_) els))))
         | _ => ret (VarDef v ty None)
         end
     end) i.
Proof. intros H. conv_clean H. rewrite (clear_clean st H). reflexivity. Qed.

(** ** Heads of conversion results *)

(** neither a definition, nor a variable definition, nor a block *)
Definition plain (c : core) : bool :=
  match c with
  | FunDef _ _ _ _ _ | FunDefOp _ _ _ _ | ClassDef _ _ _ | VarDef _ _ _ | Block _ => false
  | _ => true
  end.

Definition mplain (m : M core) : Prop := forall i c j, m i = Some (c, j) -> plain c = true.
Lemma mplain_ret c : plain c = true -> mplain (ret c).
Proof. intros H i c' j E. apply ret_inv in E. destruct E as [<- _]. exact H. Qed.
Lemma mplain_fail : mplain fail. Proof. intros i c j E. discriminate E. Qed.
Lemma mplain_bind {X} (m : M X) k : (forall x, mplain (k x)) -> mplain (bind m k).
Proof. intros H i c j E. apply bind_inv in E. destruct E as (x & i' & _ & E). exact (H x i' c j E). Qed.

Ltac mp :=
  first
    [ simple apply mplain_fail
    | simple apply mplain_ret; reflexivity
    | simple apply mplain_ret;
      match goal with
      | |- plain (bin_core ?o _ _) = true => destruct o; reflexivity
      | |- plain (if ?b then _ else _) = true => destruct b; reflexivity
      end
    | simple apply mplain_bind; intro; mp
    | match goal with
      | |- mplain (match ?x with _ => _ end) => destruct x; mp
      end ].

Lemma conv_raw_opaque ty nd st :
  opaque nd = true -> exists r, conv (A ty nd) st = bind r (post st) /\ mplain r.
Proof.
  intros Ho. rewrite conv_eq. cbv beta match zeta. eexists. split; [reflexivity|].
  destruct nd; try discriminate Ho; mp.
Qed.

Lemma conv_opaque_plain ty nd st i c j :
  opaque nd = true -> clean st -> conv (A ty nd) st i = Some (c, j) -> plain c = true.
Proof.
  intros Ho Hc E. destruct (conv_raw_opaque ty nd st Ho) as (r & Er & Hr).
  rewrite Er, bind_post_clean in E by exact Hc. exact (Hr _ _ _ E).
Qed.

(** assigning in every branch turns a plain statement into a plain one or into a definition of the target *)
Lemma append_assign_head v n c i :
  plain c = true ->
  plain (fst (append_assign v n c i)) = true \/ exists t e, fst (append_assign v n c i) = VarDef v t e.
Proof.
  intros Hp.
  assert (Hleaf : plain (fst (assign_leaf v n c i)) = true \/ exists t e, fst (assign_leaf v n c i) = VarDef v t e).
  { unfold assign_leaf. destruct (skip_assign c); [left; exact Hp|]. right.
    destruct n as [n|]; [destruct (nm_to_py n i) as [t i']|]; cbn [fst]; eexists; eexists; reflexivity. }
  destruct c; try discriminate Hp; try exact Hleaf; left; cbn [append_assign].
  - destruct (append_assign v n c2 i) as [t' i1]. destruct (append_assign v n c3 i1) as [e' i2]. reflexivity.
  - destruct (smap (append_assign v n) cases i) as [cs i']. reflexivity.
  - destruct (append_assign v n c2 i) as [b' i']. reflexivity.
  - destruct (append_assign v n c i) as [a' i1]. destruct (smap (append_assign v n) except i1) as [ex' i2]. reflexivity.
  - destruct (append_assign v n c3 i) as [b' i']. reflexivity.
  - destruct (append_assign v n c2 i) as [b' i']. reflexivity.
Qed.

Definition is_branching (c : core) : bool := match c with IfElse _ _ _ | Match _ _ => true | _ => false end.
Lemma branch_match {X} c (P Q : X) :
  match c with IfElse _ _ _ | Match _ _ => P | _ => Q end = if is_branching c then P else Q.
Proof. destruct c; reflexivity. Qed.

Definition tl_default (v : core) : option core :=
  match v with TupleLiteral els => Some (Tuple (map (fun _ : core => None_) els)) | _ => None end.
Lemma tl_match v ty :
  match v with
  | TupleLiteral els => ret (VarDef v ty (Some (Tuple (map (fun _ : core => None_) els))))
  | _ => ret (VarDef v ty None)
  end = ret (VarDef v ty (tl_default v)).
Proof. destruct v; reflexivity. Qed.

(** a variable definition converts to a plain statement or to a definition of its own variable *)
Lemma conv_vardef_head a st i c j :
  wf_vardef a = true -> clean st -> conv a st i = Some (c, j) ->
  match ast_node a with
  | NVarDef var _ _ =>
      exists v j1, conv var (with_tup_lit st) i = Some (v, j1) /\
                   (plain c = true \/ exists t e, c = VarDef v t e)
  | _ => False
  end.
Proof.
  destruct a as [ty nd]. unfold wf_vardef. cbn [ast_node]. destruct nd; try discriminate.
  intros Hwf Hc E. rewrite conv_vardef_eq in E by exact Hc.
  apply bind_inv in E. destruct E as (v & i1 & Hv & E). exists v, i1. split; [exact Hv|].
  apply bind_inv in E. destruct E as (t & i2 & _ & E).
  destruct (def_as_fun_arg st).
  { minv. left. reflexivity. }
  destruct expr as [e|].
  - apply bind_inv in E. destruct E as (c0 & i3 & _ & E). rewrite branch_match in E.
    destruct (is_branching c0) eqn:Hb.
    + destruct e as [ety en]. cbn [ast_node] in Hwf.
      destruct (conv_raw_opaque ety en (with_assign st (Some (v, ast_ty (A ety en)))) Hwf) as (r & Er & Hr).
      rewrite Er in E. apply bind_inv in E. destruct E as (c1 & i4 & Hc1 & E).
      specialize (Hr _ _ _ Hc1). unfold post in E. cbn [assign_to with_assign last_ret] in E.
      destruct Hc as [_ Hl]. rewrite Hl in E.
      apply bind_inv in E. destruct E as (c2 & i5 & Hc2 & E). apply ret_inv in E. destruct E as [<- _].
      unfold lift in Hc2. injection Hc2 as H1.
      pose proof (append_assign_head v ety c1 i4 Hr) as Hh. cbn [ast_ty] in H1. rewrite H1 in Hh. exact Hh.
    + apply ret_inv in E. destruct E as [<- _]. right. eexists. eexists. reflexivity.
  - rewrite tl_match in E. apply ret_inv in E. destruct E as [<- _]. right. eexists. eexists. reflexivity.
Qed.

(** ** Names of rendered class types *)

Lemma tn_head name gs i :
  exists gs', fst (tn_to_py (TN false name gs) i) = Type_ (concrete_to_python name) gs'.
Proof.
  pose proof table_ok_true as Ht. unfold table_ok in Ht. apply andb_prop in Ht. destruct Ht as [Ht Hcal].
  apply andb_prop in Ht. destruct Ht as [_ Htup]. apply String.eqb_eq in Hcal, Htup.
  rewrite tn_to_py_unfold. cbv zeta.
  destruct (String.eqb name n_tuple_m) eqn:E1.
  { apply String.eqb_eq in E1. subst name. rewrite Htup.
    destruct (nms_to_py gs (add_from_import "typing" n_tuple_py i)) as [g i2]. eexists. reflexivity. }
  destruct (String.eqb name n_callable_m) eqn:E2.
  { apply String.eqb_eq in E2. subst name. rewrite Hcal. destruct gs as [|a [|r rest]].
    - eexists. reflexivity.
    - destruct (nm_to_py a _) as [ca i2]. eexists. reflexivity.
    - destruct (nm_to_py a _) as [ca i2]. destruct (nm_to_py r i2) as [cr i3]. eexists. reflexivity. }
  destruct (nms_to_py gs _) as [g i2]. eexists. reflexivity.
Qed.

(** ** Parameters and function signatures *)

Definition funarg_id (c : core) : bool := match c with FunArg _ (Id _) _ _ => true | _ => false end.
Definition isfun (c : core) : bool := match c with FunDef _ _ _ _ _ | FunDefOp _ _ _ _ => true | _ => false end.
Definition fun_args (c : core) : list core :=
  match c with FunDef _ _ a _ _ | FunDefOp _ a _ _ => a | _ => [] end.

(** [fun_arg_preserved]: a parameter keeps its name (through the name table), its variadic marker, and
    has a default exactly when the source has one *)
Lemma fun_arg_preserved a st i c j :
  wf_param a = true -> clean st -> conv a st i = Some (c, j) ->
  param_py c = py_param (param_src a) /\ funarg_id c = true.
Proof.
  destruct a as [ty nd]. unfold wf_param, param_src. cbn [ast_node]. destruct nd; try discriminate.
  destruct var as [vty vn]. unfold is_nid, id_name. cbn [ast_node]. destruct vn; try discriminate.
  intros _ Hc E. rewrite conv_funarg_eq in E by exact Hc.
  apply bind_inv in E. destruct E as (v & i1 & Hv & E). rewrite conv_id_eq in Hv by exact Hc.
  injection Hv as <- <-. apply bind_inv in E. destruct E as (t & i2 & _ & E).
  apply bind_inv in E. destruct E as (d & i3 & Hd & E). apply ret_inv in E. destruct E as [<- _].
  apply mopt_inv in Hd. destruct Hd as [Hd _]. cbn [param_py core_name py_param funarg_id]. rewrite Hd.
  split; reflexivity.
Qed.

(** class arguments ([def a: T := e] or [a: T := e]) become parameters the same way *)
Lemma class_arg_preserved a st i c j :
  wf_carg a = true -> clean st -> def_as_fun_arg st = true -> conv a st i = Some (c, j) ->
  param_py c = py_param (param_src a) /\ funarg_id c = true.
Proof.
  intros Hwf Hc Hd E. destruct a as [ty nd]. destruct nd; try discriminate Hwf.
  - (* NVarDef *)
    unfold wf_carg in Hwf. cbn [ast_node] in Hwf. destruct var as [vty0 vn]. destruct vn; try discriminate Hwf.
    rewrite conv_vardef_eq in E by exact Hc.
    apply bind_inv in E. destruct E as (v & i1 & Hv & E). rewrite conv_id_eq in Hv by (apply clean_tup, Hc).
    injection Hv as <- <-. apply bind_inv in E. destruct E as (t & i2 & _ & E). rewrite Hd in E.
    apply bind_inv in E. destruct E as (d & i3 & Hdd & E). apply ret_inv in E. destruct E as [<- _].
    apply mopt_inv in Hdd. destruct Hdd as [Hdd _].
    unfold param_src, id_name. cbn [ast_node param_py core_name py_param funarg_id]. rewrite Hdd. split; reflexivity.
  - (* NFunArg *) exact (fun_arg_preserved (A ty (NFunArg vararg var aty default)) st i c j Hwf Hc E).
Qed.

Lemma params_preserved (wfp : ast -> bool) st args cs :
  (forall a i c j, wfp a = true -> conv a st i = Some (c, j) ->
                   param_py c = py_param (param_src a) /\ funarg_id c = true) ->
  forallb wfp args = true ->
  Forall2 (fun x y => exists i j, conv x st i = Some (y, j)) args cs ->
  map param_py cs = map py_param (map param_src args) /\ forallb funarg_id cs = true.
Proof.
  intros Hp Hwf HF. induction HF as [|a c args cs (i & j & E) _ IH]; [split; reflexivity|].
  cbn [forallb] in Hwf. apply andb_prop in Hwf. destruct Hwf as [Ha Hr].
  destruct (Hp a i c j Ha E) as [H1 H2]. destruct (IH Hr) as [H3 H4].
  cbn [map forallb]. rewrite H1, H2, H3, H4. split; reflexivity.
Qed.

Lemma funop_of_name lit op : funop_of lit = Some op -> funop_name op = lit.
Proof.
  unfold funop_of. cbv zeta.
  repeat match goal with
  | |- (if ?b then _ else _) = _ -> _ =>
      let E := fresh "E" in destruct b eqn:E;
      [ intros H; injection H as <-; cbn [lookup dunder String.eqb Ascii.eqb Bool.eqb] in E;
        apply String.eqb_eq in E; subst lit; reflexivity | clear E ]
  end.
  discriminate.
Qed.

(** [fun_sig_preserved]: a function definition keeps its name (renamed by [py_fname]), the order of its
    parameters, their variadic markers, and has defaults exactly where the source has them *)
Lemma fun_sig_preserved a st i c j :
  wf_fun a = true -> clean st -> conv a st i = Some (c, j) ->
  exists f, fsig_src a = Some f /\ fsig_py c = Some (py_fsig f) /\ isfun c = true
            /\ forallb funarg_id (fun_args c) = true.
Proof.
  destruct a as [ty nd]. unfold wf_fun, fsig_src. cbn [ast_node]. destruct nd; try discriminate.
  destruct id as [idty idn]. destruct idn; try discriminate.
  intros Hwf Hc E. apply andb_prop in Hwf. destruct Hwf as [_ Hargs].
  rewrite conv_fundef_eq in E by exact Hc.
  apply bind_inv in E. destruct E as (arg & i1 & Harg & E). apply mmap_inv in Harg.
  destruct (params_preserved wf_param st args arg
              (fun a i c j Ha Ea => fun_arg_preserved a st i c j Ha Hc Ea) Hargs Harg) as [Hps Hfa].
  apply bind_inv in E. destruct E as (t & i2 & _ & E). apply bind_inv in E. destruct E as (db & i3 & _ & E).
  apply bind_inv in E. destruct E as (cid & i4 & Hid & E). rewrite conv_id_eq in Hid by exact Hc.
  injection Hid as <- <-.
  eexists. split; [reflexivity|]. unfold py_fsig, py_fname, id_name. cbn [ast_node fst snd].
  destruct (funop_of (concrete_to_python s)) as [op|] eqn:Hop.
  - apply ret_inv in E. destruct E as [<- _]. cbn [fsig_py isfun fun_args]. rewrite Hps. repeat split; assumption.
  - apply ret_inv in E. destruct E as [<- _]. cbn [fsig_py isfun fun_args]. rewrite Hps. repeat split; assumption.
Qed.
