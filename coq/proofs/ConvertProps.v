(** * Properties of the desugaring model [Convert.conv]

    C11 - the annotate flag is inert: for every typed AST of the fragment, the two
    conversions succeed or fail together and their results are equal once
    annotations are erased; the registered plain imports and the non-typing
    from-imports coincide. *)
From Coq Require Import List String Bool Arith Lia.
From MambaModel Require Import model.Core gen.Names model.Convert.
Import ListNotations.
Local Open Scope string_scope.

(** ** Size of typed ASTs (for induction through the nested lists/options) *)

Fixpoint size (a : ast) : nat :=
  match a with
  | A _ n =>
      let sl := fix sl (l : list ast) : nat := match l with [] => 0 | x :: r => size x + sl r end in
      let so (o : option ast) : nat := match o with Some x => size x | None => 0 end in
      S match n with
        | NBin _ l r => size l + size r
        | NUn _ e => size e
        | NTuple es | NList es | NSet es | NBlock es => sl es
        | NIndex i r => size i + size r
        | NRange f t _ s | NSlice f t _ s => size f + size t + so s
        | NCall _ _ args => sl args
        | NProp i p => size i + size p
        | NAnonFun args b => sl args + size b
        | NExprType e _ => size e
        | NVarDef v _ e => size v + so e
        | NReassign l r _ => size l + size r
        | NFunDef i args _ b => size i + sl args + so b
        | NFunArg _ v _ d => size v + so d
        | NReturn e | NRaise e => size e
        | NIfElse c t e => size c + size t + so e
        | NMatch c cs | NHandle c cs => size c + sl cs
        | NCase c b | NWhile c b => size c + size b
        | NFor e c b => size e + size c + size b
        | NImport f i al => so f + sl i + sl al
        | NClass _ _ args ps b => sl args + sl ps + so b
        | NParent _ _ args => sl args
        | NTypeDef _ _ _ b _ => so b
        | NDict es =>
            (fix sp (l : list (ast * ast)) : nat :=
               match l with [] => 0 | kv :: r => size (fst kv) + size (snd kv) + sp r end) es
        | NListBuilder i cs | NSetBuilder i cs => size i + sl cs
        | NDictBuilder f t cs => size f + size t + sl cs
        | NWith r al b => size r + so al + size b
        | _ => 0
        end
  end.

Fixpoint sizes (l : list ast) : nat := match l with [] => 0 | x :: r => size x + sizes r end.
Definition sizeo (o : option ast) : nat := match o with Some x => size x | None => 0 end.
Fixpoint sizesp (l : list (ast * ast)) : nat :=
  match l with [] => 0 | kv :: r => size (fst kv) + size (snd kv) + sizesp r end.

Lemma size_unfold ty n :
  size (A ty n) =
  S match n with
    | NBin _ l r => size l + size r
    | NUn _ e => size e
    | NTuple es | NList es | NSet es | NBlock es => sizes es
    | NIndex i r => size i + size r
    | NRange f t _ s | NSlice f t _ s => size f + size t + sizeo s
    | NCall _ _ args => sizes args
    | NProp i p => size i + size p
    | NAnonFun args b => sizes args + size b
    | NExprType e _ => size e
    | NVarDef v _ e => size v + sizeo e
    | NReassign l r _ => size l + size r
    | NFunDef i args _ b => size i + sizes args + sizeo b
    | NFunArg _ v _ d => size v + sizeo d
    | NReturn e | NRaise e => size e
    | NIfElse c t e => size c + size t + sizeo e
    | NMatch c cs | NHandle c cs => size c + sizes cs
    | NCase c b | NWhile c b => size c + size b
    | NFor e c b => size e + size c + size b
    | NImport f i al => sizeo f + sizes i + sizes al
    | NClass _ _ args ps b => sizes args + sizes ps + sizeo b
    | NParent _ _ args => sizes args
    | NTypeDef _ _ _ b _ => sizeo b
    | NDict es => sizesp es
    | NListBuilder i cs | NSetBuilder i cs => size i + sizes cs
    | NDictBuilder f t cs => size f + size t + sizes cs
    | NWith r al b => size r + sizeo al + size b
    | _ => 0
    end.
Proof. destruct n; reflexivity. Qed.

Lemma sizesp_in kv l : In kv l -> size (fst kv) + size (snd kv) <= sizesp l.
Proof.
  induction l as [|y l IH]; [easy|]. intros [-> | H]; cbn [sizesp]; [lia|]. specialize (IH H). lia.
Qed.

Lemma sizes_in x l : In x l -> size x <= sizes l.
Proof.
  induction l as [|y l IH]; [easy|]. intros [-> | H]; cbn [sizes]; [lia|]. specialize (IH H). lia.
Qed.

(** ** Erasing annotations *)

Fixpoint erase (c : core) : core :=
  let el := map erase in
  let eo (o : option core) := match o with Some x => Some (erase x) | None => None end in
  match c with
  | Import f i a => Import (eo f) (el i) (el a)
  | ClassDef n p b => ClassDef (erase n) (el p) (erase b)
  | FunctionCall f a => FunctionCall (erase f) (el a)
  | PropertyCall o p => PropertyCall (erase o) (erase p)
  | ExpressionType e t => ExpressionType (erase e) (erase t)
  | Assign l r op => Assign (erase l) (erase r) op
  | VarDef v _ e => VarDef (erase v) None (eo e)
  | FunDefOp op a _ b => FunDefOp op (el a) None (erase b)
  | FunDef d i a _ b => FunDef d i (el a) None (erase b)
  | FunArg v x _ d => FunArg v (erase x) None (eo d)
  | AnonFun a b => AnonFun (el a) (erase b)
  | Block s => Block (el s)
  | Tuple e => Tuple (el e) | TupleLiteral e => TupleLiteral (el e)
  | DictComprehension f t cl cs => DictComprehension (erase f) (erase t) (erase cl) (el cs)
  | Comprehension e cl cs => Comprehension (erase e) (erase cl) (el cs)
  | Dictionary es => Dictionary (map (fun kv => (erase (fst kv), erase (snd kv))) es)
  | Set_ e => Set_ (el e) | List_ e => List_ (el e)
  | Index i r => Index (erase i) (erase r)
  | Bin o l r => Bin o (erase l) (erase r)
  | Un o e => Un o (erase e)
  | For e cl b => For (erase e) (erase cl) (erase b)
  | If cn t => If (erase cn) (erase t)
  | IfElse cn t e => IfElse (erase cn) (erase t) (erase e)
  | Match e cs => Match (erase e) (el cs)
  | Case e b => Case (erase e) (erase b)
  | Ternary cn t e => Ternary (erase cn) (erase t) (erase e)
  | KeyValue k v => KeyValue (erase k) (erase v)
  | While cn b => While (erase cn) (erase b)
  | TryExcept s a ex => TryExcept (eo s) (erase a) (el ex)
  | ExceptId i cl b => ExceptId (erase i) (erase cl) (erase b)
  | Except cl b => Except (erase cl) (erase b)
  | With r e => With (erase r) (erase e)
  | WithAs r a e => WithAs (erase r) (erase a) (erase e)
  | other => other
  end.

Definition erase_opt (o : option core) : option core :=
  match o with Some x => Some (erase x) | None => None end.

(** ** Relations between the two runs *)

(** imports: same plain imports, same from-imports outside [typing] *)
Definition nontyping {V} (m : list (string * V)) : list (string * V) :=
  filter (fun kv => negb (String.eqb (fst kv) "typing")) m.
Definition irel (i1 i0 : imports) : Prop :=
  imps i1 = imps i0 /\ other_from i1 = other_from i0.

Definition crel (c1 c0 : core) : Prop := erase c1 = erase c0.

(** states: equal except for [annotate]; assignment targets equal up to erasure *)
Definition arel (a1 a0 : option (core * option nm)) : Prop :=
  match a1, a0 with
  | Some (t1, n1), Some (t0, n0) => crel t1 t0 /\ n1 = n0
  | None, None => True
  | _, _ => False
  end.
Definition srel (s1 s0 : state) : Prop :=
  interface s1 = interface s0 /\ True /\ expand_ty s1 = expand_ty s0 /\ def_as_fun_arg s1 = def_as_fun_arg s0
  /\ tup_lit s1 = tup_lit s0 /\ last_ret s1 = last_ret s0 /\ remove_ret s1 = remove_ret s0
  /\ arel (assign_to s1) (assign_to s0).

Definition mrel {X} (R : X -> X -> Prop) (m1 m0 : M X) : Prop :=
  forall i1 i0, irel i1 i0 ->
    match m1 i1, m0 i0 with
    | Some (x1, j1), Some (x0, j0) => R x1 x0 /\ irel j1 j0
    | None, None => True
    | _, _ => False
    end.

Lemma mrel_ret {X} (R : X -> X -> Prop) x1 x0 : R x1 x0 -> mrel R (ret x1) (ret x0).
Proof. intros H i1 i0 Hi. cbn. split; assumption. Qed.

Lemma mrel_fail {X} (R : X -> X -> Prop) : mrel R fail fail.
Proof. intros i1 i0 Hi. exact I. Qed.

Lemma mrel_bind {X Y} (RX : X -> X -> Prop) (RY : Y -> Y -> Prop) m1 m0 k1 k0 :
  mrel RX m1 m0 -> (forall x1 x0, RX x1 x0 -> mrel RY (k1 x1) (k0 x0)) ->
  mrel RY (bind m1 k1) (bind m0 k0).
Proof.
  intros Hm Hk i1 i0 Hi. unfold bind. specialize (Hm i1 i0 Hi).
  destruct (m1 i1) as [[x1 j1]|], (m0 i0) as [[x0 j0]|]; try contradiction; [|exact I].
  destruct Hm as [Hx Hj]. apply (Hk x1 x0 Hx j1 j0 Hj).
Qed.

(** ** Imports touched only in [typing] are related to themselves *)

Lemma nontyping_insert_typing {V} (v : V) m :
  nontyping (map_insert "typing" v m) = nontyping m.
Proof.
  induction m as [|[k w] m IH]; cbn [map_insert nontyping filter fst]; [reflexivity|].
  destruct (String.eqb "typing" k) eqn:Hk.
  - apply String.eqb_eq in Hk. subst k. cbn [nontyping filter fst]. reflexivity.
  - destruct (str_ltb "typing" k).
    + cbn [filter fst]. rewrite String.eqb_refl. reflexivity.
    + cbn [filter fst]. fold (nontyping (map_insert "typing" v m)). rewrite IH. reflexivity.
Qed.

Lemma add_typing_irel_l name i1 i0 : irel i1 i0 -> irel (add_from_import "typing" name i1) i0.
Proof. intros [H1 H2]. unfold add_from_import. cbn. split; assumption. Qed.

Lemma add_from_irel from name i1 i0 : irel i1 i0 -> irel (add_from_import from name i1) (add_from_import from name i0).
Proof.
  intros [H1 H2]. unfold add_from_import. destruct (String.eqb from "typing"); cbn [imps other_from]; split;
    try assumption. rewrite H2. reflexivity.
Qed.

Lemma from_imps_nontyping i : nontyping (from_imps i) = nontyping (other_from i).
Proof. unfold from_imps. destruct (typing_imps i); [apply nontyping_insert_typing | reflexivity]. Qed.

Lemma irel_refl i : irel i i. Proof. split; reflexivity. Qed.
Lemma irel_sym i j : irel i j -> irel j i. Proof. intros [H1 H2]. split; symmetry; assumption. Qed.
Lemma irel_trans i j k : irel i j -> irel j k -> irel i k.
Proof. intros [H1 H2] [H3 H4]. split; etransitivity; eassumption. Qed.

Lemma add_typing_self name i : irel (add_from_import "typing" name i) i.
Proof. apply add_typing_irel_l, irel_refl. Qed.

(** ** Induction over names *)
Section nm_ind2.
  Variables (P : nm -> Prop) (Q : tn -> Prop).
  Hypothesis HNM : forall ms, Forall Q ms -> P (NM ms).
  Hypothesis HTN : forall b s gs, Forall P gs -> Q (TN b s gs).
  Fixpoint nm_ind2 (n : nm) : P n :=
    match n with
    | NM ms => HNM ms ((fix go (l : list tn) : Forall Q l :=
                          match l with
                          | [] => Forall_nil _
                          | t :: r => Forall_cons _ (tn_ind2 t) (go r)
                          end) ms)
    end
  with tn_ind2 (t : tn) : Q t :=
    match t with
    | TN b s gs => HTN b s gs ((fix go (l : list nm) : Forall P l :=
                                  match l with
                                  | [] => Forall_nil _
                                  | g :: r => Forall_cons _ (nm_ind2 g) (go r)
                                  end) gs)
    end.
End nm_ind2.

(** the two list renderers, named *)
Definition tns_to_py :=
  fix go (l : list tn) (i : imports) : list core * imports :=
    match l with
    | [] => ([], i)
    | t :: r => let '(c, i') := tn_to_py t i in let '(cs, i'') := go r i' in (c :: cs, i'')
    end.
Definition nms_to_py :=
  fix go (l : list nm) (i : imports) : list core * imports :=
    match l with
    | [] => ([], i)
    | g :: r => let '(c, i') := nm_to_py g i in let '(cs, i'') := go r i' in (c :: cs, i'')
    end.

Lemma nm_to_py_unfold ms i :
  nm_to_py (NM ms) i =
  match ms with
  | [] => (Empty, i)
  | [t] => tn_to_py t i
  | _ => let i1 := add_from_import "typing" n_union_py i in
         let '(gs, i2) := tns_to_py ms i1 in (Type_ n_union_py gs, i2)
  end.
Proof. destruct ms as [|t [|t2 r]]; reflexivity. Qed.

Lemma tn_to_py_unfold nullable name generics i :
  tn_to_py (TN nullable name generics) i =
  let variant (i : imports) : core * imports :=
    if String.eqb name n_tuple_m then
      let i1 := add_from_import "typing" n_tuple_py i in
      let '(gs, i2) := nms_to_py generics i1 in (Type_ n_tuple_py gs, i2)
    else if String.eqb name n_callable_m then
      let i1 := add_from_import "typing" n_callable_py i in
      match generics with
      | a :: r :: _ =>
          let '(ca, i2) := nm_to_py a i1 in let '(cr, i3) := nm_to_py r i2 in
          (Type_ n_callable_py [ca; cr], i3)
      | [a] => let '(ca, i2) := nm_to_py a i1 in (Type_ n_callable_py [ca; Empty], i2)
      | [] => (Type_ n_callable_py [Empty; Empty], i1)
      end
    else
      let i1 := if String.eqb name n_any_m then add_from_import "typing" n_any_py i else i in
      let '(gs, i2) := nms_to_py generics i1 in (Type_ (concrete_to_python name) gs, i2) in
  if nullable then
    let i1 := add_from_import "typing" "Optional" i in
    let '(c, i2) := variant i1 in (Type_ "Optional" [c], i2)
  else variant i.
Proof. reflexivity. Qed.

(** rendering a type only adds [typing] imports *)
Lemma tns_typing ts :
  Forall (fun t => forall i, irel (snd (tn_to_py t i)) i) ts ->
  forall i, irel (snd (tns_to_py ts i)) i.
Proof.
  induction 1 as [|t ts Ht _ IH]; intros i; [apply irel_refl|].
  cbn [tns_to_py]. fold tns_to_py. specialize (Ht i). destruct (tn_to_py t i) as [c i'].
  specialize (IH i'). destruct (tns_to_py ts i') as [cs i'']. cbn [snd] in *.
  eapply irel_trans; eassumption.
Qed.
Lemma nms_typing gs :
  Forall (fun g => forall i, irel (snd (nm_to_py g i)) i) gs ->
  forall i, irel (snd (nms_to_py gs i)) i.
Proof.
  induction 1 as [|g gs Hg _ IH]; intros i; [apply irel_refl|].
  cbn [nms_to_py]. fold nms_to_py. specialize (Hg i). destruct (nm_to_py g i) as [c i'].
  specialize (IH i'). destruct (nms_to_py gs i') as [cs i'']. cbn [snd] in *.
  eapply irel_trans; eassumption.
Qed.

Lemma nm_typing_only : forall n i, irel (snd (nm_to_py n i)) i.
Proof.
  apply (nm_ind2 (fun n => forall i, irel (snd (nm_to_py n i)) i)
                 (fun t => forall i, irel (snd (tn_to_py t i)) i)).
  - intros ms H i. rewrite nm_to_py_unfold. destruct ms as [|t [|t2 r]].
    + apply irel_refl.
    + inversion H; subst. auto.
    + cbv zeta. pose proof (tns_typing _ H (add_from_import "typing" n_union_py i)) as Hr.
      destruct (tns_to_py (t :: t2 :: r) _) as [gs i2]. cbn [snd] in *.
      eapply irel_trans; [exact Hr | apply add_typing_self].
  - intros b name gs H i. rewrite tn_to_py_unfold. cbv zeta.
    assert (Hv : forall j,
               irel (snd (if String.eqb name n_tuple_m then
                            let i1 := add_from_import "typing" n_tuple_py j in
                            let '(gs0, i2) := nms_to_py gs i1 in (Type_ n_tuple_py gs0, i2)
                          else if String.eqb name n_callable_m then
                            let i1 := add_from_import "typing" n_callable_py j in
                            match gs with
                            | a :: r :: _ =>
                                let '(ca, i2) := nm_to_py a i1 in let '(cr, i3) := nm_to_py r i2 in
                                (Type_ n_callable_py [ca; cr], i3)
                            | [a] => let '(ca, i2) := nm_to_py a i1 in (Type_ n_callable_py [ca; Empty], i2)
                            | [] => (Type_ n_callable_py [Empty; Empty], i1)
                            end
                          else
                            let i1 := if String.eqb name n_any_m
                                      then add_from_import "typing" n_any_py j else j in
                            let '(gs0, i2) := nms_to_py gs i1 in
                            (Type_ (concrete_to_python name) gs0, i2))) j).
    { intros j. destruct (String.eqb name n_tuple_m).
      - cbv zeta. pose proof (nms_typing _ H (add_from_import "typing" n_tuple_py j)) as Hr.
        destruct (nms_to_py gs _) as [g2 i2]. cbn [snd] in *.
        eapply irel_trans; [exact Hr | apply add_typing_self].
      - destruct (String.eqb name n_callable_m).
        + cbv zeta. set (j1 := add_from_import "typing" n_callable_py j).
          assert (Hj1 : irel j1 j) by apply add_typing_self.
          destruct gs as [|a [|r rest]].
          * exact Hj1.
          * inversion H as [|? ? Ha _]; subst. specialize (Ha j1). destruct (nm_to_py a j1) as [ca i2].
            cbn [snd] in *. eapply irel_trans; eassumption.
          * inversion H as [|? ? Ha Hrest]; subst. inversion Hrest as [|? ? Hr _]; subst.
            specialize (Ha j1). destruct (nm_to_py a j1) as [ca i2]. specialize (Hr i2).
            destruct (nm_to_py r i2) as [cr i3]. cbn [snd] in *.
            eapply irel_trans; [exact Hr|]. eapply irel_trans; eassumption.
        + cbv zeta. set (j1 := if String.eqb name n_any_m then _ else j).
          assert (Hj1 : irel j1 j) by (subst j1; destruct (String.eqb name n_any_m);
                                       [apply add_typing_self | apply irel_refl]).
          pose proof (nms_typing _ H j1) as Hr. destruct (nms_to_py gs j1) as [g2 i2]. cbn [snd] in *.
          eapply irel_trans; eassumption. }
    destruct b.
    + specialize (Hv (add_from_import "typing" "Optional" i)).
      match goal with |- context [let '(c, i2) := ?v in _] => destruct v as [c i2] end.
      cbn [snd] in *. eapply irel_trans; [exact Hv | apply add_typing_self].
    + apply Hv.
Qed.

(** the rendered type does not depend on the imports registered so far *)
Lemma tns_fst ts :
  Forall (fun t => forall i j, fst (tn_to_py t i) = fst (tn_to_py t j)) ts ->
  forall i j, fst (tns_to_py ts i) = fst (tns_to_py ts j).
Proof.
  induction 1 as [|t ts Ht _ IH]; intros i j; [reflexivity|].
  cbn [tns_to_py]. fold tns_to_py. specialize (Ht i j).
  destruct (tn_to_py t i) as [c i'], (tn_to_py t j) as [c' j']. cbn [fst] in Ht. subst c'.
  specialize (IH i' j'). destruct (tns_to_py ts i') as [cs i''], (tns_to_py ts j') as [cs' j''].
  cbn [fst] in *. subst. reflexivity.
Qed.
Lemma nms_fst gs :
  Forall (fun g => forall i j, fst (nm_to_py g i) = fst (nm_to_py g j)) gs ->
  forall i j, fst (nms_to_py gs i) = fst (nms_to_py gs j).
Proof.
  induction 1 as [|g gs Hg _ IH]; intros i j; [reflexivity|].
  cbn [nms_to_py]. fold nms_to_py. specialize (Hg i j).
  destruct (nm_to_py g i) as [c i'], (nm_to_py g j) as [c' j']. cbn [fst] in Hg. subst c'.
  specialize (IH i' j'). destruct (nms_to_py gs i') as [cs i''], (nms_to_py gs j') as [cs' j''].
  cbn [fst] in *. subst. reflexivity.
Qed.

Lemma nm_fst_indep : forall n i j, fst (nm_to_py n i) = fst (nm_to_py n j).
Proof.
  apply (nm_ind2 (fun n => forall i j, fst (nm_to_py n i) = fst (nm_to_py n j))
                 (fun t => forall i j, fst (tn_to_py t i) = fst (tn_to_py t j))).
  - intros ms H i j. rewrite !nm_to_py_unfold. destruct ms as [|t [|t2 r]].
    + reflexivity.
    + inversion H; subst. auto.
    + cbv zeta. pose proof (tns_fst _ H (add_from_import "typing" n_union_py i)
                                      (add_from_import "typing" n_union_py j)) as Hr.
      destruct (tns_to_py (t :: t2 :: r) _) as [gs i2], (tns_to_py (t :: t2 :: r) _) as [gs' j2].
      cbn [fst] in *. subst. reflexivity.
  - intros b name gs H i j. rewrite !tn_to_py_unfold. cbv zeta.
    assert (Hv : forall i j,
      fst (if String.eqb name n_tuple_m then
             let i1 := add_from_import "typing" n_tuple_py i in
             let '(gs0, i2) := nms_to_py gs i1 in (Type_ n_tuple_py gs0, i2)
           else if String.eqb name n_callable_m then
             let i1 := add_from_import "typing" n_callable_py i in
             match gs with
             | a :: r :: _ =>
                 let '(ca, i2) := nm_to_py a i1 in let '(cr, i3) := nm_to_py r i2 in
                 (Type_ n_callable_py [ca; cr], i3)
             | [a] => let '(ca, i2) := nm_to_py a i1 in (Type_ n_callable_py [ca; Empty], i2)
             | [] => (Type_ n_callable_py [Empty; Empty], i1)
             end
           else
             let i1 := if String.eqb name n_any_m then add_from_import "typing" n_any_py i else i in
             let '(gs0, i2) := nms_to_py gs i1 in (Type_ (concrete_to_python name) gs0, i2))
      = fst (if String.eqb name n_tuple_m then
             let i1 := add_from_import "typing" n_tuple_py j in
             let '(gs0, i2) := nms_to_py gs i1 in (Type_ n_tuple_py gs0, i2)
           else if String.eqb name n_callable_m then
             let i1 := add_from_import "typing" n_callable_py j in
             match gs with
             | a :: r :: _ =>
                 let '(ca, i2) := nm_to_py a i1 in let '(cr, i3) := nm_to_py r i2 in
                 (Type_ n_callable_py [ca; cr], i3)
             | [a] => let '(ca, i2) := nm_to_py a i1 in (Type_ n_callable_py [ca; Empty], i2)
             | [] => (Type_ n_callable_py [Empty; Empty], i1)
             end
           else
             let i1 := if String.eqb name n_any_m then add_from_import "typing" n_any_py j else j in
             let '(gs0, i2) := nms_to_py gs i1 in (Type_ (concrete_to_python name) gs0, i2))).
    { intros i' j'. destruct (String.eqb name n_tuple_m).
      - cbv zeta. pose proof (nms_fst _ H (add_from_import "typing" n_tuple_py i')
                                        (add_from_import "typing" n_tuple_py j')) as Hr.
        destruct (nms_to_py gs _) as [g2 i2], (nms_to_py gs _) as [g2' j2]. cbn [fst] in *. subst. reflexivity.
      - destruct (String.eqb name n_callable_m).
        + cbv zeta. set (i1 := add_from_import "typing" n_callable_py i').
          set (j1 := add_from_import "typing" n_callable_py j').
          destruct gs as [|a [|r rest]].
          * reflexivity.
          * inversion H as [|? ? Ha _]; subst. specialize (Ha i1 j1).
            destruct (nm_to_py a i1) as [ca i2], (nm_to_py a j1) as [ca' j2]. cbn [fst] in *. subst. reflexivity.
          * inversion H as [|? ? Ha Hrest]; subst. inversion Hrest as [|? ? Hr _]; subst.
            specialize (Ha i1 j1). destruct (nm_to_py a i1) as [ca i2], (nm_to_py a j1) as [ca' j2].
            specialize (Hr i2 j2). destruct (nm_to_py r i2) as [cr i3], (nm_to_py r j2) as [cr' j3].
            cbn [fst] in *. subst. reflexivity.
        + cbv zeta.
          pose proof (nms_fst _ H (if String.eqb name n_any_m then add_from_import "typing" n_any_py i' else i')
                                  (if String.eqb name n_any_m then add_from_import "typing" n_any_py j' else j')) as Hr.
          destruct (nms_to_py gs _) as [g2 i2], (nms_to_py gs _) as [g2' j2]. cbn [fst] in *. subst. reflexivity. }
    destruct b.
    + specialize (Hv (add_from_import "typing" "Optional" i) (add_from_import "typing" "Optional" j)).
      match goal with |- fst (let '(c, i2) := ?v in _) = fst (let '(c', j2) := ?w in _) =>
        destruct v as [c i2], w as [c' j2] end.
      cbn [fst] in *. subst. reflexivity.
    + apply Hv.
Qed.

Lemma tn_fst_indep : forall t i j, fst (tn_to_py t i) = fst (tn_to_py t j).
Proof.
  intros t i j. pose proof (nm_fst_indep (NM [t]) i j) as H. rewrite !nm_to_py_unfold in H. exact H.
Qed.
Lemma tn_typing_only : forall t i, irel (snd (tn_to_py t i)) i.
Proof.
  intros t i. pose proof (nm_typing_only (NM [t]) i) as H. rewrite nm_to_py_unfold in H. exact H.
Qed.

(** ** [erase] and the return / assignment insertion *)

Fixpoint csize (c : core) : nat :=
  S match c with
    | Block l | Match _ l => fold_right (fun x n => csize x + n) 0 l
    | IfElse _ t e => csize t + csize e
    | Case _ b | ExceptId _ _ b | Except _ b => csize b
    | TryExcept _ a ex => csize a + fold_right (fun x n => csize x + n) 0 ex
    | _ => 0
    end.
Definition csizes (l : list core) : nat := fold_right (fun x n => csize x + n) 0 l.

Lemma csizes_in x l : In x l -> csize x <= csizes l.
Proof.
  induction l as [|y l IH]; [easy|]. intros [-> | H]; cbn [csizes fold_right]; [lia|].
  specialize (IH H). unfold csizes in IH. lia.
Qed.

Lemma skip_return_erase c : skip_return (erase c) = skip_return c.
Proof. destruct c; reflexivity. Qed.
Lemma skip_assign_erase c : skip_assign (erase c) = skip_assign c.
Proof. unfold skip_assign. rewrite skip_return_erase. destruct c; reflexivity. Qed.

Lemma replace_last_ext {X} (f g : X -> X) l :
  (forall x, In x l -> f x = g x) -> replace_last f l = replace_last g l.
Proof.
  induction l as [|x l IH]; intros H; [reflexivity|]. cbn [replace_last]. destruct l as [|y l].
  - rewrite H by (left; reflexivity). reflexivity.
  - rewrite IH by (intros z Hz; apply H; right; exact Hz). reflexivity.
Qed.
Lemma map_replace_last {X} (h f g : X -> X) l :
  (forall x, In x l -> h (f x) = g (h x)) -> map h (replace_last f l) = replace_last g (map h l).
Proof.
  induction l as [|x l IH]; intros H; [reflexivity|]. cbn [replace_last map]. destruct l as [|y l].
  - cbn [map]. rewrite H by (left; reflexivity). reflexivity.
  - cbn [map] in *. rewrite IH by (intros z Hz; apply H; right; exact Hz). reflexivity.
Qed.

Lemma append_ret_block x l : append_ret (Block (x :: l)) = Block (replace_last append_ret (x :: l)).
Proof. reflexivity. Qed.

Lemma erase_append_ret_n n : forall c, csize c <= n -> erase (append_ret c) = append_ret (erase c).
Proof.
  induction n as [|n IH]; intros c Hn; [destruct c; cbn in Hn; lia|].
  assert (Hl : forall l, csizes l <= n -> forall y, In y l -> erase (append_ret y) = append_ret (erase y)).
  { intros l Hs y Hy. apply IH. pose proof (csizes_in y l Hy). lia. }
  destruct c; try reflexivity; try (match goal with o : cun |- _ => destruct o; reflexivity end);
    cbn [csize] in Hn; fold (csizes) in Hn.
  - (* Block *)
    match goal with |- context [Block ?l] => destruct l as [|x l'] end; [reflexivity|].
    rewrite append_ret_block. cbn [erase map]. rewrite append_ret_block. f_equal.
    change (erase x :: map erase l') with (map erase (x :: l')).
    apply map_replace_last. apply Hl. unfold csizes. cbn [fold_right] in *. lia.
  - (* IfElse *) cbn [append_ret erase]. rewrite !IH by lia. reflexivity.
  - (* Match *) cbn [append_ret erase]. f_equal. rewrite !map_map. apply map_ext_in. apply Hl. unfold csizes. lia.
  - (* Case *) cbn [append_ret erase]. rewrite IH by lia. reflexivity.
  - (* TryExcept *) cbn [append_ret erase]. rewrite IH by lia. f_equal.
    rewrite !map_map. apply map_ext_in. apply Hl. unfold csizes. lia.
  - cbn [append_ret erase]. rewrite IH by lia. reflexivity.
  - cbn [append_ret erase]. rewrite IH by lia. reflexivity.
Qed.

Lemma erase_append_ret c : erase (append_ret c) = append_ret (erase c).
Proof. apply (erase_append_ret_n (csize c)). lia. Qed.

(** assignment insertion, on erased terms *)
Fixpoint aa (t c : core) : core :=
  match c with
  | Block [] => c
  | Block sts => Block (replace_last (aa t) sts)
  | IfElse cond th e => IfElse cond (aa t th) (aa t e)
  | Match e cs => Match e (map (aa t) cs)
  | Case e b => Case e (aa t b)
  | TryExcept s a ex => TryExcept s (aa t a) (map (aa t) ex)
  | ExceptId id cl b => ExceptId id cl (aa t b)
  | Except cl b => Except cl (aa t b)
  | other => if skip_assign other then other else VarDef t None (Some other)
  end.

Lemma smap_erase {S} (f : core -> S -> core * S) (g : core -> core) l :
  (forall y, In y l -> forall s, erase (fst (f y s)) = g (erase y)) ->
  forall s, map erase (fst (smap f l s)) = map g (map erase l).
Proof.
  induction l as [|x l IH]; intros H s; [reflexivity|]. cbn [smap].
  pose proof (H x (or_introl eq_refl) s) as Hx. destruct (f x s) as [y s1].
  specialize (IH (fun z Hz => H z (or_intror Hz)) s1). destruct (smap f l s1) as [ys s2].
  cbn [fst map] in *. rewrite Hx, IH. reflexivity.
Qed.
Lemma smap_last_erase {S} (f : core -> S -> core * S) (g : core -> core) l :
  (forall y, In y l -> forall s, erase (fst (f y s)) = g (erase y)) ->
  forall s, map erase (fst (smap_last f l s)) = replace_last g (map erase l).
Proof.
  induction l as [|x l IH]; intros H s; [reflexivity|]. cbn [smap_last]. destruct l as [|x2 l].
  - pose proof (H x (or_introl eq_refl) s) as Hx. destruct (f x s) as [y s1]. cbn [fst map replace_last] in *.
    rewrite Hx. reflexivity.
  - specialize (IH (fun z Hz => H z (or_intror Hz)) s). destruct (smap_last f (x2 :: l) s) as [ys s1].
    cbn [fst map] in *. cbn [replace_last]. cbn [map] in IH. rewrite IH. reflexivity.
Qed.
Lemma smap_irel (f : core -> imports -> core * imports) l :
  (forall y, In y l -> forall s, irel (snd (f y s)) s) -> forall s, irel (snd (smap f l s)) s.
Proof.
  induction l as [|x l IH]; intros H s; [apply irel_refl|]. cbn [smap].
  pose proof (H x (or_introl eq_refl) s) as Hx. destruct (f x s) as [y s1].
  specialize (IH (fun z Hz => H z (or_intror Hz)) s1). destruct (smap f l s1) as [ys s2].
  cbn [snd] in *. eapply irel_trans; eassumption.
Qed.
Lemma smap_last_irel (f : core -> imports -> core * imports) l :
  (forall y, In y l -> forall s, irel (snd (f y s)) s) -> forall s, irel (snd (smap_last f l s)) s.
Proof.
  induction l as [|x l IH]; intros H s; [apply irel_refl|]. cbn [smap_last]. destruct l as [|x2 l].
  - pose proof (H x (or_introl eq_refl) s) as Hx. destruct (f x s) as [y s1]. exact Hx.
  - specialize (IH (fun z Hz => H z (or_intror Hz)) s). destruct (smap_last f (x2 :: l) s) as [ys s1]. exact IH.
Qed.

Lemma assign_leaf_spec t n c i :
  erase (fst (assign_leaf t n c i)) = (if skip_assign (erase c) then erase c else VarDef (erase t) None (Some (erase c)))
  /\ irel (snd (assign_leaf t n c i)) i.
Proof.
  unfold assign_leaf. rewrite skip_assign_erase. destruct (skip_assign c); [split; [reflexivity | apply irel_refl]|].
  destruct n as [n|]; [|split; [reflexivity | apply irel_refl]].
  pose proof (nm_typing_only n i) as H. destruct (nm_to_py n i) as [ty i']. split; [reflexivity | exact H].
Qed.

Lemma append_assign_block t n x l i :
  append_assign t n (Block (x :: l)) i =
  let '(sts', i') := smap_last (append_assign t n) (x :: l) i in (Block sts', i').
Proof. reflexivity. Qed.
Lemma aa_block t x l : aa t (Block (x :: l)) = Block (replace_last (aa t) (x :: l)).
Proof. reflexivity. Qed.

Lemma append_assign_spec_n k : forall t n c i, csize c <= k ->
  erase (fst (append_assign t n c i)) = aa (erase t) (erase c) /\ irel (snd (append_assign t n c i)) i.
Proof.
  induction k as [|k IH]; intros t n c i Hk; [destruct c; cbn in Hk; lia|].
  assert (Hl : forall l, csizes l <= k -> forall y, In y l -> forall s,
             erase (fst (append_assign t n y s)) = aa (erase t) (erase y)
             /\ irel (snd (append_assign t n y s)) s).
  { intros l Hs y Hy s. apply IH. pose proof (csizes_in y l Hy). lia. }
  destruct c;
    try (match goal with |- context [append_assign t n ?c i] =>
           change (append_assign t n c i) with (assign_leaf t n c i);
           destruct (assign_leaf_spec t n c i) as [H1 H2]
         end; split; [rewrite H1; reflexivity | exact H2]);
    cbn [csize] in Hk; fold (csizes) in Hk.
  - (* Block *)
    match goal with |- context [Block ?l] => destruct l as [|x l'] end;
      [split; [reflexivity | apply irel_refl]|].
    rewrite append_assign_block. cbn [erase map]. rewrite aa_block.
    assert (Hs : csizes (x :: l') <= k) by (unfold csizes; cbn [fold_right] in *; lia).
    pose proof (smap_last_erase (append_assign t n) (aa (erase t)) (x :: l')
                  (fun y Hy s => proj1 (Hl _ Hs y Hy s)) i) as He.
    pose proof (smap_last_irel (append_assign t n) (x :: l') (fun y Hy s => proj2 (Hl _ Hs y Hy s)) i) as Hi.
    destruct (smap_last (append_assign t n) (x :: l') i) as [sts' i']. cbn [fst snd erase] in *.
    split; [f_equal; exact He | exact Hi].
  - (* IfElse *)
    cbn [append_assign]. destruct (IH t n c2 i ltac:(lia)) as [E1 I1].
    destruct (append_assign t n c2 i) as [t' i1]. destruct (IH t n c3 i1 ltac:(lia)) as [E2 I2].
    destruct (append_assign t n c3 i1) as [e' i2]. cbn [fst snd erase aa] in *. split.
    + rewrite E1, E2. reflexivity.
    + eapply irel_trans; eassumption.
  - (* Match *)
    cbn [append_assign].
    assert (Hs : csizes cases <= k) by (unfold csizes; lia).
    pose proof (smap_erase (append_assign t n) (aa (erase t)) cases (fun y Hy s => proj1 (Hl _ Hs y Hy s)) i) as He.
    pose proof (smap_irel (append_assign t n) cases (fun y Hy s => proj2 (Hl _ Hs y Hy s)) i) as Hi.
    destruct (smap (append_assign t n) cases i) as [cs i']. cbn [fst snd erase aa] in *.
    split; [rewrite He; reflexivity | exact Hi].
  - (* Case *)
    cbn [append_assign]. destruct (IH t n c2 i ltac:(lia)) as [E1 I1].
    destruct (append_assign t n c2 i) as [b' i1]. cbn [fst snd erase aa] in *. split; [rewrite E1; reflexivity | exact I1].
  - (* TryExcept *)
    cbn [append_assign]. destruct (IH t n c i ltac:(lia)) as [E1 I1].
    destruct (append_assign t n c i) as [a' i1].
    assert (Hs : csizes except <= k) by (unfold csizes; lia).
    pose proof (smap_erase (append_assign t n) (aa (erase t)) except (fun y Hy s => proj1 (Hl _ Hs y Hy s)) i1) as He.
    pose proof (smap_irel (append_assign t n) except (fun y Hy s => proj2 (Hl _ Hs y Hy s)) i1) as Hi.
    destruct (smap (append_assign t n) except i1) as [ex' i2]. cbn [fst snd erase aa] in *. split.
    + rewrite E1, He. reflexivity.
    + eapply irel_trans; eassumption.
  - cbn [append_assign]. destruct (IH t n c3 i ltac:(lia)) as [E1 I1].
    destruct (append_assign t n c3 i) as [b' i1]. cbn [fst snd erase aa] in *. split; [rewrite E1; reflexivity | exact I1].
  - cbn [append_assign]. destruct (IH t n c2 i ltac:(lia)) as [E1 I1].
    destruct (append_assign t n c2 i) as [b' i1]. cbn [fst snd erase aa] in *. split; [rewrite E1; reflexivity | exact I1].
Qed.

Lemma append_assign_spec t n c i :
  erase (fst (append_assign t n c i)) = aa (erase t) (erase c) /\ irel (snd (append_assign t n c i)) i.
Proof. apply (append_assign_spec_n (csize c)). lia. Qed.

(** ** Relating the two runs of [conv] *)

Lemma crel_refl c : crel c c. Proof. reflexivity. Qed.

Lemma map_erase_F2 l1 l0 : Forall2 crel l1 l0 -> map erase l1 = map erase l0.
Proof. induction 1 as [|x y l1 l0 H _ IH]; [reflexivity|]. cbn [map]. rewrite H, IH. reflexivity. Qed.

Definition orel (o1 o0 : option core) : Prop := erase_opt o1 = erase_opt o0.

Lemma mrel_mmap (f1 f0 : ast -> M core) l :
  (forall x, In x l -> mrel crel (f1 x) (f0 x)) -> mrel (Forall2 crel) (mmap f1 l) (mmap f0 l).
Proof.
  induction l as [|x l IH]; intros H; cbn [mmap].
  - apply mrel_ret. constructor.
  - eapply mrel_bind; [apply H; left; reflexivity|]. intros c1 c0 Hc.
    eapply mrel_bind; [apply IH; intros y Hy; apply H; right; exact Hy|]. intros cs1 cs0 Hcs.
    apply mrel_ret. constructor; assumption.
Qed.

Lemma mrel_mfiltermap (g1 g0 : ast -> M (option core)) l :
  (forall x, In x l -> mrel orel (g1 x) (g0 x)) -> mrel (Forall2 crel) (mfiltermap g1 l) (mfiltermap g0 l).
Proof.
  induction l as [|x l IH]; intros H; cbn [mfiltermap].
  - apply mrel_ret. constructor.
  - eapply mrel_bind; [apply H; left; reflexivity|]. intros c1 c0 Hc.
    eapply mrel_bind; [apply IH; intros y Hy; apply H; right; exact Hy|]. intros cs1 cs0 Hcs.
    apply mrel_ret. unfold orel in Hc. destruct c1, c0; cbn in Hc; try discriminate; [|exact Hcs].
    constructor; [unfold crel; congruence | exact Hcs].
Qed.

Lemma mrel_mopt (f1 f0 : ast -> M core) o :
  (forall x, o = Some x -> mrel crel (f1 x) (f0 x)) -> mrel orel (mopt f1 o) (mopt f0 o).
Proof.
  destruct o as [x|]; intros H; cbn [mopt].
  - eapply mrel_bind; [apply H; reflexivity|]. intros c1 c0 Hc. apply mrel_ret. unfold orel. cbn. rewrite Hc. reflexivity.
  - apply mrel_ret. reflexivity.
Qed.

(** rendering a type gives the same core on both sides *)
Lemma mrel_nm n : mrel eq (lift (nm_to_py n)) (lift (nm_to_py n)).
Proof.
  intros i1 i0 Hi. unfold lift. pose proof (nm_fst_indep n i1 i0) as Hf.
  pose proof (nm_typing_only n i1) as H1. pose proof (nm_typing_only n i0) as H0.
  destruct (nm_to_py n i1) as [c1 j1], (nm_to_py n i0) as [c0 j0]. cbn [fst snd] in *. split; [exact Hf|].
  eapply irel_trans; [exact H1|]. eapply irel_trans; [exact Hi|]. apply irel_sym, H0.
Qed.
Lemma mrel_tn t : mrel eq (lift (tn_to_py t)) (lift (tn_to_py t)).
Proof.
  intros i1 i0 Hi. unfold lift. pose proof (tn_fst_indep t i1 i0) as Hf.
  pose proof (tn_typing_only t i1) as H1. pose proof (tn_typing_only t i0) as H0.
  destruct (tn_to_py t i1) as [c1 j1], (tn_to_py t i0) as [c0 j0]. cbn [fst snd] in *. split; [exact Hf|].
  eapply irel_trans; [exact H1|]. eapply irel_trans; [exact Hi|]. apply irel_sym, H0.
Qed.
Lemma mrel_opt_nm o : mrel eq (opt_nm_to_py o) (opt_nm_to_py o).
Proof.
  destruct o as [n|]; cbn [opt_nm_to_py]; [|apply mrel_ret; reflexivity].
  intros i1 i0 Hi. pose proof (mrel_nm n i1 i0 Hi) as H. unfold lift in *.
  destruct (nm_to_py n i1) as [c1 j1], (nm_to_py n i0) as [c0 j0]. destruct H as [-> Hj]. split; [reflexivity | exact Hj].
Qed.

(** an annotation rendered on one side only, or on both: anything goes for the value *)
Definition anyrel {X} (_ _ : X) : Prop := True.
Lemma opt_nm_keeps o i : match opt_nm_to_py o i with Some (_, j) => irel j i | None => False end.
Proof.
  destruct o as [n|]; cbn [opt_nm_to_py]; [|cbn; apply irel_refl]. unfold lift.
  pose proof (nm_typing_only n i) as H. destruct (nm_to_py n i). exact H.
Qed.
Lemma mrel_ann (b1 b0 : bool) (m : M (option core)) :
  (forall i, match m i with Some (_, j) => irel j i | None => False end) ->
  mrel anyrel (if b1 then m else ret None) (if b0 then m else ret None).
Proof.
  intros Hm i1 i0 Hi. pose proof (Hm i1) as H1. pose proof (Hm i0) as H0.
  destruct b1, b0; cbn [ret]; try (split; [exact I | exact Hi]).
  - destruct (m i1) as [[x1 j1]|], (m i0) as [[x0 j0]|]; try contradiction. split; [exact I|].
    eapply irel_trans; [exact H1|]. eapply irel_trans; [exact Hi|]. apply irel_sym, H0.
  - destruct (m i1) as [[x1 j1]|]; try contradiction. split; [exact I|]. eapply irel_trans; eassumption.
  - destruct (m i0) as [[x0 j0]|]; try contradiction. split; [exact I|].
    eapply irel_trans; [exact Hi|]. apply irel_sym, H0.
Qed.

Lemma mrel_touch f :
  (forall i1 i0, irel i1 i0 -> irel (f i1) (f i0)) -> mrel (fun _ _ => True) (touch f) (touch f).
Proof. intros H i1 i0 Hi. cbn. split; [exact I | apply H, Hi]. Qed.

Lemma add_import_irel name i1 i0 : irel i1 i0 -> irel (add_import name i1) (add_import name i0).
Proof.
  intros [H1 H2]. unfold add_import. rewrite H1. destruct (existsb _ (imps i0)); split; cbn [imps other_from]; congruence.
Qed.


(** ** State bookkeeping *)

Lemma srel_clear s1 s0 :
  srel s1 s0 -> srel (with_last_ret (with_assign s1 None) false) (with_last_ret (with_assign s0 None) false).
Proof. unfold srel. cbn. intuition. Qed.
Lemma srel_expand s1 s0 b : srel s1 s0 -> srel (with_expand s1 b) (with_expand s0 b).
Proof. unfold srel. cbn. intuition. Qed.
Lemma srel_tup_lit s1 s0 : srel s1 s0 -> srel (with_tup_lit s1) (with_tup_lit s0).
Proof. unfold srel. cbn. intuition. Qed.
Lemma srel_last_ret s1 s0 b : srel s1 s0 -> srel (with_last_ret s1 b) (with_last_ret s0 b).
Proof. unfold srel. cbn. intuition. Qed.
Lemma srel_remove_ret s1 s0 b : srel s1 s0 -> srel (with_remove_ret s1 b) (with_remove_ret s0 b).
Proof. unfold srel. cbn. intuition. Qed.
Lemma srel_assign s1 s0 a1 a0 : srel s1 s0 -> arel a1 a0 -> srel (with_assign s1 a1) (with_assign s0 a0).
Proof. unfold srel. cbn. intuition. Qed.
Lemma srel_interface s1 s0 b : srel s1 s0 -> srel (with_interface s1 b) (with_interface s0 b).
Proof. unfold srel. cbn. intuition. Qed.
Lemma srel_def_as_fun_arg s1 s0 b : srel s1 s0 -> srel (with_def_as_fun_arg s1 b) (with_def_as_fun_arg s0 b).
Proof. unfold srel. cbn. intuition. Qed.
Lemma srel_assign_none s1 s0 : srel s1 s0 -> srel (with_assign s1 None) (with_assign s0 None).
Proof. intros H. apply srel_assign; [exact H | exact I]. Qed.

Definition post (st : state) (c : core) : M core :=
  c1 <- (match assign_to st with
         | Some (target, name) => lift (append_assign target name c)
         | None => ret c
         end) ;;
  ret (if last_ret st then append_ret c1 else c1).

Lemma post_rel st1 st0 r1 r0 :
  srel st1 st0 -> mrel crel r1 r0 -> mrel crel (bind r1 (post st1)) (bind r0 (post st0)).
Proof.
  intros Hs Hr. eapply mrel_bind; [exact Hr|]. intros c1 c0 Hc. unfold post.
  destruct Hs as (_ & _ & _ & _ & _ & Hlast & _ & Ha).
  eapply mrel_bind with (RX := crel).
  - unfold arel in Ha. destruct (assign_to st1) as [[t1 n1]|], (assign_to st0) as [[t0 n0]|]; try contradiction.
    + destruct Ha as [Ht ->]. intros i1 i0 Hi. unfold lift.
      destruct (append_assign_spec t1 n0 c1 i1) as [E1 I1]. destruct (append_assign_spec t0 n0 c0 i0) as [E0 I0].
      destruct (append_assign t1 n0 c1 i1) as [x1 j1], (append_assign t0 n0 c0 i0) as [x0 j0].
      cbn [fst snd] in *. split.
      * unfold crel in *. rewrite E1, E0, Ht, Hc. reflexivity.
      * eapply irel_trans; [exact I1|]. eapply irel_trans; [exact Hi|]. apply irel_sym, I0.
    + apply mrel_ret, Hc.
  - intros x1 x0 Hx. apply mrel_ret. rewrite Hlast. destruct (last_ret st0); [|exact Hx].
    unfold crel in *. rewrite !erase_append_ret, Hx. reflexivity.
Qed.

Ltac crel_solve :=
  unfold crel, orel, erase_opt in *; cbn [erase];
  repeat match goal with H : Forall2 crel _ _ |- _ => apply map_erase_F2 in H end;
  congruence.

(** ** Class assembly commutes with erasure *)

Definition eentry (e : entry) : entry := (erase (fst e), (fst (snd e), erase (snd (snd e)))).
Definition evalue (v : (nat * nat) * core) : (nat * nat) * core := (fst v, erase (snd v)).

Lemma key_eqb_erase a b : key_eqb (erase a) (erase b) = key_eqb a b.
Proof. destruct a; try reflexivity. destruct b; reflexivity. Qed.
Lemma shallow_eqb_erase a b : core_eqb_shallow (erase a) (erase b) = core_eqb_shallow a b.
Proof. destruct a; try reflexivity. destruct b; reflexivity. Qed.

Lemma stmt_entry_erase i s : stmt_entry i (erase s) = eentry (stmt_entry i s).
Proof. destruct s; reflexivity. Qed.

Lemma hm_insert_erase k v m :
  hm_insert (erase k) (evalue v) (map eentry m) = map eentry (hm_insert k v m).
Proof.
  induction m as [|[k' v'] m IH]; [reflexivity|]. cbn [map hm_insert eentry fst snd].
  rewrite key_eqb_erase. destruct (key_eqb k k'); [reflexivity|]. cbn [map]. rewrite IH. reflexivity.
Qed.

Lemma hm_get_erase k m :
  hm_get (erase k) (map eentry m) = option_map evalue (hm_get k m).
Proof.
  induction m as [|[k' v'] m IH]; [reflexivity|]. cbn [map hm_get eentry fst snd].
  rewrite key_eqb_erase. destruct (key_eqb k k'); [reflexivity | exact IH].
Qed.

Lemma body_entries_erase stmts : forall i m,
  body_entries i (map erase stmts) (map eentry m) = map eentry (body_entries i stmts m).
Proof.
  induction stmts as [|s r IH]; intros i m; [reflexivity|]. cbn [map body_entries].
  rewrite stmt_entry_erase. destruct (stmt_entry i s) as [k v]. unfold eentry at 1. cbn [fst snd].
  change (fst v, erase (snd v)) with (evalue v). rewrite hm_insert_erase. apply IH.
Qed.

Lemma insert_by_pos_erase e l :
  insert_by_pos (evalue e) (map evalue l) = map evalue (insert_by_pos e l).
Proof.
  induction l as [|x l IH]; [reflexivity|]. cbn [map insert_by_pos evalue fst].
  destruct (pos_ltb (fst e) (fst x)); [reflexivity|]. cbn [map]. rewrite <- IH. reflexivity.
Qed.
Lemma sort_by_pos_erase l : sort_by_pos (map evalue l) = map evalue (sort_by_pos l).
Proof.
  induction l as [|x l IH]; [reflexivity|]. unfold sort_by_pos in *. cbn [map fold_right].
  rewrite IH. apply insert_by_pos_erase.
Qed.

Lemma parent_init_erase p :
  parent_init (erase p) = (erase (fst (parent_init p)), map erase (snd (parent_init p))).
Proof.
  destruct p; try reflexivity.
  match goal with |- context [FunctionCall ?f _] => destruct f; reflexivity end.
Qed.

Lemma parent_name_erase p : parent_name (erase p) = erase_opt (parent_name p).
Proof.
  destruct p; try reflexivity.
  match goal with |- context [FunctionCall ?f _] => destruct f; reflexivity end.
Qed.

Lemma flat_map_vars_erase args :
  flat_map (fun a => match a with FunArg _ var _ _ => [var] | _ => [] end) (map erase args)
  = map erase (flat_map (fun a => match a with FunArg _ var _ _ => [var] | _ => [] end) args).
Proof.
  induction args as [|a r IH]; [reflexivity|]. cbn [map flat_map]. rewrite IH, map_app. f_equal.
  destruct a; reflexivity.
Qed.

Lemma existsb_shallow_erase v pa :
  existsb (core_eqb_shallow (erase v)) (map erase pa) = existsb (core_eqb_shallow v) pa.
Proof.
  induction pa as [|x pa IH]; [reflexivity|]. cbn [map existsb]. rewrite shallow_eqb_erase, IH. reflexivity.
Qed.

Lemma existsb2_shallow_erase v pas :
  existsb (fun pa => existsb (core_eqb_shallow (erase v)) pa) (map (map erase) pas)
  = existsb (fun pa => existsb (core_eqb_shallow v) pa) pas.
Proof.
  induction pas as [|pa pas IHp]; [reflexivity|]. cbn [map existsb]. rewrite existsb_shallow_erase, IHp. reflexivity.
Qed.

Lemma filter_fresh_erase vars pas :
  filter (fun v => negb (existsb (fun pa => existsb (core_eqb_shallow v) pa) (map (map erase) pas))) (map erase vars)
  = map erase (filter (fun v => negb (existsb (fun pa => existsb (core_eqb_shallow v) pa) pas)) vars).
Proof.
  induction vars as [|v r IH]; [reflexivity|]. cbn [map filter]. rewrite existsb2_shallow_erase.
  destruct (existsb _ pas); cbn [negb]; [exact IH|]. cbn [map]. rewrite IH. reflexivity.
Qed.

Lemma block_stmts_erase b : block_stmts (erase b) = map erase (block_stmts b).
Proof. destruct b; reflexivity. Qed.

Lemma class_init_erase old args ps :
  class_init (erase_opt old) (map erase args) (map erase ps) = erase_opt (class_init old args ps).
Proof.
  unfold class_init.
  assert (Hpis : map parent_init (map erase ps)
                 = map (fun p => (erase (fst p), map erase (snd p))) (map parent_init ps)).
  { rewrite !map_map. apply map_ext. intros p. apply parent_init_erase. }
  rewrite Hpis. rewrite !map_map. cbn [fst snd].
  set (pinits := map (fun x => fst (parent_init x)) ps).
  set (pargs := map (fun x => snd (parent_init x)) ps).
  change (map (fun x => erase (fst (parent_init x))) ps) with (map (fun x => erase (fst (parent_init x))) ps).
  assert (E1 : map (fun x => erase (fst (parent_init x))) ps = map erase pinits)
    by (subst pinits; rewrite map_map; reflexivity).
  assert (E2 : map (fun x => map erase (snd (parent_init x))) ps = map (map erase) pargs)
    by (subst pargs; rewrite map_map; reflexivity).
  rewrite E1, E2. rewrite flat_map_vars_erase, filter_fresh_erase.
  set (fresh := filter _ (flat_map _ args)).
  assert (Hassign : map (fun v => Assign (PropertyCall (Id n_self_) v) v OpAssign) (map erase fresh)
                    = map erase (map (fun v => Assign (PropertyCall (Id n_self_) v) v OpAssign) fresh))
    by (rewrite !map_map; reflexivity).
  rewrite Hassign.
  assert (Hfin : forall a sts,
     (let first_is_self := match map erase a with
                           | FunArg _ (Id lit) _ _ :: _ => String.eqb lit n_self_ | _ => false end in
      let a' := if first_is_self then map erase a else Id n_self_ :: map erase a in
      match map erase sts with [] => None | _ => Some (FunDef [] n_init a' None (Block (map erase sts))) end)
     = erase_opt
        (let first_is_self := match a with
                              | FunArg _ (Id lit) _ _ :: _ => String.eqb lit n_self_ | _ => false end in
         let a' := if first_is_self then a else Id n_self_ :: a in
         match sts with [] => None | _ => Some (FunDef [] n_init a' None (Block sts)) end)).
  { intros a sts. cbv zeta.
    assert (Hs : match map erase a with FunArg _ (Id lit) _ _ :: _ => String.eqb lit n_self_ | _ => false end
                 = match a with FunArg _ (Id lit) _ _ :: _ => String.eqb lit n_self_ | _ => false end).
    { destruct a as [|x r]; [reflexivity|]. destruct x; try reflexivity. cbn [map erase].
      match goal with |- context [match erase ?v with _ => _ end] => destruct v; reflexivity end. }
    rewrite Hs. destruct sts as [|s0 r0]; [reflexivity|]. cbn [map erase_opt erase].
    destruct (match a with FunArg _ (Id lit) _ _ :: _ => String.eqb lit n_self_ | _ => false end); reflexivity. }
  destruct old as [o|]; cbn [erase_opt].
  - destruct o; cbn [erase];
      try (rewrite <- (map_app erase); apply (Hfin [] _)).
    (* FunDef *)
    rewrite block_stmts_erase. rewrite <- !(map_app erase). apply Hfin.
  - rewrite <- (map_app erase). apply Hfin.
Qed.

Definition init_pos (m : list entry) : nat * nat :=
  fold_right (fun e acc =>
                match snd (snd e) with
                | VarDef _ _ _ => let p := (S (fst (fst (snd e))), 1) in if pos_ltb acc p then p else acc
                | _ => acc
                end) (0, 1) m.

Lemma init_pos_erase m : init_pos (map eentry m) = init_pos m.
Proof.
  induction m as [|[k [p c]] m IH]; [reflexivity|]. unfold init_pos in *. cbn [map fold_right eentry fst snd].
  rewrite IH. destruct c; reflexivity.
Qed.

Lemma existsb_none_erase (l : list (option core)) :
  existsb (fun o => match o with None => true | Some _ => false end) (map erase_opt l)
  = existsb (fun o => match o with None => true | Some _ => false end) l.
Proof. induction l as [|o l IH]; [reflexivity|]. cbn [map existsb]. rewrite IH. destruct o; reflexivity. Qed.
Lemma flat_some_erase (l : list (option core)) :
  flat_map (fun o => match o with Some x => [x] | None => [] end) (map erase_opt l)
  = map erase (flat_map (fun o => match o with Some x => [x] | None => [] end) l).
Proof.
  induction l as [|o l IH]; [reflexivity|]. cbn [map flat_map]. rewrite IH, map_app. destruct o; reflexivity.
Qed.

Definition epair (x : list core * list core) : list core * list core := (map erase (fst x), map erase (snd x)).

Lemma assemble_class_erase stmts args ps :
  assemble_class (map erase stmts) (map erase args) (map erase ps)
  = option_map epair (assemble_class stmts args ps).
Proof.
  unfold assemble_class.
  pose proof (body_entries_erase stmts 0 []) as Hm. cbn [map] in Hm. rewrite Hm. clear Hm.
  set (m := body_entries 0 stmts []).
  pose proof (hm_get_erase (Id n_init) m) as Hg. cbn [erase] in Hg. rewrite Hg.
  assert (Hold : match option_map evalue (hm_get (Id n_init) m) with Some (_, f) => Some f | None => None end
                 = erase_opt (match hm_get (Id n_init) m with Some (_, f) => Some f | None => None end)).
  { destruct (hm_get (Id n_init) m) as [[p f]|]; reflexivity. }
  rewrite Hold, class_init_erase.
  fold (init_pos (map eentry m)). fold (init_pos m). rewrite init_pos_erase.
  set (old := match hm_get (Id n_init) m with Some (_, f) => Some f | None => None end).
  assert (Hm' :
    match erase_opt (class_init old args ps) with
    | Some new_init =>
        hm_insert (Id n_init)
          (match option_map evalue (hm_get (Id n_init) m) with Some (p, _) => p | None => init_pos m end, new_init)
          (map eentry m)
    | None => map eentry m
    end
    = map eentry
        (match class_init old args ps with
         | Some new_init =>
             hm_insert (Id n_init)
               (match hm_get (Id n_init) m with Some (p, _) => p | None => init_pos m end, new_init) m
         | None => m
         end)).
  { destruct (class_init old args ps) as [ni|]; cbn [erase_opt]; [|reflexivity].
    pose proof (hm_insert_erase (Id n_init)
                  (match hm_get (Id n_init) m with Some (p, _) => p | None => init_pos m end, ni) m) as Hi.
    cbn [erase evalue fst snd] in Hi. rewrite <- Hi. f_equal. f_equal.
    destruct (hm_get (Id n_init) m) as [[p f]|]; reflexivity. }
  rewrite Hm'. clear Hm'.
  set (m' := match class_init old args ps with Some _ => _ | None => m end).
  rewrite !map_map.
  assert (Hn : map (fun x => parent_name (erase x)) ps = map erase_opt (map parent_name ps)).
  { rewrite map_map. apply map_ext. intros p. apply parent_name_erase. }
  rewrite Hn.
  rewrite existsb_none_erase. destruct (existsb _ (map parent_name ps)); [reflexivity|]. cbn [option_map]. unfold epair. cbn [fst snd].
  f_equal. f_equal.
  - apply flat_some_erase.
  - assert (Hs : map (fun x => snd (eentry x)) m' = map evalue (map snd m')).
    { rewrite map_map. apply map_ext. intros [k [p c]]. reflexivity. }
    rewrite Hs, sort_by_pos_erase, map_map.
    assert (Hx : map (fun x => snd (evalue x)) (sort_by_pos (map snd m')) = map erase (map snd (sort_by_pos (map snd m')))).
    { rewrite map_map. reflexivity. }
    rewrite Hx. destruct (map snd (sort_by_pos (map snd m'))); reflexivity.
Qed.
