(** * The statement printer respects Python's layout rules

    [plines_layout]: for every statement [c] whose suites are non-empty ([wfl]), the lines
    printed for [c] at level [ind] are accepted by [layout_ok] from any state that is ready
    for a statement at that level, and leave a state that is ready for the next one. *)
From Coq Require Import List String Bool Arith Lia.
From MambaModel Require Import model.PyExpr model.CoreExpr gen.PrinterTable model.Core model.PyStmt
  proofs.PrinterProps proofs.PrinterTableOk proofs.PlinesUnfold.
Import ListNotations.


(** ** Stacks of open indentation levels *)

Fixpoint desc (st : list nat) : Prop :=
  match st with
  | [] => True
  | x :: r => match r with [] => True | y :: _ => y < x end /\ desc r
  end.

Lemma desc_tail x r : desc (x :: r) -> desc r.
Proof. cbn. tauto. Qed.

Lemma desc_app_r a b : desc (a ++ b) -> desc b.
Proof. induction a as [|x a IH]; [easy|]. intros H. apply IH. exact (desc_tail _ _ H). Qed.

Lemma pop_to_found above n below :
  Forall (fun m => n < m) above -> pop_to n (above ++ n :: below) = Some (n :: below).
Proof.
  induction 1 as [|m above Hm _ IH]; cbn [app pop_to].
  - rewrite Nat.eqb_refl. reflexivity.
  - replace (Nat.eqb n m) with false by (symmetry; apply Nat.eqb_neq; lia).
    replace (Nat.ltb n m) with true by (symmetry; apply Nat.ltb_lt; lia). exact IH.
Qed.

Lemma desc_cons_app above n below :
  Forall (fun m => n < m) above -> desc (above ++ n :: below) -> desc (n :: below).
Proof. intros _ H. exact (desc_app_r _ _ H). Qed.

Lemma desc_push n below : desc (n :: below) -> desc ((n + 4) :: n :: below).
Proof. intros H. cbn. split; [lia | exact H]. Qed.

(** ** Lines that form complete statements at level [n] *)

Definition Good (ls : list pline) (n : nat) : Prop :=
  forall st hdr below rest,
    enter st hdr n = Some (n :: below) -> desc (n :: below) ->
    exists above,
      Forall (fun m => n < m) above /\ desc (above ++ n :: below)
      /\ layout_ok st hdr (ls ++ rest) = layout_ok (above ++ n :: below) false rest.

Lemma Good_single n ts : ends_colon ts = false -> Good [(n, ts)] n.
Proof.
  intros Hc st hdr below rest He Hd. exists []. cbn [app]. split; [constructor|]. split; [exact Hd|].
  cbn [layout_ok]. rewrite He, Hc. reflexivity.
Qed.

Lemma Good_app a b n : Good a n -> Good b n -> Good (a ++ b) n.
Proof.
  intros Ha Hb st hdr below rest He Hd.
  destruct (Ha st hdr below (b ++ rest) He Hd) as (ab & Fa & Da & Ea).
  assert (He' : enter (ab ++ n :: below) false n = Some (n :: below)) by (cbn [enter]; apply pop_to_found, Fa).
  destruct (Hb _ false below rest He' Hd) as (ab' & Fb & Db & Eb).
  exists ab'. split; [exact Fb|]. split; [exact Db|]. rewrite <- app_assoc, Ea, Eb. reflexivity.
Qed.

Lemma Good_header_suite n ts ls :
  ends_colon ts = true -> Good ls (n + 4) -> Good ((n, ts) :: ls) n.
Proof.
  intros Hc Hs st hdr below rest He Hd.
  assert (He' : enter (n :: below) true (n + 4) = Some ((n + 4) :: n :: below)).
  { cbn [enter]. replace (Nat.ltb n (n + 4)) with true by (symmetry; apply Nat.ltb_lt; lia). reflexivity. }
  destruct (Hs (n :: below) true (n :: below) rest He' (desc_push _ _ Hd)) as (ab & Fa & Da & Ea).
  exists (ab ++ [n + 4]). split; [|split].
  - apply Forall_app. split; [|constructor; [lia | constructor]]. revert Fa. apply Forall_impl. intros m Hm. lia.
  - rewrite <- app_assoc. exact Da.
  - cbn [app layout_ok]. rewrite He, Hc, Ea, <- app_assoc. reflexivity.
Qed.

Lemma Good_concat (lss : list (list pline)) n :
  lss <> [] -> Forall (fun ls => Good ls n) lss -> Good (List.concat lss) n.
Proof.
  intros Hne H. induction H as [|ls lss Hl Hr IH]; [contradiction|].
  destruct lss as [|ls2 lss]; cbn [List.concat].
  - rewrite app_nil_r. exact Hl.
  - apply Good_app; [exact Hl | apply IH; discriminate].
Qed.

(** a level-[n] statement list starting the module *)
Lemma Good_module ls : Good ls 0 -> module_layout_ok ls = true.
Proof.
  intros H. unfold module_layout_ok.
  destruct (H [0] false [] [] eq_refl (conj I I)) as (ab & _ & _ & E). rewrite app_nil_r in E. rewrite E. reflexivity.
Qed.

(** ** The last token of an expression is never a colon *)

Definition not_colon (t : tok) : bool := match t with TColon => false | _ => true end.

Definition last_ok (ts : list tok) : Prop :=
  exists init t, ts = init ++ [t] /\ not_colon t = true.

Lemma last_ok_app a b : last_ok b -> last_ok (a ++ b).
Proof. intros (i & t & -> & H). exists (a ++ i), t. rewrite app_assoc. split; [reflexivity | exact H]. Qed.
Lemma last_ok_cons x b : last_ok b -> last_ok (x :: b).
Proof. intros H. apply (last_ok_app [x] b H). Qed.
Lemma last_ok_one t : not_colon t = true -> last_ok [t].
Proof. intros H. exists [], t. split; [reflexivity | exact H]. Qed.
Lemma last_ok_snoc a t : not_colon t = true -> last_ok (a ++ [t]).
Proof. intros H. exists a, t. split; [reflexivity | exact H]. Qed.

Local Notation pt := (ptoks canon).
Local Notation op := (operand canon).

Lemma op_last e : last_ok (pt e) -> last_ok (op e).
Proof.
  intros H. destruct (canon_compound (kind_of e)) eqn:Hc.
  - rewrite (op_compound e Hc). apply last_ok_cons, last_ok_snoc. reflexivity.
  - rewrite (op_simple e Hc). exact H.
Qed.

Lemma pt_last : forall e, last_ok (pt e).
Proof.
  induction e using cexpr_mut with (P0 := fun _ => True); try exact I.
  - apply last_ok_one; reflexivity.
  - apply last_ok_one; reflexivity.
  - apply last_ok_one; reflexivity.
  - apply last_ok_one; reflexivity.
  - destruct b; apply last_ok_one; reflexivity.
  - apply last_ok_one; reflexivity.
  - (* ENum *) exists [TLPar; TNum n; TStar; TNum "10"%string; TDStar; TNum e], TRPar. split; reflexivity.
  - (* CBin *) rewrite pt_bin. apply last_ok_app, last_ok_app, op_last, IHe2.
  - rewrite pt_un. apply last_ok_cons, op_last, IHe.
  - rewrite pt_isa. apply last_ok_cons, last_ok_cons, last_ok_snoc. reflexivity.
  - rewrite pt_sqrt. do 4 apply last_ok_cons. apply last_ok_snoc. reflexivity.
  - rewrite pt_ternary. apply last_ok_app, last_ok_cons, last_ok_app, last_ok_cons, op_last, IHe3.
  - rewrite pt_lambda. apply last_ok_cons, last_ok_app, last_ok_cons, IHe.
  - rewrite pt_call. apply last_ok_app, last_ok_cons, last_ok_snoc. reflexivity.
  - rewrite pt_index. apply last_ok_app, last_ok_cons, last_ok_snoc. reflexivity.
  - rewrite pt_prop. apply last_ok_app, last_ok_cons, IHe2.
  - rewrite pt_tuple. apply last_ok_cons, last_ok_snoc. reflexivity.
  - rewrite pt_list. apply last_ok_cons, last_ok_snoc. reflexivity.
  - rewrite pt_set. apply last_ok_cons, last_ok_snoc. reflexivity.
Qed.

Lemma ends_colon_snoc ts x : ends_colon (ts ++ [x]) = match x with E TColon => true | _ => false end.
Proof. unfold ends_colon. rewrite rev_app_distr. cbn. destruct x as [t|s]; [destruct t|]; reflexivity. Qed.

Definition slast_ok (ts : list stok) : Prop :=
  exists init x, ts = init ++ [x] /\ match x with E TColon => False | _ => True end.

Lemma slast_ends ts : slast_ok ts -> ends_colon ts = false.
Proof. intros (i & x & -> & H). rewrite ends_colon_snoc. destruct x as [t|s]; [destruct t; easy | reflexivity]. Qed.
Lemma slast_app a b : slast_ok b -> slast_ok (a ++ b).
Proof. intros (i & t & -> & H). exists (a ++ i), t. rewrite app_assoc. split; [reflexivity | exact H]. Qed.
Lemma slast_cons x b : slast_ok b -> slast_ok (x :: b).
Proof. intros H. apply (slast_app [x] b H). Qed.
Lemma slast_one x : match x with E TColon => False | _ => True end -> slast_ok [x].
Proof. intros H. exists [], x. split; [reflexivity | exact H]. Qed.

Lemma etoks_last c ts : etoks c = Some ts -> slast_ok ts.
Proof.
  unfold etoks. destruct (to_cexpr c) as [e|]; [|discriminate]. destruct (wf e); [|discriminate].
  intros H. inversion H; subst. clear H.
  destruct (ptoks_ext generated generated_ok) as [Hext _]. rewrite Hext.
  destruct (pt_last e) as (i & t & -> & Ht). rewrite map_app. cbn [map]. exists (map E i), (E t).
  split; [reflexivity|]. destruct t; try exact I. discriminate Ht.
Qed.

(** ** Well-formedness: suites are not empty, decorators only where the printer gets them right *)

Definition ne_lines (o : option (list pline)) : bool :=
  match o with Some (_ :: _) => true | _ => false end.

(** the lines of a body: an empty block is printed as [pass] *)
Definition suite_lines (b : core) (ind : nat) : option (list pline) :=
  match b with
  | Block [] => Some [(4 * S ind, [K "pass"%string])]
  | _ => plines b (S ind)
  end.

Fixpoint wfl (c : core) (ind : nat) {struct c} : bool :=
  let block (sts : list core) (ind : nat) : bool :=
    (fix go (l : list core) : bool := match l with [] => true | s :: r => wfl s ind && go r end) sts in
  let suite (b : core) : bool :=
    ne_lines (suite_lines b ind)
    && match b with Block sts => block sts (S ind) | other => wfl other (S ind) end in
  match c with
  | Block sts => block sts ind
  | If _ t => suite t
  | IfElse _ t e => suite t && suite e
  | While _ b | For _ _ b | With _ b | WithAs _ _ b | Case _ b | Except _ b | ExceptId _ _ b
  | ClassDef _ _ b | FunDefOp _ _ _ b => suite b
  | FunDef dec _ _ _ b => (match dec with [] => true | _ => Nat.eqb ind 1 end) && suite b
  | TryExcept setup a ex =>
      (match setup with Some s => wfl s ind | None => true end) && suite a && block ex ind
  | Match _ cases =>
      ne_lines (plines (Block cases) (S ind)) && block cases (S ind)
  | _ => true
  end.

Fixpoint psize (c : core) : nat :=
  let sl := fix sl (l : list core) : nat := match l with [] => 0 | x :: r => psize x + sl r end in
  S match c with
    | Block sts => sl sts
    | If _ t => psize t
    | IfElse _ t e => psize t + psize e
    | While _ b | For _ _ b | With _ b | WithAs _ _ b | Case _ b | Except _ b | ExceptId _ _ b
    | ClassDef _ _ b | FunDefOp _ _ _ b | FunDef _ _ _ _ b => psize b
    | TryExcept setup a ex => (match setup with Some s => psize s | None => 0 end) + psize a + sl ex
    | Match _ cases => sl cases
    | _ => 0
    end.
Fixpoint psizes (l : list core) : nat := match l with [] => 0 | x :: r => psize x + psizes r end.

Lemma psize_unfold c :
  psize c =
  S match c with
    | Block sts => psizes sts
    | If _ t => psize t
    | IfElse _ t e => psize t + psize e
    | While _ b | For _ _ b | With _ b | WithAs _ _ b | Case _ b | Except _ b | ExceptId _ _ b
    | ClassDef _ _ b | FunDefOp _ _ _ b | FunDef _ _ _ _ b => psize b
    | TryExcept setup a ex => (match setup with Some s => psize s | None => 0 end) + psize a + psizes ex
    | Match _ cases => psizes cases
    | _ => 0
    end.
Proof. destruct c; reflexivity. Qed.

(** the statement list printer and checker, named *)
Definition blines (sts : list core) (ind : nat) : option (list pline) :=
  (fix go (l : list core) : option (list pline) :=
     match l with
     | [] => Some []
     | s :: r => match plines s ind, go r with Some a, Some b => Some (a ++ b) | _, _ => None end
     end) sts.
Definition bwfl (sts : list core) (ind : nat) : bool :=
  (fix go (l : list core) : bool := match l with [] => true | s :: r => wfl s ind && go r end) sts.

Lemma plines_block sts ind : plines (Block sts) ind = blines sts ind.
Proof. reflexivity. Qed.
Lemma wfl_block sts ind : wfl (Block sts) ind = bwfl sts ind.
Proof. reflexivity. Qed.

Definition Claim (c : core) : Prop :=
  forall ind ls, plines c ind = Some ls -> wfl c ind = true -> ls = [] \/ Good ls (4 * ind).

Lemma Good_or_app a b n : (a = [] \/ Good a n) -> (b = [] \/ Good b n) -> (a ++ b = [] \/ Good (a ++ b) n).
Proof.
  intros [-> | Ha] [-> | Hb]; cbn [app]; rewrite ?app_nil_r; auto. right. apply Good_app; assumption.
Qed.

Lemma blines_claim sts ind ls :
  (forall s, In s sts -> Claim s) -> blines sts ind = Some ls -> bwfl sts ind = true ->
  ls = [] \/ Good ls (4 * ind).
Proof.
  revert ls. induction sts as [|s r IH]; intros ls Hc Hl Hw.
  - cbn in Hl. inversion Hl. left. reflexivity.
  - cbn [blines] in Hl. fold (blines r ind) in Hl. cbn [bwfl] in Hw. fold (bwfl r ind) in Hw.
    apply andb_prop in Hw as [Hws Hwr].
    destruct (plines s ind) as [a|] eqn:Ea; [|discriminate]. destruct (blines r ind) as [b|] eqn:Eb; [|discriminate].
    inversion Hl; subst. apply Good_or_app.
    + apply (Hc s (or_introl eq_refl) ind a Ea Hws).
    + apply IH; [intros x Hx; apply Hc; right; exact Hx | reflexivity | exact Hwr].
Qed.

(** a suite: its lines are the block/statement printed one level deeper, non-empty by [wfl] *)
Lemma suite_good b ind ls :
  Claim b -> suite_lines b ind = Some ls ->
  ne_lines (suite_lines b ind) && match b with Block sts => bwfl sts (S ind) | other => wfl other (S ind) end = true ->
  Good ls (4 * ind + 4).
Proof.
  intros Hc Hl Hw. apply andb_prop in Hw as [Hne Hw]. rewrite Hl in Hne.
  assert (Hwb : wfl b (S ind) = true) by (destruct b; try exact Hw; rewrite wfl_block; exact Hw).
  replace (4 * ind + 4) with (4 * S ind) by lia.
  assert (Hcases : (exists l, b = Block [] /\ l = ls /\ ls = [(4 * S ind, [K "pass"%string])]) \/ plines b (S ind) = Some ls).
  { unfold suite_lines in Hl. destruct b; try (right; exact Hl).
    match goal with H : match ?sts with [] => _ | _ => _ end = _ |- _ => destruct sts end;
      [left; exists ls; inversion Hl; auto | right; exact Hl]. }
  destruct Hcases as [(l & -> & _ & ->) | Hp].
  - apply Good_single. reflexivity.
  - destruct (Hc (S ind) ls Hp Hwb) as [-> | Hg]; [discriminate Hne | exact Hg].
Qed.

(** ** One equation per compound statement *)

Definition hdr_line (ind : nat) (kw ts : list stok) : pline := (4 * ind, kw ++ ts ++ [E TColon]).
Definition with_suite (ind : nat) (kw ts : list stok) (b : core) : option (list pline) :=
  match suite_lines b ind with Some ls => Some (hdr_line ind kw ts :: ls) | None => None end.

Ltac suite_eq b :=
  destruct b; try reflexivity;
  match goal with |- context [Block ?l] => destruct l; reflexivity end.

Lemma plines_if cnd t ind :
  plines (If cnd t) ind = bind_o (etoks cnd) (fun ct => with_suite ind [K "if"%string] ct t).
Proof. suite_eq t. Qed.
Lemma plines_ifelse cnd t e ind :
  plines (IfElse cnd t e) ind =
  bind_o (etoks cnd) (fun ct =>
  bind_o (with_suite ind [K "if"%string] ct t) (fun a =>
  bind_o (with_suite ind [K "else"%string] [] e) (fun b => Some (a ++ b)))).
Proof.
  destruct t; try (suite_eq e);
  match goal with |- context [IfElse _ (Block ?l) _] => destruct l; suite_eq e end.
Qed.
Lemma plines_while cnd b ind :
  plines (While cnd b) ind = bind_o (etoks cnd) (fun ct => with_suite ind [K "while"%string] ct b).
Proof. suite_eq b. Qed.
Lemma plines_for e cl b ind :
  plines (For e cl b) ind =
  bind_o (etoks e) (fun et => bind_o (etoks cl) (fun clt => with_suite ind [K "for"%string] (et ++ E TIn :: clt) b)).
Proof. suite_eq b. Qed.
Lemma plines_with r b ind :
  plines (With r b) ind = bind_o (etoks r) (fun rt => with_suite ind [K "with"%string] rt b).
Proof. suite_eq b. Qed.
Lemma plines_withas r a b ind :
  plines (WithAs r a b) ind =
  bind_o (etoks r) (fun rt => bind_o (etoks a) (fun at_ => with_suite ind [K "with"%string] (rt ++ K "as"%string :: at_) b)).
Proof. suite_eq b. Qed.
Lemma plines_case e b ind :
  plines (Case e b) ind = bind_o (etoks e) (fun et => with_suite ind [K "case"%string] et b).
Proof. suite_eq b. Qed.
Lemma plines_except cl b ind :
  plines (Except cl b) ind = bind_o (ttoks cl) (fun ct => with_suite ind [K "except"%string] ct b).
Proof. suite_eq b. Qed.
Lemma plines_exceptid id cl b ind :
  plines (ExceptId id cl b) ind =
  bind_o (ttoks cl) (fun ct => bind_o (etoks id) (fun it => with_suite ind [K "except"%string] (ct ++ K "as"%string :: it) b)).
Proof. suite_eq b. Qed.
Lemma plines_class name parents b ind :
  plines (ClassDef name parents b) ind =
  bind_o (etoks name) (fun nt =>
  bind_o (opt_all (map etoks parents)) (fun ps =>
  with_suite ind [K "class"%string] (nt ++ match ps with [] => [] | _ => E TLPar :: commas ps ++ [E TRPar] end) b)).
Proof. suite_eq b. Qed.

Definition fundef_lines (ind : nat) (dec : list string) (id : string) (args : list core) (ty : option core)
           (body : core) : option (list pline) :=
  bind_o (opt_all (map argtoks args)) (fun ats =>
  bind_o (match ty with Some t => ttoks t | None => Some [] end) (fun rt =>
  let sig := [E (TName id); E TLPar] ++ commas ats ++ [E TRPar]
             ++ match ty with Some _ => K "->"%string :: rt | None => [] end in
  match dec with
  | [] => with_suite ind [K "def"%string] sig body
  | [d] =>
      match ind with
      | 0 => None
      | S i => bind_o (with_suite ind [K "def"%string] sig body)
                      (fun ls => Some ((4 * ind + 4 * i, [K "@"%string; E (TName d)]) :: ls))
      end
  | _ => None
  end)).
Lemma plines_fundef dec id args ty b ind :
  plines (FunDef dec id args ty b) ind = fundef_lines ind dec id args ty b.
Proof. suite_eq b. Qed.
Lemma plines_fundefop o args ty b ind :
  plines (FunDefOp o args ty b) ind = fundef_lines ind [] (funop_name o) args ty b.
Proof. suite_eq b. Qed.

Lemma plines_try setup a ex ind :
  plines (TryExcept setup a ex) ind =
  bind_o (match setup with Some s => plines s ind | None => Some [] end) (fun st =>
  bind_o (with_suite ind [K "try"%string] [] a) (fun al =>
  bind_o (blines ex ind) (fun exl => Some (st ++ al ++ exl)))).
Proof. suite_eq a. Qed.
Lemma plines_match e cases ind :
  plines (Match e cases) ind =
  bind_o (etoks e) (fun et =>
  bind_o (blines cases (S ind)) (fun cl => Some ((4 * ind, K "match"%string :: et ++ [E TColon]) :: cl))).
Proof. reflexivity. Qed.

Lemma ends_colon_hdr a b : ends_colon (a ++ b ++ [E TColon]) = true.
Proof. rewrite app_assoc, ends_colon_snoc. reflexivity. Qed.

Lemma with_suite_good ind kw ts b L :
  Claim b -> with_suite ind kw ts b = Some L ->
  ne_lines (suite_lines b ind) && match b with Block sts => bwfl sts (S ind) | other => wfl other (S ind) end = true ->
  Good L (4 * ind).
Proof.
  intros Hc Hw Hs. unfold with_suite in Hw. destruct (suite_lines b ind) as [ls|] eqn:El; [|discriminate].
  inversion Hw; subst. apply Good_header_suite; [apply ends_colon_hdr|].
  apply (suite_good b ind ls Hc El). rewrite El. exact Hs.
Qed.

Lemma bind_o_some {X Y} (o : option X) (f : X -> option Y) y :
  bind_o o f = Some y -> exists x, o = Some x /\ f x = Some y.
Proof. destruct o as [x|]; cbn; [|discriminate]. intros H. exists x. split; [reflexivity | exact H]. Qed.

(** ** Main theorem *)

Definition is_expr_stmt (c : core) : bool :=
  match c with
  | Block _ | VarDef _ _ _ | Assign _ _ _ | Un CuReturn _ | Un CuRaise _ | Pass | Break | Continue
  | Import _ _ _ | If _ _ | IfElse _ _ _ | While _ _ | For _ _ _ | FunDef _ _ _ _ _ | FunDefOp _ _ _ _
  | ClassDef _ _ _ | With _ _ | WithAs _ _ _ | TryExcept _ _ _ | Except _ _ | ExceptId _ _ _
  | Match _ _ | Case _ _ => false
  | _ => true
  end.

Lemma plines_expr c ind :
  is_expr_stmt c = true ->
  plines c ind = match etoks c with Some t => Some [(4 * ind, t)] | None => None end.
Proof. destruct c; try discriminate; try reflexivity. destruct o; try discriminate; reflexivity. Qed.

Lemma plines_simple_kw c ind kw :
  (c = Pass /\ kw = "pass"%string) \/ (c = Break /\ kw = "break"%string) \/ (c = Continue /\ kw = "continue"%string) ->
  plines c ind = Some [(4 * ind, [K kw])].
Proof. intros [[-> ->] | [[-> ->] | [-> ->]]]; reflexivity. Qed.

Lemma plines_return e ind :
  plines (Un CuReturn e) ind =
  match bind_o (etoks e) (fun t => Some (K "return"%string :: t)) with Some t => Some [(4 * ind, t)] | None => None end.
Proof. reflexivity. Qed.
Lemma plines_raise e ind :
  plines (Un CuRaise e) ind =
  match bind_o (etoks e) (fun t => Some (K "raise"%string :: t)) with Some t => Some [(4 * ind, t)] | None => None end.
Proof. reflexivity. Qed.
Lemma plines_assign l r op ind :
  plines (Assign l r op) ind =
  match bind_o (etoks l) (fun lt => bind_o (etoks r) (fun rt => Some (lt ++ K (op_text op) :: rt)))
  with Some t => Some [(4 * ind, t)] | None => None end.
Proof. reflexivity. Qed.
Lemma plines_vardef v ty e ind :
  plines (VarDef v ty e) ind =
  match bind_o (etoks v) (fun vt =>
        bind_o (match ty with Some t => ttoks t | None => Some [] end) (fun tyt =>
        bind_o (match e with Some x => etoks x | None => Some [E TNone] end) (fun et =>
        Some (vt ++ (match ty with Some _ => E TColon :: tyt | None => [] end) ++ K "="%string :: et))))
  with Some t => Some [(4 * ind, t)] | None => None end.
Proof. reflexivity. Qed.
Lemma plines_import from names alias ind :
  plines (Import from names alias) ind =
  let ids (l : list core) := opt_all (map (fun x => match x with Id s => Some [E (TName s)] | _ => None end) l) in
  match bind_o (match from with
                | Some (Id f) => Some [K "from"%string; E (TName f)]
                | None => Some []
                | _ => None end) (fun ft =>
        bind_o (ids names) (fun nt =>
        bind_o (ids alias) (fun al =>
        Some (ft ++ K "import"%string :: commas nt ++ (match al with [] => [] | _ => K "as"%string :: commas al end)))))
  with Some t => Some [(4 * ind, t)] | None => None end.
Proof. reflexivity. Qed.

Lemma one_line_claim ind (ts : list stok) ls :
  (match Some ts with Some t => Some [(4 * ind, t)] | None => None end) = Some ls ->
  slast_ok ts -> ls = [] \/ Good ls (4 * ind).
Proof. intros H Hl. inversion H; subst. right. apply Good_single, slast_ends, Hl. Qed.

Lemma commas_last (l : list (list stok)) :
  l <> [] -> Forall slast_ok l -> slast_ok (commas l).
Proof.
  intros Hne H. induction H as [|x l Hx Hl IH]; [contradiction|]. destruct l as [|y l].
  - exact Hx.
  - change (commas (x :: y :: l)) with (x ++ E TComma :: commas (y :: l)).
    apply slast_app, slast_cons, IH. discriminate.
Qed.

Lemma ids_last (l : list core) (ts : list (list stok)) :
  opt_all (map (fun x => match x with Id s => Some [E (TName s)] | _ => None end) l) = Some ts ->
  Forall slast_ok ts.
Proof.
  revert ts. induction l as [|x l IH]; intros ts H; cbn [map opt_all] in H.
  - inversion H. constructor.
  - destruct x; try discriminate H. destruct (opt_all _) as [r|] eqn:Er; [|discriminate H]. inversion H; subst.
    constructor; [apply slast_one; exact I | apply IH; reflexivity].
Qed.

Lemma claim_n : forall n c, psize c <= n -> Claim c.
Proof.
  induction n as [|n IH]; intros c Hn; [destruct c; rewrite psize_unfold in Hn; lia|].
  intros ind ls Hl Hw. rewrite psize_unfold in Hn.
  assert (Hsub : forall b, psize b <= n -> Claim b) by (intros b Hb; apply IH, Hb).
  assert (Hlist : forall l, psizes l <= n -> forall s, In s l -> Claim s).
  { intros l Hs s Hin. apply IH. clear -Hs Hin. induction l as [|x l IHl]; [easy|]. cbn [psizes] in Hs.
    destruct Hin as [-> | Hin]; [lia | apply IHl; [lia | exact Hin]]. }
  destruct (is_expr_stmt c) eqn:Hes.
  { rewrite (plines_expr c ind Hes) in Hl. destruct (etoks c) as [ts|] eqn:Et; [|discriminate Hl].
    apply (one_line_claim ind ts ls Hl), (etoks_last _ _ Et). }
  destruct c; try discriminate Hes; cbv beta iota in Hn.
  - (* Import *)
    rewrite plines_import in Hl. cbv zeta in Hl.
    match type of Hl with match ?o with _ => _ end = _ => destruct o as [ts|] eqn:Eo; [|discriminate Hl] end.
    apply (one_line_claim ind ts ls Hl).
    apply bind_o_some in Eo as (ft & Hf & Eo). apply bind_o_some in Eo as (nt & Hnt & Eo).
    apply bind_o_some in Eo as (al & Hal & Eo). inversion Eo; subst. clear Eo.
    apply slast_app. destruct al as [|a0 al].
    + rewrite app_nil_r. destruct nt as [|n0 nt].
      * apply slast_one. exact I.
      * apply slast_cons, commas_last; [discriminate | apply (ids_last _ _ Hnt)].
    + apply slast_cons, slast_app, slast_cons, commas_last; [discriminate | apply (ids_last _ _ Hal)].
  - (* ClassDef *)
    rewrite plines_class in Hl. apply bind_o_some in Hl as (nt & _ & Hl). apply bind_o_some in Hl as (ps & _ & Hl).
    right. cbn [wfl] in Hw. (eapply with_suite_good; [ | exact Hl | exact Hw]; apply Hsub; lia).
  - (* Assign *)
    rewrite plines_assign in Hl.
    match type of Hl with match ?o with _ => _ end = _ => destruct o as [ts|] eqn:Eo; [|discriminate Hl] end.
    apply (one_line_claim ind ts ls Hl).
    apply bind_o_some in Eo as (lt & _ & Eo). apply bind_o_some in Eo as (rt & Hr & Eo). inversion Eo; subst.
    apply slast_app, slast_cons, (etoks_last _ _ Hr).
  - (* VarDef *)
    rewrite plines_vardef in Hl.
    match type of Hl with match ?o with _ => _ end = _ => destruct o as [ts|] eqn:Eo; [|discriminate Hl] end.
    apply (one_line_claim ind ts ls Hl).
    apply bind_o_some in Eo as (vt & _ & Eo). apply bind_o_some in Eo as (tyt & _ & Eo).
    apply bind_o_some in Eo as (et & He & Eo). inversion Eo; subst.
    apply slast_app, slast_app, slast_cons.
    destruct expr as [x|]; [apply (etoks_last _ _ He) | inversion He; apply slast_one; exact I].
  - (* FunDefOp *)
    rewrite plines_fundefop in Hl. unfold fundef_lines in Hl.
    apply bind_o_some in Hl as (ats & _ & Hl). apply bind_o_some in Hl as (rt & _ & Hl). cbv zeta in Hl.
    right. cbn [wfl] in Hw. (eapply with_suite_good; [ | exact Hl | exact Hw]; apply Hsub; lia).
  - (* FunDef *)
    rewrite plines_fundef in Hl. unfold fundef_lines in Hl.
    apply bind_o_some in Hl as (ats & _ & Hl). apply bind_o_some in Hl as (rt & _ & Hl). cbv zeta in Hl.
    cbn [wfl] in Hw. apply andb_prop in Hw as [Hdec Hw]. right.
    destruct dec as [|d [|d2 dr]]; [| |discriminate Hl].
    + (eapply with_suite_good; [ | exact Hl | exact Hw]; apply Hsub; lia).
    + apply Nat.eqb_eq in Hdec. subst ind.
      apply bind_o_some in Hl as (sl & Hs & Hl). inversion Hl; subst.
      change ((4 * 1 + 4 * 0, [K "@"%string; E (TName d)]) :: sl) with ([(4 * 1, [K "@"%string; E (TName d)])] ++ sl).
      apply (Good_app [(4 * 1, [K "@"%string; E (TName d)])] sl (4 * 1));
        [apply (Good_single (4 * 1) [K "@"%string; E (TName d)] eq_refl)|].
      (eapply with_suite_good; [ | exact Hs | exact Hw]; apply Hsub; lia).
  - (* Block *)
    rewrite plines_block in Hl. rewrite wfl_block in Hw. (eapply blines_claim; [ | exact Hl | exact Hw]; apply Hlist; lia).
  - (* Un: return / raise *)
    destruct o; try discriminate Hes.
    + rewrite plines_return in Hl.
      match type of Hl with match ?o with _ => _ end = _ => destruct o as [ts|] eqn:Eo; [|discriminate Hl] end.
      apply (one_line_claim ind ts ls Hl). apply bind_o_some in Eo as (t & Ht & Eo). inversion Eo; subst.
      apply slast_cons, (etoks_last _ _ Ht).
    + rewrite plines_raise in Hl.
      match type of Hl with match ?o with _ => _ end = _ => destruct o as [ts|] eqn:Eo; [|discriminate Hl] end.
      apply (one_line_claim ind ts ls Hl). apply bind_o_some in Eo as (t & Ht & Eo). inversion Eo; subst.
      apply slast_cons, (etoks_last _ _ Ht).
  - (* For *)
    rewrite plines_for in Hl. apply bind_o_some in Hl as (et & _ & Hl). apply bind_o_some in Hl as (clt & _ & Hl).
    right. cbn [wfl] in Hw. (eapply with_suite_good; [ | exact Hl | exact Hw]; apply Hsub; lia).
  - (* If *)
    rewrite plines_if in Hl. apply bind_o_some in Hl as (ct & _ & Hl).
    right. cbn [wfl] in Hw. (eapply with_suite_good; [ | exact Hl | exact Hw]; apply Hsub; lia).
  - (* IfElse *)
    rewrite plines_ifelse in Hl. apply bind_o_some in Hl as (ct & _ & Hl).
    apply bind_o_some in Hl as (a & Ha & Hl). apply bind_o_some in Hl as (b & Hb & Hl). inversion Hl; subst.
    cbn [wfl] in Hw. apply andb_prop in Hw as [Hw1 Hw2]. right. apply Good_app.
    + (eapply with_suite_good; [ | exact Ha | exact Hw1]; apply Hsub; lia).
    + (eapply with_suite_good; [ | exact Hb | exact Hw2]; apply Hsub; lia).
  - (* Match *)
    rewrite plines_match in Hl. apply bind_o_some in Hl as (et & _ & Hl). apply bind_o_some in Hl as (cl & Hcl & Hl).
    inversion Hl; subst. cbn [wfl] in Hw. apply andb_prop in Hw as [Hne Hw]. rewrite plines_block, Hcl in Hne.
    right. apply Good_header_suite.
    + change (K "match"%string :: et ++ [E TColon]) with ([K "match"%string] ++ et ++ [E TColon]). apply ends_colon_hdr.
    + destruct (blines_claim cases (S ind) cl (Hlist cases ltac:(lia)) Hcl Hw) as [-> | Hg]; [discriminate Hne|].
      replace (4 * ind + 4) with (4 * S ind) by lia. exact Hg.
  - (* Case *)
    rewrite plines_case in Hl. apply bind_o_some in Hl as (et & _ & Hl).
    right. cbn [wfl] in Hw. (eapply with_suite_good; [ | exact Hl | exact Hw]; apply Hsub; lia).
  - (* While *)
    rewrite plines_while in Hl. apply bind_o_some in Hl as (ct & _ & Hl).
    right. cbn [wfl] in Hw. (eapply with_suite_good; [ | exact Hl | exact Hw]; apply Hsub; lia).
  - (* Break *) rewrite (plines_simple_kw Break ind "break") in Hl by tauto. inversion Hl. right. apply Good_single. reflexivity.
  - (* Continue *) rewrite (plines_simple_kw Continue ind "continue") in Hl by tauto. inversion Hl. right. apply Good_single. reflexivity.
  - (* Pass *) rewrite (plines_simple_kw Pass ind "pass") in Hl by tauto. inversion Hl. right. apply Good_single. reflexivity.
  - (* TryExcept *)
    rewrite plines_try in Hl. apply bind_o_some in Hl as (st & Hst & Hl). apply bind_o_some in Hl as (al & Hal & Hl).
    apply bind_o_some in Hl as (exl & Hex & Hl). inversion Hl; subst.
    cbn [wfl] in Hw. fold (bwfl except ind) in Hw. apply andb_prop in Hw as [Hw Hwex]. apply andb_prop in Hw as [Hws Hwa].
    apply Good_or_app; [|apply Good_or_app].
    + destruct setup as [s|]; [|inversion Hst; left; reflexivity].
      apply (Hsub s ltac:(lia) ind st Hst Hws).
    + right. (eapply with_suite_good; [ | exact Hal | exact Hwa]; apply Hsub; lia).
    + (eapply blines_claim; [ | exact Hex | exact Hwex]; apply Hlist; lia).
  - (* ExceptId *)
    rewrite plines_exceptid in Hl. apply bind_o_some in Hl as (ct & _ & Hl). apply bind_o_some in Hl as (it & _ & Hl).
    right. cbn [wfl] in Hw. (eapply with_suite_good; [ | exact Hl | exact Hw]; apply Hsub; lia).
  - (* Except *)
    rewrite plines_except in Hl. apply bind_o_some in Hl as (ct & _ & Hl).
    right. cbn [wfl] in Hw. (eapply with_suite_good; [ | exact Hl | exact Hw]; apply Hsub; lia).
  - (* With *)
    rewrite plines_with in Hl. apply bind_o_some in Hl as (rt & _ & Hl).
    right. cbn [wfl] in Hw. (eapply with_suite_good; [ | exact Hl | exact Hw]; apply Hsub; lia).
  - (* WithAs *)
    rewrite plines_withas in Hl. apply bind_o_some in Hl as (rt & _ & Hl). apply bind_o_some in Hl as (at_ & _ & Hl).
    right. cbn [wfl] in Hw. (eapply with_suite_good; [ | exact Hl | exact Hw]; apply Hsub; lia).
Qed.

Theorem plines_layout c ind ls :
  plines c ind = Some ls -> wfl c ind = true -> ls = [] \/ Good ls (4 * ind).
Proof. apply (claim_n (psize c) c (le_n _)). Qed.

Theorem module_layout c ls :
  plines c 0 = Some ls -> wfl c 0 = true -> module_layout_ok ls = true.
Proof.
  intros Hl Hw. destruct (plines_layout c 0 ls Hl Hw) as [-> | Hg]; [reflexivity | apply Good_module, Hg].
Qed.
