(** * LF -> CRLF leaves the token stream untouched (used by C14)

    [crlf s] writes every line feed of [s] as carriage return + line feed.  If no token of
    [s] starts with a carriage return and every string literal of [s] is terminated and
    holds no line feed ([crlf_ok]), then [tokenize (crlf s) = tokenize s]: the same tokens
    with the same positions, or the same lexical error at the same position. *)
From Coq Require Import List Ascii ZArith Bool Lia Arith.
From MambaModel Require Import model.LexTok gen.LexTables model.Lex proofs.LexProps model.Trivia
  proofs.TriviaFuel proofs.TriviaScan proofs.TriviaSim.
Import ListNotations.
Local Open Scope Z_scope.

Lemma crlf_cons_other c r : Ascii.eqb c c_nl = false -> crlf (c :: r) = c :: crlf r.
Proof. intros H. cbn [crlf]. rewrite H. reflexivity. Qed.
Lemma crlf_cons_nl r : crlf (c_nl :: r) = c_cr :: c_nl :: crlf r.
Proof. reflexivity. Qed.

Lemma crlf_app a b : crlf (a ++ b) = crlf a ++ crlf b.
Proof.
  induction a as [|c a IH]; [reflexivity|]. cbn [app crlf]. rewrite IH.
  destruct (Ascii.eqb c c_nl); reflexivity.
Qed.

Lemma crlf_no_nl w : no_nl w = true -> crlf w = w.
Proof.
  induction w as [|c w IH]; [reflexivity|]. rewrite no_nl_cons. intros H.
  apply andb_prop in H as [Hc Hw]. apply negb_true_iff in Hc. cbn [crlf]. rewrite Hc, (IH Hw). reflexivity.
Qed.

Lemma nonstop_cases x :
  is_stop x = false -> Ascii.eqb x c_nl = false /\ Ascii.eqb x c_cr = false /\ Ascii.eqb x c_sp = false.
Proof.
  unfold is_stop, is_eolc. intros H. apply orb_false_elim in H as [H H3].
  apply orb_false_elim in H as [H1 H2]. auto.
Qed.

(** ** the scanner branches *)

Lemma sw_crlf : forall w y, stop_free w = true -> starts_with w (crlf y) = starts_with w y.
Proof.
  induction w as [|x w IH]; intros y Hw; [reflexivity|].
  cbn [stop_free forallb] in Hw. apply andb_prop in Hw as [Hx Hw]. apply negb_true_iff in Hx.
  destruct (nonstop_cases x Hx) as (Hnl & Hcr & _).
  destruct y as [|c y]; [reflexivity|].
  destruct (Ascii.eqb c c_nl) eqn:Hc.
  - apply Ascii.eqb_eq in Hc. subst c. rewrite crlf_cons_nl, !starts_with_cons, Hnl, Hcr. reflexivity.
  - rewrite (crlf_cons_other c y Hc), !starts_with_cons, (IH y Hw). reflexivity.
Qed.

Lemma skipn_crlf : forall w y, stop_free w = true -> starts_with w y = true ->
  skipn (length w) (crlf y) = crlf (skipn (length w) y).
Proof.
  induction w as [|x w IH]; intros y Hw Hs; [reflexivity|].
  cbn [stop_free forallb] in Hw. apply andb_prop in Hw as [Hx Hw]. apply negb_true_iff in Hx.
  destruct (nonstop_cases x Hx) as (Hnl & _ & _).
  destruct y as [|c y]; [discriminate Hs|].
  rewrite starts_with_cons in Hs. apply andb_prop in Hs as [Hxc Hs]. apply Ascii.eqb_eq in Hxc. subst c.
  rewrite (crlf_cons_other x y Hnl). cbn [length skipn]. apply IH; assumption.
Qed.

Lemma mp_crlf : forall tbl y, forallb (fun wt : str * token => stop_free (fst wt)) tbl = true ->
  match_prefix tbl (crlf y) =
  match match_prefix tbl y with Some (t, rest) => Some (t, crlf rest) | None => None end.
Proof.
  induction tbl as [|[w t] tbl IH]; intros y Ht; [reflexivity|].
  cbn [forallb fst] in Ht. apply andb_prop in Ht as [Hw Ht]. cbn [match_prefix].
  rewrite (sw_crlf w y Hw). destruct (starts_with w y) eqn:Hs.
  - rewrite (skipn_crlf w y Hw Hs). reflexivity.
  - apply IH, Ht.
Qed.

Lemma tw_crlf p : p c_nl = false -> p c_cr = false ->
  forall s, take_while p (crlf s) = let '(w, b) := take_while p s in (w, crlf b).
Proof.
  intros Hnl Hcr. induction s as [|c s IH]; [reflexivity|].
  destruct (Ascii.eqb c c_nl) eqn:Hc.
  - apply Ascii.eqb_eq in Hc. subst c. rewrite crlf_cons_nl. cbn [take_while]. rewrite Hnl, Hcr.
    rewrite crlf_cons_nl. reflexivity.
  - rewrite (crlf_cons_other c s Hc). cbn [take_while]. destruct (p c).
    + rewrite IH. destruct (take_while p s) as [w b]. reflexivity.
    + rewrite (crlf_cons_other c s Hc). reflexivity.
Qed.

Definition sn_map (f : str -> str) (x : str * str * bool * bool * str) : str * str * bool * bool * str :=
  let '(n, e, fl, en, rest) := x in (n, e, fl, en, f rest).

Lemma crlf_length s : (length s <= length (crlf s))%nat.
Proof.
  induction s as [|c s IH]; [reflexivity|]. cbn [crlf]. destruct (Ascii.eqb c c_nl); cbn [length]; lia.
Qed.

Lemma sn_crlf : forall s f1 f2 num exp fl en,
  (length s < f1)%nat -> (length (crlf s) < f2)%nat ->
  scan_number f2 num exp fl en (crlf s) = sn_map crlf (scan_number f1 num exp fl en s).
Proof.
  induction s as [|c s IH]; intros f1 f2 num exp fl en H1 H2.
  - destruct f1; [cbn in H1; lia|]. destruct f2; [cbn in H2; lia|]. reflexivity.
  - destruct f1 as [|f1]; [cbn in H1; lia|]. destruct f2 as [|f2]; [cbn in H2; lia|].
    destruct (Ascii.eqb c c_nl) eqn:Hc.
    + apply Ascii.eqb_eq in Hc. subst c. rewrite crlf_cons_nl. cbn [scan_number sn_map].
      change (is_digit c_cr) with false. change (is_digit c_nl) with false.
      change (Ascii.eqb c_cr c_E) with false. change (Ascii.eqb c_nl c_E) with false.
      change (Ascii.eqb c_cr c_dot) with false. change (Ascii.eqb c_nl c_dot) with false.
      cbv iota. cbn [sn_map]. rewrite crlf_cons_nl. reflexivity.
    + rewrite (crlf_cons_other c s Hc) in *. cbn [length] in *. cbn [scan_number].
      assert (L1 : (length s < f1)%nat) by lia. assert (L2 : (length (crlf s) < f2)%nat) by lia.
      destruct (is_digit c).
      * destruct en; apply IH; assumption.
      * destruct (Ascii.eqb c c_E).
        -- destruct en; [cbn [sn_map]; rewrite (crlf_cons_other c s Hc); reflexivity|]. apply IH; assumption.
        -- destruct (Ascii.eqb c c_dot); [|cbn [sn_map]; rewrite (crlf_cons_other c s Hc); reflexivity].
           destruct (fl || en); [cbn [sn_map]; rewrite (crlf_cons_other c s Hc); reflexivity|].
           destruct s as [|c2 s2]; [apply (IH f1 f2); assumption|].
           destruct (Ascii.eqb c2 c_nl) eqn:Hc2.
           ++ apply Ascii.eqb_eq in Hc2. subst c2. rewrite crlf_cons_nl in *.
              change (Ascii.eqb c_cr c_dot) with false. change (Ascii.eqb c_nl c_dot) with false.
              cbv iota. apply (IH f1 f2); assumption.
           ++ rewrite (crlf_cons_other c2 s2 Hc2) in *.
              destruct (Ascii.eqb c2 c_dot).
              ** cbn [sn_map]. rewrite (crlf_cons_other c _ Hc), (crlf_cons_other c2 s2 Hc2). reflexivity.
              ** apply (IH f1 f2); assumption.
Qed.

Lemma ss_mono : forall s st st' rest,
  scan_string st s = (st', rest) -> (length (s_content st) <= length (s_content st'))%nat.
Proof.
  induction s as [|c s IH]; intros st st' rest H.
  - cbn in H. inversion H; subst. lia.
  - rewrite scan_string_cons in H. destruct (ss_closing st c).
    + inversion H; subst. lia.
    + apply IH in H. rewrite ss_step_content, app_length in H. cbn [length] in H. lia.
Qed.

(** a literal closed inside [w] is scanned the same whatever follows [w] *)
Lemma ss_replace : forall w st st' rest,
  scan_string st (w ++ rest) = (st', rest) ->
  (length (s_content st') < length (s_content st) + length w)%nat ->
  forall rest2, scan_string st (w ++ rest2) = (st', rest2).
Proof.
  induction w as [|c w IH]; intros st st' rest H Hl rest2.
  - apply ss_mono in H. cbn [length] in Hl. lia.
  - cbn [app] in *. rewrite scan_string_cons in *. destruct (ss_closing st c).
    + inversion H as [[Hst Hw]]. assert (w = []).
      { apply (f_equal (@length _)) in Hw. rewrite app_length in Hw. destruct w; [reflexivity | cbn in Hw; lia]. }
      subst w. reflexivity.
    + apply (IH _ _ rest); [exact H|]. rewrite ss_step_content, app_length. cbn [length] in *. lia.
Qed.

(** ** the scanner *)

Definition map_rest (f : str -> str) (x : scanned) : scanned :=
  match x with
  | STok t r => STok t (f r)
  | SString c e r => SString c e (f r)
  | SSpace r => SSpace (f r)
  | SErr e => SErr e
  end.

(** a string literal starting here is terminated and holds no line feed *)
Definition str_ok (c : ascii) (r : str) : bool :=
  match scan c r with
  | SString content _ rest => no_nl content && str_eqb (c :: r) (c_quote :: content ++ c_quote :: rest)
  | _ => true
  end.

Lemma scan_crlf c r :
  Ascii.eqb c_nl c = false -> Ascii.eqb c_cr c = false -> str_ok c r = true ->
  scan c (crlf r) = map_rest crlf (scan c r).
Proof.
  intros Hnl Hcr Hok. unfold str_ok in Hok. unfold scan in *.
  assert (Hnl' : Ascii.eqb c c_nl = false) by (rewrite Ascii.eqb_sym; exact Hnl).
  rewrite (mp_ops_only c (crlf r) Hnl) by (left; exact Hcr).
  rewrite (mp_ops_only c r Hnl) in * by (left; exact Hcr).
  rewrite <- (crlf_cons_other c r Hnl'). rewrite (mp_crlf ops_part (c :: r) ops_stop_free).
  destruct (match_prefix ops_part (c :: r)) as [[t0 rest0]|]; [reflexivity|].
  destruct (Ascii.eqb c c_hash).
  { rewrite (tw_crlf not_eol eq_refl eq_refl r). destruct (take_while not_eol r) as [cm rest]. reflexivity. }
  destruct (Ascii.eqb c c_quote).
  { fold ss0 in *. destruct (scan_string ss0 r) as [st rest] eqn:Hs.
    apply andb_prop in Hok as [Hn Heq]. apply str_eqb_eq in Heq. injection Heq as _ Hr.
    assert (Hc : crlf r = (s_content st ++ [c_quote]) ++ crlf rest).
    { rewrite Hr at 1. rewrite crlf_app, (crlf_no_nl _ Hn), (crlf_cons_other c_quote rest eq_refl).
      rewrite <- app_assoc. reflexivity. }
    rewrite Hc. rewrite (ss_replace (s_content st ++ [c_quote]) ss0 st rest); [reflexivity | |].
    - rewrite <- app_assoc. cbn [app]. rewrite <- Hr. exact Hs.
    - rewrite app_length. cbn. lia. }
  destruct (Ascii.eqb c c_sp); [reflexivity|].
  destruct (Ascii.eqb c c_cr); [reflexivity|].
  destruct (Ascii.eqb c (ch 33)); [reflexivity|].
  destruct (is_digit c).
  { rewrite (sn_crlf r (S (length r)) (S (length (crlf r))) [c] [] false false) by lia.
    destruct (scan_number (S (length r)) [c] [] false false r) as [[[[number exp] float] e_num] rest].
    reflexivity. }
  destruct (is_id_start c); [|reflexivity].
  rewrite (tw_crlf is_id_char eq_refl eq_refl r). destruct (take_while is_id_char r) as [w rest]. reflexivity.
Qed.

(** ** the loop *)

Fixpoint crlf_ok (fuel : nat) (s : str) : bool :=
  match fuel with
  | O => true
  | S fuel =>
      match s with
      | [] => true
      | c :: r =>
          negb (Ascii.eqb c_cr c) && str_ok c r &&
          match scan_rest (scan c r) with Some rest => crlf_ok fuel rest | None => true end
      end
  end.

Definition map_step (f : str -> str) (x : stepres) : stepres :=
  match x with Next rest st out => Next (f rest) st out | other => other end.

Lemma step_map f d c r r' st :
  scan c r' = map_rest f (scan c r) -> step d c r' st = map_step f (step d c r st).
Proof.
  intros H. unfold step. rewrite H.
  destruct (scan c r) as [t rest | content exprs rest | rest | e]; cbn [map_rest map_step].
  - destruct (state_token st t); reflexivity.
  - destruct (is_docstring_arm content); [destruct (state_token st (string_tok content)); reflexivity|].
    destruct (nest_all d (pos st) exprs) as [[inn|]|e]; try reflexivity.
    destruct (emit_str st content inn); reflexivity.
  - reflexivity.
  - reflexivity.
Qed.

Lemma crlf_loop fuel : forall s st acc x,
  crlf_ok fuel s = true -> tok_loop fuel s st acc = inl x ->
  exists f2, tok_loop f2 (crlf s) st acc = inl x.
Proof.
  induction fuel as [|fuel IH]; intros s st acc x Hok H.
  - rewrite tok_loop_O in H. discriminate H.
  - destruct s as [|c r].
    + exists 1%nat. exact H.
    + cbn [crlf_ok] in Hok. apply andb_prop in Hok as [Hok Hrest]. apply andb_prop in Hok as [Hcr Hstr].
      apply negb_true_iff in Hcr. rewrite tok_loop_step in H.
      destruct (Ascii.eqb c_nl c) eqn:Hnl.
      * apply Ascii.eqb_eq in Hnl. subst c. rewrite step_nl in H. rewrite scan_nl in Hrest. cbn [scan_rest] in Hrest.
        destruct (IH _ _ _ _ Hrest H) as [f2 Hf]. exists (S f2).
        rewrite crlf_cons_nl, tok_loop_step, step_crnl. exact Hf.
      * assert (Hnl' : Ascii.eqb c c_nl = false) by (rewrite Ascii.eqb_sym; exact Hnl).
        rewrite (crlf_cons_other c r Hnl').
        pose proof (scan_crlf c r Hnl Hcr Hstr) as Hsc.
        destruct (step (direct fuel) c r st) as [e| |rest st1 out] eqn:Hst; try discriminate H.
        -- exists (S fuel). rewrite tok_loop_step, (step_map crlf _ c r (crlf r) st Hsc), Hst. exact H.
        -- rewrite (step_next_rest _ _ _ _ _ _ _ Hst) in Hrest.
           destruct (IH _ _ _ _ Hrest H) as [f2 Hf]. exists (S (Nat.max f2 fuel)).
           rewrite tok_loop_step, (step_map crlf _ c r (crlf r) st Hsc).
           rewrite (step_mono (direct fuel) (direct (Nat.max f2 fuel)) c r st);
             [| intros e y; apply direct_mono; lia | rewrite Hst; discriminate].
           rewrite Hst. cbn [map_step]. apply (loop_mono f2); [lia | exact Hf].
Qed.

Theorem crlf_same s : crlf_ok (run_fuel s) s = true -> tokenize (crlf s) = tokenize s.
Proof.
  intros Hok. unfold tokenize, tokenize_fuel. fold (run_fuel s). fold (run_fuel (crlf s)).
  destruct (loop_adequate (run_fuel s) s state0 [] ltac:(unfold run_fuel; lia)) as [x Hx].
  destruct (crlf_loop _ _ _ _ _ Hok Hx) as [f2 Hf].
  destruct (loop_adequate (run_fuel (crlf s)) (crlf s) state0 [] ltac:(unfold run_fuel; lia)) as [y Hy].
  rewrite (loop_agree _ _ _ _ _ _ _ Hy Hf) in Hy. rewrite Hx, Hy. reflexivity.
Qed.
