(** * C16, part 3: assembling a class adds no need (and captures no [ABC]) *)
From Coq Require Import List String Bool Arith Lia.
From MambaModel Require Import model.Core gen.Names model.Convert proofs.ConvertProps proofs.ImportsProps
  proofs.ImportsNeeds.
Import ListNotations.
Local Open Scope string_scope.
Local Open Scope list_scope.

Lemma hm_insert_inv k v m e : In e (hm_insert k v m) -> e = (k, v) \/ In e m.
Proof.
  induction m as [|[k0 v0] r IH]; cbn [hm_insert].
  - intros [H|[]]. left. symmetry. exact H.
  - destruct (key_eqb k k0).
    + intros [H|H]; [left; symmetry; exact H | right; right; exact H].
    + intros [H|H]; [right; left; exact H|]. destruct (IH H) as [H'|H']; [left; exact H' | right; right; exact H'].
Qed.

Lemma hm_get_in k m v : hm_get k m = Some v -> exists k', In (k', v) m.
Proof.
  induction m as [|[k0 v0] r IH]; cbn [hm_get]; [discriminate|].
  destruct (key_eqb k k0).
  - intros E. inversion E. subst. exists k0. left. reflexivity.
  - intros H. destruct (IH H) as [k' Hk]. exists k'. right. exact Hk.
Qed.

Lemma stmt_entry_stmt i s : snd (snd (stmt_entry i s)) = s.
Proof. destruct s; reflexivity. Qed.

Lemma body_entries_in stmts : forall i m e,
  In e (body_entries i stmts m) -> In e m \/ In (snd (snd e)) stmts.
Proof.
  induction stmts as [|s r IH]; intros i m e; cbn [body_entries]; [auto|].
  pose proof (stmt_entry_stmt i s) as Hs. destruct (stmt_entry i s) as [k v]. cbn [snd] in Hs.
  intros H. destruct (IH _ _ _ H) as [H'|H']; [|right; right; exact H'].
  destruct (hm_insert_inv _ _ _ _ H') as [->|H'']; [|left; exact H''].
  right. left. cbn [snd]. symmetry. exact Hs.
Qed.

Lemma insert_by_pos_in e l x : In x (insert_by_pos e l) <-> x = e \/ In x l.
Proof.
  induction l as [|y r IH]; cbn [insert_by_pos In].
  - split; [intros [H|[]]; left; symmetry; exact H | intros [H|[]]; left; symmetry; exact H].
  - destruct (pos_ltb (fst e) (fst y)); cbn [In]; [|rewrite IH]; split; intros H;
      repeat (destruct H as [H|H]); auto.
Qed.

Lemma sort_by_pos_in l x : In x (sort_by_pos l) <-> In x l.
Proof.
  unfold sort_by_pos. induction l as [|y r IH]; cbn [fold_right In]; [tauto|].
  rewrite insert_by_pos_in, IH. split; intros [H|H]; auto.
Qed.

Lemma call_need_init : call_need (Id n_init) = []. Proof. reflexivity. Qed.
Lemma call_need_range : call_need (Id n_range) = []. Proof. reflexivity. Qed.
Lemma call_need_slice : call_need (Id n_slice) = []. Proof. reflexivity. Qed.

Lemma parent_init_needs p : incl (needs (fst (parent_init p))) (needs p).
Proof.
  assert (G : forall lit arg, incl (flat_map needs arg) (needs p) ->
              incl (needs (PropertyCall (Id lit) (FunctionCall (Id n_init) (Id n_self_ :: arg)))) (needs p)).
  { intros lit arg H. cbn [needs flat_map app]. rewrite call_need_init. exact H. }
  unfold parent_init.
  destruct p; try (cbn [fst]; apply G; intros n []).
  - (* FunctionCall *)
    match goal with |- context [FunctionCall ?f ?a] => rename f into fn; rename a into ar end.
    assert (Har : incl (flat_map needs ar) (needs (FunctionCall fn ar))).
    { cbn [needs]. apply incl_appr, incl_appr, incl_refl. }
    destruct fn; cbn [fst]; apply G; exact Har.
Qed.

Lemma block_stmts_needs b : incl (flat_map needs (block_stmts b)) (needs b).
Proof.
  destruct b; cbn [block_stmts flat_map]; try (rewrite app_nil_r; apply incl_refl).
  apply incl_refl.
Qed.

Lemma class_init_needs old args ps f :
  class_init old args ps = Some f ->
  incl (needs f) (oneeds needs old ++ flat_map needs args ++ flat_map needs ps).
Proof.
  unfold class_init. set (L := oneeds needs old ++ flat_map needs args ++ flat_map needs ps).
  assert (Hpi : incl (flat_map needs (map fst (map parent_init ps))) L).
  { apply flat_map_incl. intros x Hx. apply in_map_iff in Hx. destruct Hx as [pi [<- Hpi]].
    apply in_map_iff in Hpi. destruct Hpi as [p [<- Hp]].
    eapply incl_tran; [apply parent_init_needs|]. unfold L. apply incl_appr, incl_appr.
    apply incl_flat_map. exact Hp. }
  match goal with |- (let '(a, s) := ?p in _) = _ -> _ => destruct p as [a0 s0] eqn:Ep end.
  assert (Ha : incl (flat_map needs a0) L /\ incl (flat_map needs s0) L).
  { destruct old as [o|].
    - destruct o; inversion Ep; subst; try (split; [intros n [] | exact Hpi]).
      (* FunDef *)
      split.
      + unfold L. apply incl_appl. cbn [oneeds needs]. apply incl_appr, incl_appl, incl_refl.
      + rewrite flat_map_app. apply incl_app; [exact Hpi|].
        eapply incl_tran; [apply block_stmts_needs|]. unfold L. apply incl_appl. cbn [oneeds needs].
        apply incl_appr, incl_appr, incl_appr, incl_refl.
    - inversion Ep; subst. split; [|exact Hpi]. unfold L. apply incl_appr, incl_appl, incl_refl. }
  destruct Ha as [Ha Hs]. cbv zeta.
  set (vars := flat_map (fun a => match a with FunArg _ var _ _ => [var] | _ => [] end) args).
  set (fresh := filter _ vars).
  assert (Hv : forall v, In v vars -> incl (needs v) L).
  { intros v Hv. unfold vars in Hv. apply in_flat_map in Hv. destruct Hv as [a [Ha' Hv]].
    destruct a; try contradiction. destruct Hv as [<-|[]].
    unfold L. apply incl_appr, incl_appl. eapply incl_tran; [|apply incl_flat_map; exact Ha'].
    cbn [needs]. apply incl_appl, incl_refl. }
  destruct (s0 ++ map _ fresh) as [|x r] eqn:Es; [discriminate|]. intros E. inversion E. subst f. clear E.
  cbn [needs flat_map oneeds app]. apply incl_app.
  - (* arguments *)
    match goal with |- context [if ?b then _ else _] => destruct b end; [exact Ha|].
    cbn [flat_map needs app]. exact Ha.
  - change (needs x ++ flat_map needs r) with (flat_map needs (x :: r)).
    rewrite <- Es, flat_map_app. apply incl_app; [exact Hs|].
    apply flat_map_incl. intros y Hy. apply in_map_iff in Hy. destruct Hy as [v [<- Hv']].
    unfold fresh in Hv'. apply filter_In in Hv'. destruct Hv' as [Hv' _].
    cbn [needs app]. apply incl_app; [apply Hv; exact Hv' | apply Hv; exact Hv'].
Qed.

Lemma parent_name_ok p x : parent_name p = Some x -> head_ok p -> parent_need x = [] /\ incl (needs x) (needs p).
Proof.
  destruct p; cbn [parent_name]; try discriminate.
  - (* FunctionCall *)
    match goal with |- context [FunctionCall ?f ?a] => destruct f; try discriminate end.
    intros E Hh. inversion E; subst. cbn [head_ok] in Hh. split; [|intros n []].
    cbn [parent_need]. destruct (String.eqb_spec lit "ABC"); [contradiction | reflexivity].
  - intros E _. inversion E; subst. split; [reflexivity | apply incl_refl].
Qed.

(** the statements of an assembled class come from the body, the synthesised constructor or [pass];
    its parent names are the parents' *)
Lemma assemble_class_needs stmts args ps pn bs :
  assemble_class stmts args ps = Some (pn, bs) -> Forall head_ok ps ->
  flat_map parent_need pn = [] /\
  incl (flat_map needs pn) (flat_map needs ps) /\
  incl (flat_map needs bs) (flat_map needs stmts ++ flat_map needs args ++ flat_map needs ps).
Proof.
  unfold assemble_class. set (L := flat_map needs stmts ++ flat_map needs args ++ flat_map needs ps).
  set (m := body_entries 0 stmts []).
  assert (Hm : forall e, In e m -> incl (needs (snd (snd e))) L).
  { intros e He. destruct (body_entries_in _ _ _ _ He) as [[]|H].
    unfold L. apply incl_appl. apply incl_flat_map. exact H. }
  set (old := match hm_get (Id n_init) m with Some (_, f) => Some f | None => None end).
  assert (Hold : incl (oneeds needs old) L).
  { unfold old. destruct (hm_get (Id n_init) m) as [[p f]|] eqn:Eg; [|intros n []].
    destruct (hm_get_in _ _ _ Eg) as [k' Hk]. exact (Hm _ Hk). }
  set (m' := match class_init old args ps with Some _ => _ | None => m end).
  assert (Hm' : forall e, In e m' -> incl (needs (snd (snd e))) L).
  { unfold m'. destruct (class_init old args ps) as [ni|] eqn:Ei; [|exact Hm].
    intros e He. destruct (hm_insert_inv _ _ _ _ He) as [->|H]; [|exact (Hm _ H)].
    cbn [snd]. eapply incl_tran; [apply (class_init_needs _ _ _ _ Ei)|].
    apply incl_app; [exact Hold|]. unfold L. apply incl_appr, incl_refl. }
  cbv zeta. destruct (existsb _ (map parent_name ps)) eqn:Ee; [discriminate|].
  intros E Hh. inversion E. subst pn bs. clear E. split; [|split].
  - (* no parent name is a captured ABC *)
    apply incl_l_nil. apply flat_map_incl. intros x Hx. apply in_flat_map in Hx. destruct Hx as [o [Ho Hx]].
    destruct o as [y|]; [|contradiction]. destruct Hx as [<-|[]].
    apply in_map_iff in Ho. destruct Ho as [p [Hp Hin]]. rewrite Forall_forall in Hh.
    destruct (parent_name_ok _ _ Hp (Hh _ Hin)) as [-> _]. apply incl_refl.
  - apply flat_map_incl. intros x Hx. apply in_flat_map in Hx. destruct Hx as [o [Ho Hx]].
    destruct o as [y|]; [|contradiction]. destruct Hx as [<-|[]].
    apply in_map_iff in Ho. destruct Ho as [p [Hp Hin]]. rewrite Forall_forall in Hh.
    destruct (parent_name_ok _ _ Hp (Hh _ Hin)) as [_ Hn].
    eapply incl_tran; [exact Hn | apply incl_flat_map; exact Hin].
  - assert (Hsorted : incl (flat_map needs (map snd (sort_by_pos (map snd m')))) L).
    { apply flat_map_incl. intros s Hs. apply in_map_iff in Hs. destruct Hs as [v [<- Hv]].
      apply (proj1 (sort_by_pos_in _ _)) in Hv. apply in_map_iff in Hv. destruct Hv as [e [<- He]]. exact (Hm' _ He). }
    destruct (map snd (sort_by_pos (map snd m'))); [cbn [flat_map needs app]; intros n [] | exact Hsorted].
Qed.
