(** * C16, part 4: the two inductions over [conv]

    [conv_steps]  - the import record changes only through [add_import] / [add_from_import]
                    (hence: it only grows, and it stays well formed);
    [conv_covers] - what the converted tree needs is provided by the resulting record. *)
From Coq Require Import List String Bool Arith Lia.
From MambaModel Require Import model.Core gen.Names model.Convert proofs.ConvUnfold proofs.ConvertProps
  proofs.ConvertSim proofs.ImportsProps proofs.ImportsNeeds proofs.ImportsClass.
Import ListNotations.
Local Open Scope string_scope.
Local Open Scope list_scope.

Ltac szl :=
  try match goal with Hn : S _ <= S _ |- _ => cbn [sizeo sizes sizesp fst snd] in Hn end;
  cbn [sizeo sizes sizesp fst snd]; lia.

(** ** Every step of the import record is an [add_import] or an [add_from_import] *)
Section Steps.
  Variable R : imports -> imports -> Prop.
  Hypothesis R_refl : forall i, R i i.
  Hypothesis R_trans : forall i j k, R i j -> R j k -> R i k.
  Hypothesis R_add : forall s i, R i (add_import s i).
  Hypothesis R_from : forall f n i, R i (add_from_import f n i).

  Definition mstep {X} (m : M X) : Prop := forall i x j, m i = Some (x, j) -> R i j.

  Lemma mstep_ret {X} (x : X) : mstep (ret x).
  Proof. intros i y j E. inversion E. apply R_refl. Qed.
  Lemma mstep_fail {X} : mstep (@fail X).
  Proof. intros i y j E. discriminate E. Qed.
  Lemma mstep_bind {X Y} (m : M X) (k : X -> M Y) : mstep m -> (forall x, mstep (k x)) -> mstep (bind m k).
  Proof.
    intros Hm Hk i y j E. unfold bind in E. destruct (m i) as [[x i1]|] eqn:Em; [|discriminate].
    eapply R_trans; [exact (Hm _ _ _ Em) | exact (Hk _ _ _ _ E)].
  Qed.
  Lemma mstep_touch_add s : mstep (touch (add_import s)).
  Proof. intros i y j E. inversion E. apply R_add. Qed.
  Lemma mstep_touch_from f n : mstep (touch (add_from_import f n)).
  Proof. intros i y j E. inversion E. apply R_from. Qed.
  Lemma mstep_lift {X} (f : imports -> X * imports) : (forall i, R i (snd (f i))) -> mstep (lift f).
  Proof.
    intros H i y j E. unfold lift in E. specialize (H i). destruct (f i) as [y' j']. inversion E; subst. exact H.
  Qed.

  Lemma mstep_mmap {X Y} (f : X -> M Y) l : (forall x, In x l -> mstep (f x)) -> mstep (mmap f l).
  Proof.
    induction l as [|x l IH]; intros H; cbn [mmap]; [apply mstep_ret|].
    apply mstep_bind; [apply H; left; reflexivity|]. intros c.
    apply mstep_bind; [apply IH; intros z Hz; apply H; right; exact Hz|]. intros cs. apply mstep_ret.
  Qed.
  Lemma mstep_mfiltermap {X Y} (g : X -> M (option Y)) l : (forall x, In x l -> mstep (g x)) -> mstep (mfiltermap g l).
  Proof.
    induction l as [|x l IH]; intros H; cbn [mfiltermap]; [apply mstep_ret|].
    apply mstep_bind; [apply H; left; reflexivity|]. intros c.
    apply mstep_bind; [apply IH; intros z Hz; apply H; right; exact Hz|]. intros cs. apply mstep_ret.
  Qed.
  Lemma mstep_mopt {X Y} (f : X -> M Y) o : (forall x, o = Some x -> mstep (f x)) -> mstep (mopt f o).
  Proof.
    intros H. destruct o as [x|]; cbn [mopt]; [|apply mstep_ret].
    apply mstep_bind; [apply H; reflexivity|]. intros c. apply mstep_ret.
  Qed.

  Lemma R_nms gs : Forall (fun g => forall i, R i (snd (nm_to_py g i))) gs -> forall i, R i (snd (nms_to_py gs i)).
  Proof.
    induction 1 as [|g gs Hg _ IH]; intros i; [apply R_refl|].
    cbn [nms_to_py]. fold nms_to_py. specialize (Hg i). destruct (nm_to_py g i) as [c i'].
    specialize (IH i'). destruct (nms_to_py gs i') as [cs i'']. cbn [snd] in *. eapply R_trans; eassumption.
  Qed.
  Lemma R_tns ts : Forall (fun t => forall i, R i (snd (tn_to_py t i))) ts -> forall i, R i (snd (tns_to_py ts i)).
  Proof.
    induction 1 as [|g gs Hg _ IH]; intros i; [apply R_refl|].
    cbn [tns_to_py]. fold tns_to_py. specialize (Hg i). destruct (tn_to_py g i) as [c i'].
    specialize (IH i'). destruct (tns_to_py gs i') as [cs i'']. cbn [snd] in *. eapply R_trans; eassumption.
  Qed.

  Lemma R_variant name gs :
    Forall (fun g => forall i, R i (snd (nm_to_py g i))) gs -> forall i, R i (snd (tn_variant name gs i)).
  Proof.
    intros H i. unfold tn_variant. destruct (String.eqb name n_tuple_m).
    - cbv zeta. pose proof (R_nms gs H (add_from_import "typing" n_tuple_py i)) as K.
      destruct (nms_to_py gs _) as [g2 i2]. cbn [snd] in *. eapply R_trans; [apply R_from | exact K].
    - destruct (String.eqb name n_callable_m).
      + cbv zeta. set (i1 := add_from_import "typing" n_callable_py i).
        assert (Hi1 : R i i1) by apply R_from. destruct gs as [|a [|r rest]].
        * exact Hi1.
        * inversion H as [|? ? Ha _]; subst. specialize (Ha i1). destruct (nm_to_py a i1) as [ca i2].
          cbn [snd] in *. eapply R_trans; eassumption.
        * inversion H as [|? ? Ha Hrest]; subst. inversion Hrest as [|? ? Hr _]; subst.
          specialize (Ha i1). destruct (nm_to_py a i1) as [ca i2]. specialize (Hr i2).
          destruct (nm_to_py r i2) as [cr i3]. cbn [snd] in *.
          eapply R_trans; [exact Hi1|]. eapply R_trans; eassumption.
      + cbv zeta. set (i1 := if String.eqb name n_any_m then _ else i).
        assert (Hi1 : R i i1) by (subst i1; destruct (String.eqb name n_any_m); [apply R_from | apply R_refl]).
        pose proof (R_nms gs H i1) as K. destruct (nms_to_py gs i1) as [g2 i2]. cbn [snd] in *.
        eapply R_trans; eassumption.
  Qed.

  Lemma R_nm : forall n i, R i (snd (nm_to_py n i)).
  Proof.
    apply (nm_ind2 (fun n => forall i, R i (snd (nm_to_py n i))) (fun t => forall i, R i (snd (tn_to_py t i)))).
    - intros ms H i. rewrite nm_to_py_unfold. destruct ms as [|t [|t2 r]].
      + apply R_refl.
      + inversion H; subst. auto.
      + cbv zeta. pose proof (R_tns _ H (add_from_import "typing" n_union_py i)) as K.
        destruct (tns_to_py (t :: t2 :: r) _) as [gs i2]. cbn [snd] in *. eapply R_trans; [apply R_from | exact K].
    - intros b name gs H i. rewrite tn_to_py_variant. destruct b; [|apply R_variant; exact H].
      cbv zeta. pose proof (R_variant name gs H (add_from_import "typing" "Optional" i)) as K.
      destruct (tn_variant name gs _) as [c i2]. cbn [snd] in *. eapply R_trans; [apply R_from | exact K].
  Qed.
  Lemma R_tn t i : R i (snd (tn_to_py t i)).
  Proof. pose proof (R_nm (NM [t]) i) as H. rewrite nm_to_py_unfold in H. exact H. Qed.

  Lemma mstep_opt_nm o : mstep (opt_nm_to_py o).
  Proof.
    destruct o as [n|]; cbn [opt_nm_to_py]; [|apply mstep_ret]. apply mstep_lift. intros i.
    pose proof (R_nm n i) as H. destruct (nm_to_py n i). exact H.
  Qed.

  Lemma smap_R (f : core -> imports -> core * imports) l :
    (forall y, In y l -> forall s, R s (snd (f y s))) -> forall s, R s (snd (smap f l s)).
  Proof.
    induction l as [|x l IH]; intros H s; [apply R_refl|]. cbn [smap].
    pose proof (H x (or_introl eq_refl) s) as Hx. destruct (f x s) as [y s1].
    specialize (IH (fun z Hz => H z (or_intror Hz)) s1). destruct (smap f l s1) as [ys s2].
    cbn [snd] in *. eapply R_trans; eassumption.
  Qed.
  Lemma smap_last_R (f : core -> imports -> core * imports) l :
    (forall y, In y l -> forall s, R s (snd (f y s))) -> forall s, R s (snd (smap_last f l s)).
  Proof.
    induction l as [|x l IH]; intros H s; [apply R_refl|]. cbn [smap_last]. destruct l as [|x2 l].
    - pose proof (H x (or_introl eq_refl) s) as Hx. destruct (f x s) as [y s1]. exact Hx.
    - specialize (IH (fun z Hz => H z (or_intror Hz)) s). destruct (smap_last f (x2 :: l) s) as [ys s1]. exact IH.
  Qed.

  Lemma assign_leaf_R t n c i : R i (snd (assign_leaf t n c i)).
  Proof.
    unfold assign_leaf. destruct (skip_assign c); [apply R_refl|]. destruct n as [n|]; [|apply R_refl].
    pose proof (R_nm n i) as H. destruct (nm_to_py n i). exact H.
  Qed.

  Lemma append_assign_R_n k : forall t n c i, csize c <= k -> R i (snd (append_assign t n c i)).
  Proof.
    induction k as [|k IH]; intros t n c i Hk; [destruct c; cbn in Hk; lia|].
    assert (Hl : forall l, csizes l <= k -> forall y, In y l -> forall s, R s (snd (append_assign t n y s))).
    { intros l Hs y Hy s. apply IH. pose proof (csizes_in y l Hy). lia. }
    destruct c;
      try (match goal with |- R i (snd (append_assign t n ?c i)) =>
             change (append_assign t n c i) with (assign_leaf t n c i); apply assign_leaf_R end);
      cbn [csize] in Hk; fold (csizes) in Hk.
    - match goal with |- context [Block ?l] => destruct l as [|x l'] end; [apply R_refl|].
      rewrite append_assign_block.
      assert (Hs : csizes (x :: l') <= k) by (unfold csizes; cbn [fold_right] in *; lia).
      pose proof (smap_last_R (append_assign t n) (x :: l') (Hl _ Hs) i) as Hi.
      destruct (smap_last (append_assign t n) (x :: l') i) as [sts' i']. exact Hi.
    - cbn [append_assign]. pose proof (IH t n c2 i ltac:(lia)) as I1.
      destruct (append_assign t n c2 i) as [t' i1]. pose proof (IH t n c3 i1 ltac:(lia)) as I2.
      destruct (append_assign t n c3 i1) as [e' i2]. cbn [snd] in *. eapply R_trans; eassumption.
    - cbn [append_assign]. assert (Hs : csizes cases <= k) by (unfold csizes; lia).
      pose proof (smap_R (append_assign t n) cases (Hl _ Hs) i) as Hi.
      destruct (smap (append_assign t n) cases i) as [cs i']. exact Hi.
    - cbn [append_assign]. pose proof (IH t n c2 i ltac:(lia)) as I1.
      destruct (append_assign t n c2 i) as [b' i1]. exact I1.
    - cbn [append_assign]. pose proof (IH t n c i ltac:(lia)) as I1.
      destruct (append_assign t n c i) as [a' i1].
      assert (Hs : csizes except <= k) by (unfold csizes; lia).
      pose proof (smap_R (append_assign t n) except (Hl _ Hs) i1) as Hi.
      destruct (smap (append_assign t n) except i1) as [ex' i2]. cbn [snd] in *. eapply R_trans; eassumption.
    - cbn [append_assign]. pose proof (IH t n c3 i ltac:(lia)) as I1.
      destruct (append_assign t n c3 i) as [b' i1]. exact I1.
    - cbn [append_assign]. pose proof (IH t n c2 i ltac:(lia)) as I1.
      destruct (append_assign t n c2 i) as [b' i1]. exact I1.
  Qed.

  Lemma mstep_post st c : mstep (post st c).
  Proof.
    unfold post. apply mstep_bind; [|intros c1; apply mstep_ret].
    destruct (assign_to st) as [[t n]|]; [|apply mstep_ret]. apply mstep_lift. intros i.
    apply (append_assign_R_n (csize c)). lia.
  Qed.

  Ltac ms1 Hone Hlist Hopt :=
    first
      [ apply mstep_ret | apply mstep_fail | apply mstep_touch_add | apply mstep_touch_from
      | apply mstep_opt_nm
      | (apply mstep_lift; intros ?; first [apply R_nm | apply R_tn])
      | (apply Hone; szl) | (apply Hlist; szl) | (apply Hopt; szl)
      | (apply mstep_bind; [|intros ?])
      | match goal with |- mstep (match ?x with _ => _ end) => destruct x end
      | match goal with |- mstep (if ?b then _ else _) => destruct b end ].
  Ltac ms Hone Hlist Hopt := repeat ms1 Hone Hlist Hopt.

  Lemma conv_steps_n : forall n a, size a <= n -> forall st, mstep (conv a st).
  Proof.
    induction n as [|n IH]; intros a Hn st; [destruct a; rewrite size_unfold in Hn; lia|].
    rewrite conv_eq. destruct a as [aty nd]. rewrite size_unfold in Hn.
    assert (Hone : forall x s, size x <= n -> mstep (conv x s)) by (intros x s Hx; apply IH; exact Hx).
    assert (Hlist : forall l s, sizes l <= n -> mstep (mmap (fun x => conv x s) l)).
    { intros l s Hl. apply mstep_mmap. intros x Hx. apply Hone. pose proof (sizes_in x l Hx). lia. }
    assert (Hopt : forall o s, sizeo o <= n -> mstep (mopt (fun x => conv x s) o)).
    { intros o s Ho. apply mstep_mopt. intros x ->. apply Hone. exact Ho. }
    cbv zeta. apply mstep_bind; [|intros c; apply mstep_post].
    destruct nd; try solve [ms Hone Hlist Hopt].
    - (* NMatch *)
      apply mstep_bind; [apply Hone; szl|]. intros ce.
      apply mstep_bind; [|intros cs; apply mstep_ret].
      apply mstep_mfiltermap. intros x Hx. pose proof (sizes_in x cases Hx) as Hsx.
      destruct x as [xty xn]. destruct xn; try apply mstep_ret.
      destruct cond as [cty cn]. destruct cn; try apply mstep_ret.
      rewrite !size_unfold in Hsx.
      apply mstep_bind; [apply Hone; lia|]. intros pe.
      apply mstep_bind; [apply Hone; lia|]. intros pb. apply mstep_ret.
    - (* NHandle *)
      assert (He : size e <= n) by lia.
      assert (Hcs : sizes cases <= n) by lia.
      apply mstep_bind.
      { destruct e as [ety en]. destruct en; try apply mstep_ret. rewrite size_unfold in He.
        apply mstep_bind; [apply mstep_opt_nm|]. intros t.
        apply mstep_bind; [apply Hone; lia|]. intros v. apply mstep_ret. }
      intros vt. apply mstep_bind; [apply Hone; lia|]. intros at_.
      apply mstep_bind; [|intros ex; apply mstep_ret].
      apply mstep_mmap. intros x Hx. pose proof (sizes_in x cases Hx) as Hsx.
      destruct x as [xty xn]. destruct xn; try apply mstep_fail.
      destruct cond as [cty cn]. destruct cn; try apply mstep_fail.
      destruct ety as [cty'|]; [|apply mstep_fail].
      rewrite !size_unfold in Hsx.
      apply mstep_bind; [apply Hone; lia|]. intros id.
      apply mstep_bind; [apply mstep_lift; intros ?; apply R_nm|]. intros cl.
      apply mstep_bind; [apply Hone; lia|]. intros b. apply mstep_ret.
    - (* NDict *)
      apply mstep_bind; [|intros kvs; apply mstep_ret].
      apply mstep_mmap. intros kv Hkv. pose proof (sizesp_in kv elements Hkv) as Hs.
      apply mstep_bind; [apply Hone; lia|]. intros ck.
      apply mstep_bind; [apply Hone; lia|]. intros cv. apply mstep_ret.
  Qed.

  Theorem conv_steps a st i c j : conv a st i = Some (c, j) -> R i j.
  Proof. apply (conv_steps_n (size a) a (le_n _) st). Qed.
End Steps.

(** ** The import record only grows, and stays well formed *)

Theorem conv_monotone a st i c j n :
  typing_sep i -> provides i n -> conv a st i = Some (c, j) -> provides j n.
Proof.
  intros Hs Hp E.
  pose proof (conv_steps ile ile_refl ile_trans add_import_ile add_from_import_ile a st i c j E) as H.
  apply H; assumption.
Qed.

Theorem conv_sep a st i c j : typing_sep i -> conv a st i = Some (c, j) -> typing_sep j.
Proof.
  intros Hs E.
  pose proof (conv_steps ile ile_refl ile_trans add_import_ile add_from_import_ile a st i c j E) as H.
  apply H; assumption.
Qed.

Theorem conv_wf a st i c j : wf i -> conv a st i = Some (c, j) -> wf j.
Proof.
  intros Hw E.
  apply (conv_steps (fun i j => wf i -> wf j)
           (fun _ H => H) (fun _ _ _ H1 H2 H => H2 (H1 H))
           (fun s i => add_import_wf s i) (fun f n i => add_from_import_wf f n i) a st i c j E Hw).
Qed.

(** ** Coverage *)

Definition mcov {X} (L : list need) (m : M X) (nd : X -> list need) (V : X -> Prop) : Prop :=
  forall i x j, typing_sep i -> covers i L -> m i = Some (x, j) ->
    ile i j /\ covers j (nd x) /\ V x.

Lemma mcov_ret {X} L (x : X) nd (V : X -> Prop) : incl (nd x) L -> V x -> mcov L (ret x) nd V.
Proof.
  intros Hi Hv i y j Hs Hc E. inversion E; subst. split; [apply ile_refl|]. split; [|exact Hv].
  eapply covers_incl; eassumption.
Qed.
Lemma mcov_fail {X} L nd (V : X -> Prop) : mcov L fail nd V.
Proof. intros i y j _ _ E. discriminate E. Qed.
Lemma mcov_bind {X Y} L (m : M X) (k : X -> M Y) nd1 (V1 : X -> Prop) nd2 (V2 : Y -> Prop) :
  mcov L m nd1 V1 -> (forall x, V1 x -> mcov (nd1 x ++ L) (k x) nd2 V2) -> mcov L (bind m k) nd2 V2.
Proof.
  intros Hm Hk i y j Hs Hc E. unfold bind in E. destruct (m i) as [[x i1]|] eqn:Em; [|discriminate].
  destruct (Hm _ _ _ Hs Hc Em) as (K1 & K2 & K3).
  assert (Hs1 : typing_sep i1) by (apply K1; exact Hs).
  assert (Hc1 : covers i1 (nd1 x ++ L)).
  { apply covers_app. split; [exact K2 | eapply covers_mono; eassumption]. }
  destruct (Hk x K3 _ _ _ Hs1 Hc1 E) as (M1 & M2 & M3).
  split; [eapply ile_trans; eassumption|]. split; assumption.
Qed.
Lemma mcov_weaken {X} L L' (m : M X) nd (V : X -> Prop) : incl L L' -> mcov L m nd V -> mcov L' m nd V.
Proof. intros Hi Hm i x j Hs Hc E. apply (Hm i x j Hs); [eapply covers_incl; eassumption | exact E]. Qed.

Lemma mcov_touch_add L s : mcov L (touch (add_import s)) (fun _ => [PlainImport s]) (fun _ => True).
Proof.
  intros i x j Hs Hc E. inversion E; subst. split; [apply add_import_ile|]. split; [|exact I].
  intros n [<-|[]]. apply add_import_provides.
Qed.
Lemma mcov_touch_from L f x : mcov L (touch (add_from_import f x)) (fun _ => [FromImport f x]) (fun _ => True).
Proof.
  intros i y j Hs Hc E. inversion E; subst. split; [apply add_from_import_ile|]. split; [|exact I].
  intros n [<-|[]]. apply add_from_import_provides.
Qed.
Lemma mcov_lift {X} L (f : imports -> X * imports) nd (V : X -> Prop) : pcov f nd V -> mcov L (lift f) nd V.
Proof.
  intros H i x j Hs Hc E. unfold lift in E. specialize (H i Hs). destruct (f i) as [x' j']. inversion E; subst. exact H.
Qed.
Lemma mcov_opt_nm L o : onm_ok o = true -> mcov L (opt_nm_to_py o) (oneeds needs) (fun _ => True).
Proof.
  intros Ho. destruct o as [n|]; cbn [opt_nm_to_py]; [|apply mcov_ret; [intros x [] | exact I]].
  intros i x j Hs Hc E. unfold lift in E. destruct (nm_cov n Ho i Hs) as (K1 & K2 & _).
  destruct (nm_to_py n i) as [c i']. inversion E; subst. cbn [fst snd oneeds] in *. auto.
Qed.

Definition oV {X} (V : X -> Prop) (o : option X) : Prop := match o with Some x => V x | None => True end.

Lemma mcov_mmap {X Y} L (f : X -> M Y) l nd (V : Y -> Prop) :
  (forall x, In x l -> mcov L (f x) nd V) -> mcov L (mmap f l) (flat_map nd) (Forall V).
Proof.
  induction l as [|x l IH]; intros H; cbn [mmap]; [apply mcov_ret; [intros n [] | constructor]|].
  eapply mcov_bind; [apply H; left; reflexivity|]. intros c Hc.
  eapply mcov_bind.
  { eapply mcov_weaken; [|apply IH; intros z Hz; apply H; right; exact Hz]. apply incl_appr, incl_refl. }
  intros cs Hcs. apply mcov_ret; [|constructor; assumption].
  cbn [flat_map]. apply incl_app; [apply incl_appr, incl_appl, incl_refl | apply incl_appl, incl_refl].
Qed.
Lemma mcov_mfiltermap {X Y} L (g : X -> M (option Y)) l nd (V : Y -> Prop) :
  (forall x, In x l -> mcov L (g x) (oneeds nd) (oV V)) -> mcov L (mfiltermap g l) (flat_map nd) (Forall V).
Proof.
  induction l as [|x l IH]; intros H; cbn [mfiltermap]; [apply mcov_ret; [intros n [] | constructor]|].
  eapply mcov_bind; [apply H; left; reflexivity|]. intros c Hc.
  eapply mcov_bind.
  { eapply mcov_weaken; [|apply IH; intros z Hz; apply H; right; exact Hz]. apply incl_appr, incl_refl. }
  intros cs Hcs. destruct c as [y|]; cbn [oneeds oV] in *.
  - apply mcov_ret; [|constructor; assumption].
    cbn [flat_map]. apply incl_app; [apply incl_appr, incl_appl, incl_refl | apply incl_appl, incl_refl].
  - apply mcov_ret; [apply incl_appl, incl_refl | exact Hcs].
Qed.
Lemma mcov_mopt {X Y} L (f : X -> M Y) o nd (V : Y -> Prop) :
  (forall x, o = Some x -> mcov L (f x) nd V) -> mcov L (mopt f o) (oneeds nd) (oV V).
Proof.
  intros H. destruct o as [x|]; cbn [mopt]; [|apply mcov_ret; [intros n [] | exact I]].
  eapply mcov_bind; [apply H; reflexivity|]. intros c Hc. apply mcov_ret; [apply incl_appl, incl_refl | exact Hc].
Qed.

(** the pending assignment target of a state is covered, and its annotation reserved-free *)
Definition tgt_ok (a : option (core * option nm)) (L : list need) : Prop :=
  match a with Some (t, name) => incl (needs t) L /\ onm_ok name = true | None => True end.
Lemma tgt_ok_incl a L L' : incl L L' -> tgt_ok a L -> tgt_ok a L'.
Proof.
  intros Hi. destruct a as [[t n]|]; cbn [tgt_ok]; [|auto]. intros [H1 H2]. split; [|exact H2].
  eapply incl_tran; eassumption.
Qed.

Lemma mcov_post st L (r : M core) :
  tgt_ok (assign_to st) L -> mcov L r needs head_ok -> mcov L (bind r (post st)) needs head_ok.
Proof.
  intros Ht Hr. eapply mcov_bind; [exact Hr|]. intros c Hc. unfold post.
  eapply mcov_bind with (nd1 := needs) (V1 := head_ok).
  - destruct (assign_to st) as [[t n]|]; [|apply mcov_ret; [apply incl_appl, incl_refl | exact Hc]].
    cbn [tgt_ok] in Ht. destruct Ht as [Ht Hn].
    intros i x j Hs Hcv E. unfold lift in E.
    assert (H1 : incl (needs t) (needs c ++ L)) by (apply incl_appr; exact Ht).
    assert (H2 : incl (needs c) (needs c ++ L)) by (apply incl_appl, incl_refl).
    destruct (append_assign_cov (needs c ++ L) t n c Hn H1 H2 i Hs Hcv) as [K1 K2].
    pose proof (append_assign_head t n c i Hc) as K3.
    destruct (append_assign t n c i) as [c' i']. inversion E; subst. cbn [fst snd] in *. auto.
  - intros c1 Hc1. destruct (last_ret st).
    + apply mcov_ret; [|apply head_append_ret; exact Hc1].
      eapply incl_tran; [apply needs_append_ret | apply incl_appl, incl_refl].
    + apply mcov_ret; [apply incl_appl, incl_refl | exact Hc1].
Qed.

Lemma rf_ty e : reserved_free e = true -> onm_ok (ast_ty e) = true.
Proof. destruct e as [ty n]. rewrite rf_unfold. intros H. apply andb_prop in H. exact (proj1 H). Qed.

Lemma flat_map_none (l : list core) : flat_map needs (map (fun _ : core => None_) l) = [].
Proof. induction l as [|x l IH]; [reflexivity|]. cbn [map flat_map needs app]. exact IH. Qed.

Lemma dec_need_abs : dec_need "abstractmethod" = [FromImport "abc" "abstractmethod"].
Proof. reflexivity. Qed.
Lemma parent_need_abc : parent_need (Id "ABC") = [FromImport "abc" "ABC"].
Proof. reflexivity. Qed.
Lemma call_need_newtype : call_need (Id "NewType") = [FromImport "typing" "NewType"].
Proof. reflexivity. Qed.
Lemma call_need_type lit g : call_need (Type_ lit g) = [].
Proof. reflexivity. Qed.

Ltac abc_contra Hlit E :=
  match goal with H : abc_ok _ = true |- _ =>
    unfold abc_ok in H; rewrite (Hlit E) in H; cbv in H; discriminate H end.

Ltac rfsplit := repeat match goal with H : _ && _ = true |- _ => apply andb_prop in H; destruct H end.

Ltac nincl :=
  cbv beta;
  cbn [needs oneeds flat_map app un_need fst snd bin_core un_core];
  rewrite ?call_need_range, ?call_need_slice, ?call_need_newtype, ?call_need_type, ?dec_need_abs, ?flat_map_none, ?app_nil_r;
  let n := fresh "n" in let H := fresh "H" in
  intros n H; rewrite ?in_app_iff in H; rewrite ?in_app_iff; cbn [In] in H; cbn [In]; tauto.

Ltac tok :=
  cbn [assign_to with_last_ret with_assign with_tup_lit with_expand with_remove_ret with_interface with_def_as_fun_arg];
  first [ exact I
        | (eapply tgt_ok_incl; [|eassumption]; nincl) ].

Ltac cv1 Hone Hlist Hopt :=
  first
    [ apply mcov_fail
    | match goal with |- mcov _ (match ?x with _ => _ end) _ _ => destruct x end
    | match goal with |- mcov _ (if ?b then _ else _) _ _ => destruct b end
    | match goal with |- mcov _ (ret (if ?b then _ else _)) _ _ => destruct b end
    | (apply mcov_ret; [nincl | exact I])
    | (eapply mcov_bind; [apply Hone; [szl | assumption | tok] | intros ? ?])
    | (eapply mcov_bind; [apply Hlist; [szl | assumption | tok] | intros ? ?])
    | (eapply mcov_bind; [apply Hopt; [szl | assumption | tok] | intros ? ?])
    | (eapply mcov_bind; [apply mcov_touch_add | intros ? _])
    | (eapply mcov_bind; [apply mcov_touch_from | intros ? _])
    | (eapply mcov_bind; [apply mcov_opt_nm; assumption | intros ? _])
    | (eapply mcov_bind; [apply mcov_lift; apply nm_cov; assumption | intros ? ?])
    | (apply Hone; [szl | assumption | tok]) ].
Ltac cv Hone Hlist Hopt := repeat cv1 Hone Hlist Hopt.

Definition Pcov (a : ast) : Prop :=
  forall st L, reserved_free a = true -> tgt_ok (assign_to st) L -> mcov L (conv a st) needs head_ok.

Lemma conv_covers_n : forall n a, size a <= n -> Pcov a.
Proof.
  induction n as [|n IH]; intros a Hn; [destruct a; rewrite size_unfold in Hn; lia|].
  intros st L Hrf Htok. rewrite conv_eq. destruct a as [aty nd]. rewrite size_unfold in Hn.
  rewrite rf_unfold in Hrf. apply andb_prop in Hrf. destruct Hrf as [Haty Hrf].
  assert (Hone : forall x s L, size x <= n -> reserved_free x = true -> tgt_ok (assign_to s) L ->
                   mcov L (conv x s) needs head_ok)
    by (intros x s L0 Hx Hr Ht; apply (IH x Hx s L0 Hr Ht)).
  assert (Hlist : forall l s L, sizes l <= n -> forallb reserved_free l = true -> tgt_ok (assign_to s) L ->
                    mcov L (mmap (fun x => conv x s) l) (flat_map needs) (Forall head_ok)).
  { intros l s L0 Hl Hr Ht. apply mcov_mmap. intros x Hx. apply Hone; [|exact (proj1 (forallb_forall _ _) Hr x Hx) | exact Ht].
    pose proof (sizes_in x l Hx). lia. }
  assert (Hopt : forall o s L, sizeo o <= n -> rfo o = true -> tgt_ok (assign_to s) L ->
                   mcov L (mopt (fun x => conv x s) o) (oneeds needs) (oV head_ok)).
  { intros o s L0 Ho Hr Ht. apply mcov_mopt. intros x ->. apply Hone; assumption. }
  cbv zeta. apply mcov_post; [exact Htok|].
  destruct nd; rfsplit; try solve [cv Hone Hlist Hopt].
  - (* NBin *)
    cv Hone Hlist Hopt. destruct o; (apply mcov_ret; [nincl | exact I]).
  - (* NRange *)
    rename incl into inc.
    eapply mcov_bind; [apply Hone; [szl | assumption | tok] | intros cf Hcf].
    eapply mcov_bind; [apply Hone; [szl | assumption | tok] | intros ct Hct].
    eapply mcov_bind with (nd1 := needs) (V1 := head_ok).
    { destruct step as [s|]; [apply Hone; [szl | assumption | tok] | apply mcov_ret; [nincl | exact I]]. }
    intros cs Hcs. destruct inc; (apply mcov_ret; [nincl | exact I]).
  - (* NSlice *)
    rename incl into inc.
    eapply mcov_bind; [apply Hone; [szl | assumption | tok] | intros cf Hcf].
    eapply mcov_bind; [apply Hone; [szl | assumption | tok] | intros ct Hct].
    eapply mcov_bind with (nd1 := needs) (V1 := head_ok).
    { destruct step as [s|]; [apply Hone; [szl | assumption | tok] | apply mcov_ret; [nincl | exact I]]. }
    intros cs Hcs. destruct inc; (apply mcov_ret; [nincl | exact I]).
  - (* NCall *)
    eapply mcov_bind; [apply mcov_lift; apply tn_cov; assumption | intros f (lit & g & -> & Hlit)].
    eapply mcov_bind; [apply Hlist; [szl | assumption | tok] | intros cs Hcs].
    apply mcov_ret; [nincl|]. cbn [head_ok]. intros E. abc_contra Hlit E.
  - (* NVarDef *)
    eapply mcov_bind; [apply Hone; [szl | assumption | tok] | intros v Hv].
    eapply mcov_bind with (nd1 := oneeds needs) (V1 := fun _ => True).
    { destruct (annotate _ && expand_ty _ && negb (is_tuple_literal v)); [|apply mcov_ret; [nincl | exact I]].
      destruct vty as [t|]; [apply mcov_opt_nm; assumption|].
      destruct expr as [e|]; [apply mcov_opt_nm; apply rf_ty; assumption | apply mcov_ret; [nincl | exact I]]. }
    intros ty _. destruct (def_as_fun_arg _).
    + cv Hone Hlist Hopt.
    + destruct expr as [e|].
      * eapply mcov_bind; [apply Hone; [szl | assumption | tok] | intros c Hc].
        rewrite branch_match. destruct (is_branching c).
        -- apply Hone; [szl | assumption |]. cbn [assign_to with_assign tgt_ok].
           split; [nincl | apply rf_ty; assumption].
        -- apply mcov_ret; [nincl | exact I].
      * destruct v; (apply mcov_ret; [nincl | exact I]).
  - (* NFunDef *)
    eapply mcov_bind; [apply Hlist; [szl | assumption | tok] | intros arg Harg].
    eapply mcov_bind with (nd1 := oneeds needs) (V1 := fun _ => True).
    { destruct (annotate _); [apply mcov_opt_nm; assumption | apply mcov_ret; [nincl | exact I]]. }
    intros ty _.
    eapply mcov_bind with (nd1 := fun d : list string * core => flat_map dec_need (fst d) ++ needs (snd d))
                          (V1 := fun _ => True).
    { destruct (interface _ && _).
      - eapply mcov_bind; [apply mcov_touch_from | intros ? _]. apply mcov_ret; [nincl | exact I].
      - destruct body as [b|]; [|apply mcov_ret; [nincl | exact I]].
        eapply mcov_bind; [apply Hone; [szl | assumption | tok] | intros c Hc]. apply mcov_ret; [nincl | exact I]. }
    intros d _.
    eapply mcov_bind; [apply Hone; [szl | assumption | tok] | intros cid Hcid].
    destruct cid; try apply mcov_fail. destruct (funop_of lit); (apply mcov_ret; [nincl | exact I]).
  - (* NFunArg *)
    eapply mcov_bind; [apply Hone; [szl | assumption | tok] | intros v Hv].
    eapply mcov_bind with (nd1 := oneeds needs) (V1 := fun _ => True).
    { destruct (annotate _ && expand_ty _ && negb (is_self v));
        [apply mcov_opt_nm; assumption | apply mcov_ret; [nincl | exact I]]. }
    intros ty _. cv Hone Hlist Hopt.
  - (* NMatch *)
    eapply mcov_bind; [apply Hone; [szl | assumption | tok] | intros ce Hce].
    eapply mcov_bind with (nd1 := flat_map needs) (V1 := Forall head_ok).
    { apply mcov_mfiltermap. intros x Hx. pose proof (sizes_in x cases Hx) as Hsx.
      match goal with Hf : forallb reserved_free cases = true |- _ =>
        pose proof (proj1 (forallb_forall _ _) Hf x Hx) as Hrx end.
      destruct x as [xty xn]. destruct xn; try (apply mcov_ret; [nincl | exact I]).
      destruct cond as [cty cn]. destruct cn; try (apply mcov_ret; [nincl | exact I]).
      rewrite !size_unfold in Hsx. rewrite !rf_unfold in Hrx. rfsplit.
      eapply mcov_bind; [apply Hone; [lia | assumption | tok] | intros pe Hpe].
      eapply mcov_bind; [apply Hone; [lia | assumption | tok] | intros pb Hpb].
      apply mcov_ret; [nincl | exact I]. }
    intros cs Hcs. apply mcov_ret; [nincl | exact I].
  - (* NHandle *)
    assert (He : size e <= n) by lia.
    assert (Hcs : sizes cases <= n) by lia.
    eapply mcov_bind with
      (nd1 := fun vt : option core * option core => oneeds needs (fst vt) ++ oneeds needs (snd vt))
      (V1 := fun _ => True).
    { destruct e as [ety en]. destruct en; try (apply mcov_ret; [nincl | exact I]).
      rewrite size_unfold in He.
      match goal with Hr : reserved_free (A _ _) = true |- _ => rewrite rf_unfold in Hr end. rfsplit.
      eapply mcov_bind; [apply mcov_opt_nm; assumption | intros t _].
      eapply mcov_bind; [apply Hone; [lia | assumption | tok] | intros v Hv].
      apply mcov_ret; [nincl | exact I]. }
    intros vt _.
    eapply mcov_bind; [apply Hone; [lia | assumption | tok] | intros at_ Hat].
    eapply mcov_bind with (nd1 := flat_map needs) (V1 := Forall head_ok).
    { apply mcov_mmap. intros x Hx. pose proof (sizes_in x cases Hx) as Hsx.
      match goal with Hf : forallb reserved_free cases = true |- _ =>
        pose proof (proj1 (forallb_forall _ _) Hf x Hx) as Hrx end.
      destruct x as [xty xn]. destruct xn; try apply mcov_fail.
      destruct cond as [cty cn]. destruct cn; try apply mcov_fail.
      destruct ety as [cty'|]; [|apply mcov_fail].
      rewrite !size_unfold in Hsx. rewrite !rf_unfold in Hrx. rfsplit.
      eapply mcov_bind; [apply Hone; [lia | assumption | tok] | intros id Hid].
      eapply mcov_bind; [apply mcov_lift; apply nm_cov; assumption | intros cl Hcl].
      eapply mcov_bind.
      { apply Hone; [lia | assumption |]. cbn [assign_to with_assign].
        destruct (fst vt) as [v|]; cbn [tgt_ok]; [|exact I]. split; [nincl | apply rf_ty; assumption]. }
      intros b Hb. destruct id; (apply mcov_ret; [nincl | exact I]). }
    intros ex Hex. destruct (fst vt); (apply mcov_ret; [nincl | exact I]).
  - (* NClass *)
    eapply mcov_bind; [apply Hlist; [szl | assumption | tok] | intros ps Hps].
    eapply mcov_bind; [apply Hopt; [szl | assumption | tok] | intros b Hb].
    eapply mcov_bind; [apply Hlist; [szl | assumption | tok] | intros ca Hca].
    cbv zeta. destruct (assemble_class _ ca ps) as [[pn bs]|] eqn:Ea; [|apply mcov_fail].
    destruct (assemble_class_needs _ _ _ _ _ Ea Hps) as (A1 & A2 & A3).
    assert (Hst : List.incl (flat_map needs (match b with Some x => block_stmts x | None => [] end)) (oneeds needs b))
      by (destruct b; [apply block_stmts_needs | intros ? []]).
    eapply mcov_bind; [apply mcov_lift; apply tn_cov; assumption | intros t (lit & g & -> & _)].
    apply mcov_ret; [|exact I]. cbn [needs]. rewrite A1. cbn [app].
    intros q Hx. pose proof (A2 q) as A2x. pose proof (A3 q) as A3x. pose proof (Hst q) as Hstx.
    rewrite ?in_app_iff in Hx. rewrite ?in_app_iff in A3x. rewrite ?in_app_iff. tauto.
  - (* NParent *)
    eapply mcov_bind; [apply mcov_lift; apply tn_cov; assumption | intros t (lit & g & -> & Hlit)].
    destruct args as [|a0 args'].
    + apply mcov_ret; [nincl | exact I].
    + eapply mcov_bind; [apply Hlist; [szl | assumption | tok] | intros cs Hcs].
      apply mcov_ret; [nincl|]. cbn [head_ok]. intros E. abc_contra Hlit E.
  - (* NTypeDef *)
    eapply mcov_bind with (nd1 := flat_map needs) (V1 := Forall head_ok).
    { destruct isa as [n0|]; [|apply mcov_ret; [nincl | constructor]].
      eapply mcov_bind; [apply mcov_lift; apply nm_cov; assumption | intros t Ht].
      apply mcov_ret; [nincl | constructor; [destruct t; try contradiction; exact I | constructor]]. }
    intros ps Hps.
    eapply mcov_bind; [apply Hopt; [szl | assumption | tok] | intros b Hb].
    cbv zeta. destruct (assemble_class _ [] ps) as [[pn bs]|] eqn:Ea; [|apply mcov_fail].
    destruct (assemble_class_needs _ _ _ _ _ Ea Hps) as (A1 & A2 & A3).
    assert (Hst : List.incl (flat_map needs (match b with Some x => block_stmts x | None => [] end)) (oneeds needs b))
      by (destruct b; [apply block_stmts_needs | intros ? []]).
    eapply mcov_bind with (nd1 := fun l : list core => flat_map parent_need l ++ flat_map needs l)
                          (V1 := fun _ => True).
    { destruct abstract_parent.
      - apply mcov_ret; [|exact I]. rewrite A1. cbn [app].
        intros q Hx. pose proof (A2 q) as A2x. rewrite ?in_app_iff. tauto.
      - eapply mcov_bind; [apply mcov_touch_from | intros ? _]. apply mcov_ret; [|exact I].
        rewrite !flat_map_app, A1. cbn [flat_map needs app]. rewrite parent_need_abc. cbv beta.
        intros q Hx. pose proof (A2 q) as A2x. rewrite ?in_app_iff in Hx. cbn [In] in Hx.
        repeat first [rewrite in_app_iff | progress cbn [In]]. tauto. }
    intros pn' _.
    eapply mcov_bind; [apply mcov_lift; apply tn_cov; assumption | intros t (lit & g & -> & _)].
    apply mcov_ret; [|exact I]. cbn [needs].
    intros q Hx. pose proof (A3 q) as A3x. pose proof (Hst q) as Hstx.
    rewrite ?in_app_iff in Hx. cbn [In] in Hx. rewrite ?in_app_iff in A3x. cbn [flat_map In] in A3x.
    rewrite ?in_app_iff. tauto.
  - (* NDict *)
    eapply mcov_bind.
    { eapply (mcov_mmap L _ elements (fun kv : core * core => needs (fst kv) ++ needs (snd kv)) (fun _ => True)).
      intros kv Hkv. pose proof (sizesp_in kv elements Hkv) as Hs.
      match goal with Hf : forallb _ elements = true |- _ =>
        pose proof (proj1 (forallb_forall _ _) Hf kv Hkv) as Hrx end.
      cbv beta in Hrx. rfsplit.
      eapply mcov_bind; [apply Hone; [lia | assumption | tok] | intros ck Hck].
      eapply mcov_bind; [apply Hone; [lia | assumption | tok] | intros cv0 Hcv].
      apply mcov_ret; [nincl | exact I]. }
    intros kvs _. apply mcov_ret; [nincl | exact I].
  - (* NListBuilder *)
    eapply mcov_bind; [apply Hone; [szl | assumption | tok] | intros e He].
    destruct conds as [|col rest]; [apply mcov_fail|].
    match goal with Hf : forallb reserved_free (_ :: _) = true |- _ => cbn [forallb] in Hf end. rfsplit.
    cv Hone Hlist Hopt.
  - (* NSetBuilder *)
    eapply mcov_bind; [apply Hone; [szl | assumption | tok] | intros e He].
    destruct conds as [|col rest]; [apply mcov_fail|].
    match goal with Hf : forallb reserved_free (_ :: _) = true |- _ => cbn [forallb] in Hf end. rfsplit.
    cv Hone Hlist Hopt.
  - (* NDictBuilder *)
    eapply mcov_bind; [apply Hone; [szl | assumption | tok] | intros f Hf0].
    eapply mcov_bind; [apply Hone; [szl | assumption | tok] | intros t Ht0].
    destruct conds as [|col rest]; [apply mcov_fail|].
    match goal with Hf : forallb reserved_free (_ :: _) = true |- _ => cbn [forallb] in Hf end. rfsplit.
    cv Hone Hlist Hopt.
Qed.

Theorem conv_covers_all a : Pcov a.
Proof. apply (conv_covers_n (size a)). lia. Qed.
