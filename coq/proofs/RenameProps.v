(** * Renaming commutes with the desugaring (C15)

    [conv] is equivariant under every injective renaming that fixes the names of [reserved]:
    one step per node kind through [conv_eq], as in [ConvertSim.sim_n], with the relation
    "the renamed run returns the renamed result and the same registered imports". *)
From Coq Require Import List String Bool Arith Lia.
From MambaModel Require Import model.Core gen.Names model.Convert model.Rename
  proofs.ConvUnfold proofs.ConvertProps.
Import ListNotations.
Local Open Scope string_scope.

(** ** Table lookups *)
Lemma lookup_some_in k (tbl : list (string * string)) v :
  lookup k tbl = Some v -> In k (map fst tbl) /\ In v (map snd tbl).
Proof.
  induction tbl as [|[k' v'] r IH]; [discriminate|]. cbn [lookup map fst snd In].
  destruct (String.eqb_spec k k') as [->|N].
  - intros E. inversion E; subst. split; left; reflexivity.
  - intros E. destruct (IH E). split; right; assumption.
Qed.
Lemma lookup_in_some k (tbl : list (string * string)) :
  In k (map fst tbl) -> exists v, lookup k tbl = Some v.
Proof.
  induction tbl as [|[k' v'] r IH]; [intros []|]. cbn [lookup map fst In].
  destruct (String.eqb_spec k k') as [->|N]; [eexists; reflexivity|].
  intros [E|H]; [congruence | apply IH, H].
Qed.

Lemma in_consts s : In s reserved_consts -> In s reserved.
Proof. intros H. unfold reserved. rewrite !in_app_iff. tauto. Qed.
Lemma in_dunder s : In s (map snd dunder) -> In s reserved.
Proof. intros H. unfold reserved. rewrite !in_app_iff. tauto. Qed.
Lemma in_funop o : In (funop_name o) reserved.
Proof.
  unfold reserved. rewrite !in_app_iff. right. right. right. left. apply in_map.
  destruct o; cbn [all_funops In]; tauto.
Qed.
Lemma in_py_dom s : In s (map fst renamed_rows) -> In s reserved.
Proof. intros H. unfold reserved. rewrite !in_app_iff. tauto. Qed.
Lemma in_py_ran s : In s (map snd renamed_rows) -> In s reserved.
Proof. intros H. unfold reserved. rewrite !in_app_iff. tauto. Qed.

(** a name is rewritten by the table only if a spelling-changing row starts with it *)
Lemma lookup_in_rows k (tbl : list (string * string)) v : lookup k tbl = Some v -> In (k, v) tbl.
Proof.
  induction tbl as [|[k' v'] r IH]; [discriminate|]. cbn [lookup In].
  destruct (String.eqb_spec k k') as [->|N]; [intros E; inversion E; left; reflexivity | intros E; right; apply IH, E].
Qed.
Lemma c2p_changes s : concrete_to_python s <> s ->
  In s (map fst renamed_rows) /\ In (concrete_to_python s) (map snd renamed_rows).
Proof.
  unfold concrete_to_python. destruct (lookup s py_names) as [p|] eqn:E; [|congruence]. intros N.
  assert (Hin : In (s, p) renamed_rows).
  { unfold renamed_rows. apply filter_In. split; [apply lookup_in_rows, E|]. cbn [fst snd].
    destruct (String.eqb_spec s p); [congruence | reflexivity]. }
  split; [apply (in_map fst _ _ Hin) | apply (in_map snd _ _ Hin)].
Qed.

Ltac in_list := cbn [In reserved_consts]; repeat (first [left; reflexivity | right]).
Ltac inres := apply in_consts; in_list.

(** the hypotheses on a renaming, as a class so that later files pick them up from the context *)
Class Good (rho : string -> string) : Prop := { Hinj : injective rho; Hfix : fixes rho reserved }.

Section Equivariance.
  Context {rho : string -> string} {rfs : string -> string} {G : Good rho}.

  Notation ren := (ren_core rho rfs).
  Notation rena := (ren_ast rho rfs).
  Notation rnm := (ren_nm rho).
  Notation rtn := (ren_tn rho).
  Notation ronm := (ren_onm rho).
  Notation rst := (ren_state rho rfs).

  (** a fixed name is hit by no other name *)
  Lemma eqb_fixed s d : In d reserved -> String.eqb (rho s) d = String.eqb s d.
  Proof.
    intros Hd. destruct (String.eqb_spec s d) as [->|N].
    - rewrite (Hfix d Hd). apply String.eqb_refl.
    - apply String.eqb_neq. intros E. apply N, Hinj. rewrite E. symmetry. apply Hfix, Hd.
  Qed.
  Lemma eqb_inj a b : String.eqb (rho a) (rho b) = String.eqb a b.
  Proof.
    destruct (String.eqb_spec a b) as [->|N]; [apply String.eqb_refl|].
    apply String.eqb_neq. intros E. apply N, Hinj, E.
  Qed.
  Lemma into_reserved s : In (rho s) reserved -> rho s = s.
  Proof. intros H. f_equal. apply Hinj. symmetry. pose proof (Hfix _ H). congruence. Qed.

  Lemma c2p_ren s : concrete_to_python (rho s) = rho (concrete_to_python s).
  Proof.
    destruct (String.string_dec (concrete_to_python s) s) as [Es|Ns].
    - (* [s] is not rewritten; then neither is [rho s], or [rho s] would be reserved, hence [s] *)
      rewrite Es. destruct (String.string_dec (concrete_to_python (rho s)) (rho s)) as [Er|Nr]; [exact Er|].
      destruct (c2p_changes _ Nr) as [Hk _]. pose proof (into_reserved s (in_py_dom _ Hk)) as Hs.
      rewrite Hs in Nr. contradiction.
    - destruct (c2p_changes _ Ns) as [Hk Hv].
      rewrite (Hfix s (in_py_dom _ Hk)). symmetry. apply Hfix, in_py_ran, Hv.
  Qed.

  Lemma funop_of_ren s : funop_of (rho s) = funop_of s.
  Proof.
    assert (His : forall k,
      match lookup k dunder with Some d => String.eqb (rho s) d | None => false end
      = match lookup k dunder with Some d => String.eqb s d | None => false end).
    { intros k. destruct (lookup k dunder) as [d|] eqn:E; [|reflexivity].
      apply eqb_fixed, in_dunder, (lookup_some_in _ _ _ E). }
    unfold funop_of. rewrite !His. reflexivity.
  Qed.

  (** ** Shapes are preserved *)
  Lemma is_tuple_literal_ren c : is_tuple_literal (ren c) = is_tuple_literal c.
  Proof. destruct c; reflexivity. Qed.
  Lemma is_branching_ren c :
    match ren c with IfElse _ _ _ | Match _ _ => true | _ => false end
    = match c with IfElse _ _ _ | Match _ _ => true | _ => false end.
  Proof. destruct c; try reflexivity. Qed.
  Lemma skip_return_ren c : skip_return (ren c) = skip_return c.
  Proof. destruct c; try reflexivity. Qed.
  Lemma skip_assign_ren c : skip_assign (ren c) = skip_assign c.
  Proof. unfold skip_assign. rewrite skip_return_ren. destruct c; reflexivity. Qed.
  Lemma is_self_ren c : is_self (ren c) = is_self c.
  Proof. destruct c; try reflexivity. cbn [ren_core is_self]. apply eqb_fixed. inres. Qed.
  Lemma is_newtype_ren c : is_newtype (ren c) = is_newtype c.
  Proof. destruct c; try reflexivity. cbn [ren_core is_newtype]. apply eqb_fixed. inres. Qed.

  Lemma ren_call f args : is_newtype f = false -> ren (FunctionCall f args) = FunctionCall (ren f) (map ren args).
  Proof. intros H. cbn [ren_core]. rewrite H. destruct args as [|[] r]; reflexivity. Qed.

  Lemma key_eqb_ren a b : key_eqb (ren a) (ren b) = key_eqb a b.
  Proof.
    destruct a; try reflexivity; destruct b; try reflexivity; cbn [ren_core key_eqb]; apply eqb_inj.
  Qed.
  Lemma shallow_eqb_ren a b : core_eqb_shallow (ren a) (ren b) = core_eqb_shallow a b.
  Proof.
    destruct a; try reflexivity; destruct b; try reflexivity; cbn [ren_core core_eqb_shallow]; apply eqb_inj.
  Qed.
End Equivariance.
