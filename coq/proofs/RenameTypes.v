(** * Renaming and the parts of the generator around [conv]: registered imports, rendering of
      types, insertion of returns and assignments *)
From Coq Require Import List String Bool Arith Lia.
From MambaModel Require Import model.Core gen.Names model.Convert model.Rename
  proofs.ConvertProps proofs.RenameProps.
Import ListNotations.
Local Open Scope string_scope.

Section Types.
  Context {rho : string -> string} {rfs : string -> string} {G : Good rho}.
  Notation ren := (ren_core rho rfs).
  Notation rnm := (ren_nm rho).
  Notation rtn := (ren_tn rho).
  Notation rnames := (ren_names rho rfs).

  (** ** Registered imports: every name in them is fixed by the renaming *)
  Definition iok (i : imports) : Prop :=
    map ren (imps i) = imps i /\
    option_map rnames (typing_imps i) = typing_imps i /\
    map (fun kv : string * (list core * list core) => (fst kv, rnames (snd kv))) (other_from i) = other_from i.

  Lemma iok_ren_imports i : iok i -> ren_imports rho rfs i = i.
  Proof. intros (H1 & H2 & H3). destruct i as [a b c]. unfold ren_imports. cbn [imps typing_imps other_from] in *. congruence. Qed.
  Lemma iok0 : iok imports0.
  Proof. repeat split. Qed.

  Lemma add_import_iok name i : rho name = name -> iok i -> iok (add_import name i).
  Proof.
    intros Hn (H1 & H2 & H3). unfold add_import. destruct (existsb _ _); [repeat split; assumption|].
    repeat split; cbn [imps typing_imps other_from]; try assumption.
    rewrite map_app, H1. cbn [map ren_core]. rewrite Hn. reflexivity.
  Qed.

  Lemma insert_sorted_fixed x l : rho x = x -> map ren l = l -> map ren (insert_sorted_id x l) = insert_sorted_id x l.
  Proof.
    intros Hx. induction l as [|y r IH]; intros Hl; cbn [insert_sorted_id map ren_core]; [rewrite Hx; reflexivity|].
    cbn [map] in Hl. inversion Hl as [[Hy Hr]]. rewrite Hy, Hr.
    destruct y; cbn [map]; try (rewrite Hy, (IH Hr); reflexivity).
    cbn [ren_core] in Hy. injection Hy as Hlit.
    destruct (str_ltb x lit); cbn [map ren_core].
    - rewrite Hx, Hr, Hlit. reflexivity.
    - rewrite (IH Hr), Hlit. reflexivity.
  Qed.

  Lemma add_name_fixed name v :
    rho name = name -> option_map rnames v = v -> rnames (add_name name v) = add_name name v.
  Proof.
    intros Hn Hv. destruct v as [[names alias]|]; cbn [add_name].
    - cbn [option_map] in Hv. inversion Hv as [[H1 H2]]. unfold ren_names. cbn [fst snd]. rewrite !H1, !H2.
      destruct (existsb _ names); [rewrite H1; reflexivity|]. rewrite insert_sorted_fixed; [reflexivity | exact Hn | exact H1].
    - unfold ren_names. cbn [fst snd map ren_core]. rewrite Hn. reflexivity.
  Qed.

  Lemma map_get_fixed k (m : list (string * (list core * list core))) :
    map (fun kv => (fst kv, rnames (snd kv))) m = m -> option_map rnames (map_get k m) = map_get k m.
  Proof.
    induction m as [|[k' v] r IH]; [reflexivity|]. cbn [map map_get fst snd]. intros H. inversion H as [[Hv Hr]].
    rewrite !Hv, !Hr. destruct (String.eqb k k'); [cbn [option_map]; congruence | apply IH, Hr].
  Qed.
  Lemma map_insert_fixed k v (m : list (string * (list core * list core))) :
    rnames v = v -> map (fun kv => (fst kv, rnames (snd kv))) m = m ->
    map (fun kv => (fst kv, rnames (snd kv))) (map_insert k v m) = map_insert k v m.
  Proof.
    intros Hv. induction m as [|[k' v'] r IH]; cbn [map map_insert fst snd]; [rewrite Hv; reflexivity|].
    intros H. inversion H as [[Hv' Hr]]. rewrite !Hv', !Hr.
    destruct (String.eqb k k'); [cbn [map fst snd]; rewrite Hv, Hr; reflexivity|].
    destruct (str_ltb k k'); cbn [map fst snd]; [rewrite Hv, Hv', Hr; reflexivity|].
    rewrite Hv', (IH Hr). reflexivity.
  Qed.

  Lemma add_from_iok from name i : rho name = name -> iok i -> iok (add_from_import from name i).
  Proof.
    intros Hn (H1 & H2 & H3). unfold add_from_import. destruct (String.eqb from "typing").
    - repeat split; cbn [imps typing_imps other_from]; try assumption.
      cbn [option_map]. f_equal. apply add_name_fixed; assumption.
    - repeat split; cbn [imps typing_imps other_from]; try assumption.
      apply map_insert_fixed; [|exact H3]. apply add_name_fixed; [exact Hn | apply map_get_fixed, H3].
  Qed.

  (** the constants of the generator are fixed *)
  Lemma fx s : In s reserved_consts -> rho s = s.
  Proof. intros H. apply Hfix, in_consts, H. Qed.

  (** ** "the renamed run returns the renamed value and registers the same imports" *)
  Definition sren {X} (f : X -> X) (g' g : imports -> X * imports) : Prop :=
    forall i, g' i = (f (fst (g i)), snd (g i)) /\ (iok i -> iok (snd (g i))).

  Lemma sren_tns ts :
    Forall (fun t => sren ren (tn_to_py (rtn t)) (tn_to_py t)) ts ->
    sren (map ren) (tns_to_py (map rtn ts)) (tns_to_py ts).
  Proof.
    induction 1 as [|t ts Ht _ IH]; intros i; [split; [reflexivity | auto]|].
    cbn [map tns_to_py]. fold tns_to_py. destruct (Ht i) as [E P]. rewrite E.
    destruct (tn_to_py t i) as [c i']. cbn [fst snd] in *.
    destruct (IH i') as [E2 P2]. rewrite E2. destruct (tns_to_py ts i') as [cs i'']. cbn [fst snd map] in *.
    split; [reflexivity | auto].
  Qed.
  Lemma sren_nms gs :
    Forall (fun g => sren ren (nm_to_py (rnm g)) (nm_to_py g)) gs ->
    sren (map ren) (nms_to_py (map rnm gs)) (nms_to_py gs).
  Proof.
    induction 1 as [|g gs Hg _ IH]; intros i; [split; [reflexivity | auto]|].
    cbn [map nms_to_py]. fold nms_to_py. destruct (Hg i) as [E P]. rewrite E.
    destruct (nm_to_py g i) as [c i']. cbn [fst snd] in *.
    destruct (IH i') as [E2 P2]. rewrite E2. destruct (nms_to_py gs i') as [cs i'']. cbn [fst snd map] in *.
    split; [reflexivity | auto].
  Qed.

  Lemma ren_nm_NM ms : rnm (NM ms) = NM (map rtn ms).
  Proof. reflexivity. Qed.
  Lemma ren_tn_TN b s gs : rtn (TN b s gs) = TN b (rho s) (map rnm gs).
  Proof. reflexivity. Qed.

  Lemma nm_ren : forall n, sren ren (nm_to_py (rnm n)) (nm_to_py n).
  Proof.
    apply (nm_ind2 (fun n => sren ren (nm_to_py (rnm n)) (nm_to_py n))
                   (fun t => sren ren (tn_to_py (rtn t)) (tn_to_py t))).
    - intros ms H i. rewrite ren_nm_NM, !nm_to_py_unfold. destruct ms as [|t [|t2 r]].
      + split; [reflexivity | auto].
      + inversion H; subst. cbn [map]. auto.
      + cbv zeta. pose proof (sren_tns _ H (add_from_import "typing" n_union_py i)) as [E P].
        change (map rtn (t :: t2 :: r)) with (rtn t :: rtn t2 :: map rtn r) in E.
        cbn [map]. rewrite E. destruct (tns_to_py (t :: t2 :: r) _) as [gs i2]. cbn [fst snd ren_core] in *.
        rewrite (fx n_union_py) by in_list. split; [reflexivity|].
        intros Hi. apply P, add_from_iok; [apply fx; in_list | exact Hi].
    - intros b name gs H i. rewrite ren_tn_TN, !tn_to_py_unfold. cbv zeta.
      rewrite !eqb_fixed by inres. rewrite c2p_ren.
      pose proof (sren_nms _ H) as Hg.
      assert (Hv : forall j,
        (if String.eqb name n_tuple_m then
           let i1 := add_from_import "typing" n_tuple_py j in
           let '(gs0, i2) := nms_to_py (map rnm gs) i1 in (Type_ n_tuple_py gs0, i2)
         else if String.eqb name n_callable_m then
           let i1 := add_from_import "typing" n_callable_py j in
           match map rnm gs with
           | a :: r :: _ =>
               let '(ca, i2) := nm_to_py a i1 in let '(cr, i3) := nm_to_py r i2 in
               (Type_ n_callable_py [ca; cr], i3)
           | [a] => let '(ca, i2) := nm_to_py a i1 in (Type_ n_callable_py [ca; Empty], i2)
           | [] => (Type_ n_callable_py [Empty; Empty], i1)
           end
         else
           let i1 := if String.eqb name n_any_m then add_from_import "typing" n_any_py j else j in
           let '(gs0, i2) := nms_to_py (map rnm gs) i1 in (Type_ (rho (concrete_to_python name)) gs0, i2))
        = (let v :=
             if String.eqb name n_tuple_m then
               let i1 := add_from_import "typing" n_tuple_py j in
               let '(gs0, i2) := nms_to_py gs i1 in (Type_ n_tuple_py gs0, i2)
             else if String.eqb name n_callable_m then
               let i1 := add_from_import "typing" n_callable_py j in
               match gs with
               | a :: r :: _ =>
                   let '(ca, i2) := nm_to_py a i1 in let '(cr, i3) := nm_to_py r i2 in
                   (Type_ n_callable_py [ca; cr], i3)
               | [a] => let '(ca, i2) := nm_to_py a i1 in (Type_ n_callable_py [ca; Empty], i2)
               | [] => (Type_ n_callable_py [Empty; Empty], i1)
               end
             else
               let i1 := if String.eqb name n_any_m then add_from_import "typing" n_any_py j else j in
               let '(gs0, i2) := nms_to_py gs i1 in (Type_ (concrete_to_python name) gs0, i2) in
           (ren (fst v), snd v))
        /\ (iok j -> iok (snd
             (if String.eqb name n_tuple_m then
               let i1 := add_from_import "typing" n_tuple_py j in
               let '(gs0, i2) := nms_to_py gs i1 in (Type_ n_tuple_py gs0, i2)
             else if String.eqb name n_callable_m then
               let i1 := add_from_import "typing" n_callable_py j in
               match gs with
               | a :: r :: _ =>
                   let '(ca, i2) := nm_to_py a i1 in let '(cr, i3) := nm_to_py r i2 in
                   (Type_ n_callable_py [ca; cr], i3)
               | [a] => let '(ca, i2) := nm_to_py a i1 in (Type_ n_callable_py [ca; Empty], i2)
               | [] => (Type_ n_callable_py [Empty; Empty], i1)
               end
             else
               let i1 := if String.eqb name n_any_m then add_from_import "typing" n_any_py j else j in
               let '(gs0, i2) := nms_to_py gs i1 in (Type_ (concrete_to_python name) gs0, i2))))).
      { intros j. cbv zeta. destruct (String.eqb name n_tuple_m).
        - destruct (Hg (add_from_import "typing" n_tuple_py j)) as [E P]. rewrite E.
          destruct (nms_to_py gs _) as [g2 i2]. cbn [fst snd ren_core] in *.
          rewrite (fx n_tuple_py) by in_list. split; [reflexivity|].
          intros Hj. apply P, add_from_iok; [apply fx; in_list | exact Hj].
        - destruct (String.eqb name n_callable_m).
          + set (j1 := add_from_import "typing" n_callable_py j).
            assert (Hj1 : iok j -> iok j1) by (intros Hj; apply add_from_iok; [apply fx; in_list | exact Hj]).
            destruct gs as [|a [|r rest]]; cbn [map].
            * cbn [fst snd ren_core map]. rewrite (fx n_callable_py) by in_list. split; [reflexivity | exact Hj1].
            * inversion H as [|? ? Ha _]; subst. destruct (Ha j1) as [E P]. rewrite E.
              destruct (nm_to_py a j1) as [ca i2]. cbn [fst snd ren_core map] in *.
              rewrite (fx n_callable_py) by in_list. split; [reflexivity | auto].
            * inversion H as [|? ? Ha Hrest]; subst. inversion Hrest as [|? ? Hr _]; subst.
              destruct (Ha j1) as [E P]. rewrite E. destruct (nm_to_py a j1) as [ca i2]. cbn [fst snd] in *.
              destruct (Hr i2) as [E2 P2]. rewrite E2. destruct (nm_to_py r i2) as [cr i3].
              cbn [fst snd ren_core map] in *. rewrite (fx n_callable_py) by in_list. split; [reflexivity | auto].
          + set (j1 := if String.eqb name n_any_m then _ else j).
            assert (Hj1 : iok j -> iok j1).
            { intros Hj. subst j1. destruct (String.eqb name n_any_m); [|exact Hj].
              apply add_from_iok; [apply fx; in_list | exact Hj]. }
            destruct (Hg j1) as [E P]. rewrite E. destruct (nms_to_py gs j1) as [g2 i2].
            cbn [fst snd ren_core] in *. split; [reflexivity | auto]. }
      destruct b.
      + destruct (Hv (add_from_import "typing" "Optional" i)) as [E P]. cbv zeta in E.
        rewrite E. clear E.
        set (V := if String.eqb name n_tuple_m then _ else _) in *. destruct V as [c i2].
        cbn [fst snd ren_core map] in *. rewrite (fx "Optional") by in_list. split; [reflexivity|].
        intros Hi. apply P, add_from_iok; [apply fx; in_list | exact Hi].
      + destruct (Hv i) as [E P]. cbv zeta in E. split; [exact E | exact P].
  Qed.

  Lemma tn_ren t : sren ren (tn_to_py (rtn t)) (tn_to_py t).
  Proof.
    intros i. pose proof (nm_ren (NM [t]) i) as H. rewrite ren_nm_NM in H. cbn [map] in H. rewrite !nm_to_py_unfold in H. exact H.
  Qed.

  (** a rendered [TrueName] is a [Type_] *)
  Lemma tn_is_type t i : exists lit gs, fst (tn_to_py t i) = Type_ lit gs.
  Proof.
    destruct t as [b name gs]. rewrite tn_to_py_unfold. cbv zeta.
    assert (Hv : forall j, exists lit gs0,
      fst (if String.eqb name n_tuple_m then
             let i1 := add_from_import "typing" n_tuple_py j in
             let '(gs0, i2) := nms_to_py gs i1 in (Type_ n_tuple_py gs0, i2)
           else if String.eqb name n_callable_m then
             let i1 := add_from_import "typing" n_callable_py j in
             match gs with
             | a :: r :: _ =>
                 let '(ca, i2) := nm_to_py a i1 in let '(cr, i3) := nm_to_py r i2 in
                 (Type_ n_callable_py [ca; cr], i3)
             | [a] => let '(ca, i2) := nm_to_py a i1 in (Type_ n_callable_py [ca; Empty], i2)
             | [] => (Type_ n_callable_py [Empty; Empty], i1)
             end
           else
             let i1 := if String.eqb name n_any_m then add_from_import "typing" n_any_py j else j in
             let '(gs0, i2) := nms_to_py gs i1 in (Type_ (concrete_to_python name) gs0, i2)) = Type_ lit gs0).
    { intros j. cbv zeta. destruct (String.eqb name n_tuple_m).
      - destruct (nms_to_py gs _). eexists; eexists; reflexivity.
      - destruct (String.eqb name n_callable_m).
        + destruct gs as [|a [|r rest]].
          * eexists; eexists; reflexivity.
          * destruct (nm_to_py a _). eexists; eexists; reflexivity.
          * destruct (nm_to_py a _). destruct (nm_to_py r _). eexists; eexists; reflexivity.
        + destruct (nms_to_py gs _). eexists; eexists; reflexivity. }
    destruct b; [|apply Hv].
    set (V := if String.eqb name n_tuple_m then _ else _). destruct V as [c i2].
    eexists; eexists; reflexivity.
  Qed.
End Types.
