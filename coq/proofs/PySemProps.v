(** * The statement-level desugarings preserve meaning

    [append_ret] (implicit return of a function's last expression) and [append_assign]
    (definition from an [if]/[match]/[handle] with branches) are correct for EVERY
    statement tree and every instantiation of the expression semantics:
    executing the rewritten statement is executing the original one as an expression
    and returning / binding its value. *)
From Coq Require Import List String Bool Arith Lia.
From MambaModel Require Import model.Core model.Convert model.PySem.
Import ListNotations.

Section Props.
  Variables (value env exn : Type).
  Variable eeval : core -> env -> (value + exn) * env.
  Variable assign : core -> value -> env -> env.
  Variable augment : coreop -> core -> core -> env -> (value + exn) * env.
  Variable truthy : value -> bool.
  Variable vnone : value.
  Variable as_exn : value -> exn.
  Variable iter : value -> list value + exn.
  Variable pmatch : core -> value -> env -> option env.
  Variable catches : core -> exn -> bool.
  Variable bind_exn : core -> exn -> env -> env.
  Variable define : core -> env -> env.
  (** the one fact about expressions that is used: [None] evaluates to the none value *)
  Hypothesis eeval_none : forall e, eeval None_ e = (inl vnone, e).

  Notation outcome := (outcome value env exn).
  Notation voutcome := (voutcome value env exn).
  Notation exec := (exec value env exn eeval assign augment truthy vnone as_exn iter pmatch catches bind_exn define).
  Notation vexec := (vexec value env exn eeval assign augment truthy vnone as_exn iter pmatch catches bind_exn define).
  Notation seq_exec := (seq_exec value env exn).
  Notation vseq := (vseq value env exn).
  Notation pick_case := (pick_case value env exn pmatch).
  Notation vpick_case := (vpick_case value env exn pmatch).
  Notation pick_handler := (pick_handler value env exn catches bind_exn).
  Notation vpick_handler := (vpick_handler value env exn catches bind_exn).
  Notation lift_o := (lift_o value env exn).

  (** what a function call observes of the execution of its body *)
  Inductive fres := FVal (v : value) (e : env) | FExc (x : exn) (e : env) | FBrk (e : env) | FCont (e : env) | FFuel.
  Definition fres_o (o : outcome) : fres :=
    match o with
    | ONormal _ _ _ e => FVal vnone e | OReturn _ _ _ v e => FVal v e | ORaise _ _ _ x e => FExc x e
    | OBreak _ _ _ e => FBrk e | OContinue _ _ _ e => FCont e | OFuel _ _ _ => FFuel
    end.
  Definition fres_v (o : voutcome) : fres :=
    match o with
    | VNormal _ _ _ (Some v) e => FVal v e | VNormal _ _ _ None e => FVal vnone e
    | VReturn _ _ _ v e => FVal v e | VRaise _ _ _ x e => FExc x e
    | VBreak _ _ _ e => FBrk e | VContinue _ _ _ e => FCont e | VFuel _ _ _ => FFuel
    end.

  (** what a definition [def t := <statement>] observes *)
  Definition assign_of (t : core) (o : voutcome) : outcome :=
    match o with
    | VNormal _ _ _ (Some v) e => ONormal _ _ _ (assign t v e)
    | VNormal _ _ _ None e => ONormal _ _ _ e
    | VReturn _ _ _ v e => OReturn _ _ _ v e | VRaise _ _ _ x e => ORaise _ _ _ x e
    | VBreak _ _ _ e => OBreak _ _ _ e | VContinue _ _ _ e => OContinue _ _ _ e | VFuel _ _ _ => OFuel _ _ _
    end.

  (** ** Shapes on which the desugarings are meaningful: every tail position holds an
      expression, a [return] or a [raise] (for [append_assign]: or a definition) *)
  Definition case_ok (P : core -> bool) (k : core) : bool :=
    match k with Case _ b => P b | _ => false end.
  Definition handler_ok (P : core -> bool) (k : core) : bool :=
    match k with Except _ b | ExceptId _ _ b => P b | _ => false end.

  Section Last.
    Variable P : core -> bool.
    Fixpoint last_ok (l : list core) : bool :=
      match l with
      | [] => true
      | x :: r => match r with [] => P x | _ :: _ => last_ok r end
      end.
  End Last.

  Fixpoint tail_ok (leaf : core -> bool) (c : core) {struct c} : bool :=
    match c with
    | Block sts => last_ok (tail_ok leaf) sts
    | IfElse _ t e => tail_ok leaf t && tail_ok leaf e
    | Match _ cases => forallb (fun k => match k with Case _ b => tail_ok leaf b | _ => false end) cases
    | TryExcept _ a ex =>
        tail_ok leaf a
        && forallb (fun k => match k with Except _ b | ExceptId _ _ b => tail_ok leaf b | _ => false end) ex
    | Case _ _ | Except _ _ | ExceptId _ _ _ => false
    | other => leaf other
    end.

  Definition ret_leaf (c : core) : bool := skip_return c || negb (is_statement c).
  Definition assign_leaf_ok (c : core) : bool := skip_assign c || negb (is_statement c).
  Definition ret_ok := tail_ok ret_leaf.
  Definition assign_ok := tail_ok assign_leaf_ok.

  (** ** Leaves *)
  Definition structural (c : core) : bool :=
    match c with
    | Block _ | IfElse _ _ _ | Match _ _ | TryExcept _ _ _ | Case _ _ | Except _ _ | ExceptId _ _ _ => true
    | _ => false
    end.

  Lemma vexec_leaf f c e :
    structural c = false ->
    vexec (S f) c e =
      if is_statement c then lift_o (exec (S f) c e)
      else vbind value env exn (eeval c e) (fun w e1 => VNormal _ _ _ (Some w) e1).
  Proof. destruct c; cbn [structural]; intro H; try discriminate H; reflexivity. Qed.

  Lemma append_ret_leaf c :
    structural c = false -> append_ret c = if skip_return c then c else Un CuReturn c.
  Proof. destruct c; cbn [structural]; intro H; try discriminate H; reflexivity. Qed.

  Lemma tail_ok_leaf leaf c : structural c = false -> tail_ok leaf c = leaf c.
  Proof. destruct c; cbn [structural]; intro H; try discriminate H; reflexivity. Qed.

  Lemma fres_lift o : fres_v (lift_o o) = fres_o o.
  Proof. destruct o; reflexivity. Qed.

  Lemma exec_return f x e :
    exec (S f) (Un CuReturn x) e
    = ebind value env exn (eeval x e) (fun w e1 => OReturn _ _ _ w e1).
  Proof. reflexivity. Qed.

  Lemma ret_leaf_correct f c e :
    structural c = false -> ret_leaf c = true ->
    fres_o (exec (S f) (append_ret c) e) = fres_v (vexec (S f) c e).
  Proof.
    intros Hs Hl. rewrite (append_ret_leaf c Hs), (vexec_leaf f c e Hs).
    destruct (skip_return c) eqn:Hsk.
    - assert (Hst : is_statement c = true).
      { destruct c; try discriminate Hsk. destruct o; try discriminate Hsk; reflexivity. }
      rewrite Hst, fres_lift. reflexivity.
    - unfold ret_leaf in Hl. rewrite Hsk in Hl. cbn in Hl.
      apply negb_true_iff in Hl. rewrite Hl, exec_return.
      destruct (eeval c e) as [[w|ex] e1]; reflexivity.
  Qed.

  (** ** [append_ret] *)
  Lemma seq_replace_last f sts e :
    (forall c e, ret_ok c = true -> fres_o (exec f (append_ret c) e) = fres_v (vexec f c e)) ->
    sts <> [] -> last_ok ret_ok sts = true ->
    fres_o (seq_exec (exec f) (replace_last append_ret sts) e) = fres_v (vseq (exec f) (vexec f) sts e).
  Proof.
    intros IH. revert e. induction sts as [|s r IHr]; intros e Hne Hok; [congruence|].
    destruct r as [|s2 r2].
    - cbn [replace_last seq_exec vseq last_ok] in *.
      rewrite <- (IH s e Hok). destruct (exec f (append_ret s) e); reflexivity.
    - cbn [replace_last seq_exec vseq last_ok] in *.
      destruct (exec f s e) eqn:He; try reflexivity.
      apply IHr; [discriminate|exact Hok].
  Qed.

  Lemma pick_case_ret f w e cases :
    (forall c e, ret_ok c = true -> fres_o (exec f (append_ret c) e) = fres_v (vexec f c e)) ->
    forallb (case_ok ret_ok) cases = true ->
    fres_o (pick_case (exec f) w e (map append_ret cases)) = fres_v (vpick_case (vexec f) w e cases).
  Proof.
    intros IH. induction cases as [|k r IHr]; intro Hok; [reflexivity|].
    cbn [forallb] in Hok. apply andb_true_iff in Hok. destruct Hok as [Hk Hr].
    destruct k; try discriminate Hk. cbn [case_ok] in Hk.
    cbn [map append_ret PySem.pick_case PySem.vpick_case].
    destruct (pmatch k1 w e); [apply IH; exact Hk | apply IHr; exact Hr].
  Qed.

  Lemma pick_handler_ret f x e handlers :
    (forall c e, ret_ok c = true -> fres_o (exec f (append_ret c) e) = fres_v (vexec f c e)) ->
    forallb (handler_ok ret_ok) handlers = true ->
    fres_o (pick_handler (exec f) x e (map append_ret handlers))
    = fres_v (vpick_handler (vexec f) x e handlers).
  Proof.
    intros IH. induction handlers as [|k r IHr]; intro Hok; [reflexivity|].
    cbn [forallb] in Hok. apply andb_true_iff in Hok. destruct Hok as [Hk Hr].
    destruct k; try discriminate Hk; cbn [handler_ok] in Hk;
      cbn [map append_ret PySem.pick_handler PySem.vpick_handler].
    - destruct (catches k2 x); [apply IH; exact Hk | apply IHr; exact Hr].
    - destruct (catches k1 x); [apply IH; exact Hk | apply IHr; exact Hr].
  Qed.

  Lemma forallb_ext_in {X} (p q : X -> bool) l :
    (forall x, p x = q x) -> forallb p l = forallb q l.
  Proof. intro H. induction l as [|x r IH]; cbn; [reflexivity|]. rewrite H, IH. reflexivity. Qed.

  Theorem ret_correct : forall f c e,
    ret_ok c = true -> fres_o (exec f (append_ret c) e) = fres_v (vexec f c e).
  Proof.
    induction f as [|f IH]; intros c e Hok; [reflexivity|].
    destruct (structural c) eqn:Hs.
    2:{ apply ret_leaf_correct; [exact Hs|]. unfold ret_ok in Hok. rewrite tail_ok_leaf in Hok by exact Hs. exact Hok. }
    destruct c; try discriminate Hs; try discriminate Hok.
    - (* Block *)
      destruct statements as [|s r].
      + destruct f as [|f']; [reflexivity|]. cbn. rewrite eeval_none. reflexivity.
      + change (append_ret (Block (s :: r))) with (Block (replace_last append_ret (s :: r))).
        change (fres_o (seq_exec (exec f) (replace_last append_ret (s :: r)) e)
                = fres_v (vseq (exec f) (vexec f) (s :: r) e)).
        apply seq_replace_last; [exact IH|discriminate|exact Hok].
    - (* IfElse *)
      cbn [append_ret]. unfold ret_ok in Hok. cbn [tail_ok] in Hok. apply andb_true_iff in Hok. destruct Hok as [H1 H2].
      cbn [PySem.exec PySem.vexec].
      destruct (eeval c1 e) as [[v|ex] e1]; [|reflexivity]. cbn [ebind vbind].
      destruct (truthy v); apply IH; assumption.
    - (* Match *)
      cbn [append_ret]. unfold ret_ok in Hok. cbn [tail_ok] in Hok.
      cbn [PySem.exec PySem.vexec].
      destruct (eeval c e) as [[v|ex] e1]; [|reflexivity]. cbn [ebind vbind].
      apply pick_case_ret; [exact IH|].
      rewrite <- Hok. apply forallb_ext_in. intros [ ]; reflexivity.
    - (* TryExcept *)
      cbn [append_ret]. unfold ret_ok in Hok. cbn [tail_ok] in Hok. apply andb_true_iff in Hok. destruct Hok as [H1 H2].
      cbn [PySem.exec PySem.vexec].
      destruct (run_setup value env exn (exec f) setup e) eqn:Hsetup; try reflexivity.
      pose proof (IH c e0 H1) as Ha.
      destruct (exec f (append_ret c) e0) eqn:Hx; destruct (vexec f c e0) as [[w|] ? | | | | |] eqn:Hv;
        cbn in Ha; try discriminate Ha; try (injection Ha as -> ->); try (injection Ha as ->); try reflexivity.
      all: try (cbn; congruence).
      apply pick_handler_ret; [exact IH|].
      rewrite <- H2. apply forallb_ext_in. intros [ ]; reflexivity.
  Qed.

  (** ** [append_assign] *)
  Lemma assign_of_lift t o : assign_of t (lift_o o) = o.
  Proof. destruct o; reflexivity. Qed.

  Lemma append_assign_leaf t n c i :
    structural c = false -> append_assign t n c i = assign_leaf t n c i.
  Proof. destruct c; cbn [structural]; intro H; try discriminate H; reflexivity. Qed.

  Lemma assign_leaf_correct f t n c i e :
    structural c = false -> assign_leaf_ok c = true ->
    exec (S f) (fst (assign_leaf t n c i)) e = assign_of t (vexec (S f) c e).
  Proof.
    intros Hs Hl. rewrite (vexec_leaf f c e Hs). unfold assign_leaf.
    destruct (skip_assign c) eqn:Hsk.
    - assert (Hst : is_statement c = true).
      { destruct c; try discriminate Hsk; try reflexivity. destruct o; try discriminate Hsk; reflexivity. }
      rewrite Hst, assign_of_lift. reflexivity.
    - unfold assign_leaf_ok in Hl. rewrite Hsk in Hl. cbn in Hl. apply negb_true_iff in Hl. rewrite Hl.
      destruct n as [n|]; [destruct (nm_to_py n i) as [ty i']|]; cbn [fst PySem.exec];
        destruct (eeval c e) as [[w|ex] e1]; reflexivity.
  Qed.

  Definition AssignIH f := forall t n c i e r,
    assign_ok c = true -> vexec f c e = r -> r <> VFuel _ _ _ ->
    exec f (fst (append_assign t n c i)) e = assign_of t r.

  Lemma seq_assign_last f t n sts : AssignIH f -> forall i e r,
    sts <> [] -> last_ok assign_ok sts = true ->
    vseq (exec f) (vexec f) sts e = r -> r <> VFuel _ _ _ ->
    seq_exec (exec f) (fst (smap_last (append_assign t n) sts i)) e = assign_of t r.
  Proof.
    intros IH. induction sts as [|s r IHr]; intros i e res Hne Hok Hv Hnf; [congruence|].
    destruct r as [|s2 r2].
    - cbn [smap_last vseq last_ok] in *.
      pose proof (IH t n s i e res Hok Hv Hnf) as H.
      destruct (append_assign t n s i) as [s' i']. cbn [fst seq_exec] in *. rewrite H.
      destruct (assign_of t res); reflexivity.
    - cbn [vseq last_ok] in Hv, Hok.
      change (smap_last (append_assign t n) (s :: s2 :: r2) i)
        with (let '(ys, s1) := smap_last (append_assign t n) (s2 :: r2) i in (s :: ys, s1)).
      specialize (IHr i).
      destruct (smap_last (append_assign t n) (s2 :: r2) i) as [ys i1]. cbn [fst seq_exec] in *.
      destruct (exec f s e) eqn:He; try (subst res; reflexivity).
      apply IHr; [discriminate|exact Hok|exact Hv|exact Hnf].
  Qed.

  Lemma pick_case_assign f t n w cases : AssignIH f -> forall i e r,
    forallb (case_ok assign_ok) cases = true ->
    vpick_case (vexec f) w e cases = r -> r <> VFuel _ _ _ ->
    pick_case (exec f) w e (fst (smap (append_assign t n) cases i)) = assign_of t r.
  Proof.
    intros IH. induction cases as [|k r IHr]; intros i e res Hok Hv Hnf.
    - cbn in *. subst res. reflexivity.
    - cbn [forallb] in Hok. apply andb_true_iff in Hok. destruct Hok as [Hk Hr].
      destruct k; try discriminate Hk. cbn [case_ok] in Hk.
      cbn [smap append_assign].
      pose proof (IH t n k2 i) as Hb.
      destruct (append_assign t n k2 i) as [b' i1].
      specialize (IHr i1).
      destruct (smap (append_assign t n) r i1) as [ys i2]. cbn [fst PySem.pick_case] in *.
      cbn [PySem.vpick_case] in Hv.
      destruct (pmatch k1 w e); [apply Hb; assumption | apply IHr; assumption].
  Qed.

  Lemma pick_handler_assign f t n x handlers : AssignIH f -> forall i e r,
    forallb (handler_ok assign_ok) handlers = true ->
    vpick_handler (vexec f) x e handlers = r -> r <> VFuel _ _ _ ->
    pick_handler (exec f) x e (fst (smap (append_assign t n) handlers i)) = assign_of t r.
  Proof.
    intros IH. induction handlers as [|k r IHr]; intros i e res Hok Hv Hnf.
    - cbn in *. subst res. reflexivity.
    - cbn [forallb] in Hok. apply andb_true_iff in Hok. destruct Hok as [Hk Hr].
      destruct k; try discriminate Hk; cbn [handler_ok] in Hk; cbn [smap append_assign].
      + pose proof (IH t n k3 i) as Hb.
        destruct (append_assign t n k3 i) as [b' i1]. specialize (IHr i1).
        destruct (smap (append_assign t n) r i1) as [ys i2]. cbn [fst PySem.pick_handler] in *.
        cbn [PySem.vpick_handler] in Hv.
        destruct (catches k2 x); [apply Hb; assumption | apply IHr; assumption].
      + pose proof (IH t n k2 i) as Hb.
        destruct (append_assign t n k2 i) as [b' i1]. specialize (IHr i1).
        destruct (smap (append_assign t n) r i1) as [ys i2]. cbn [fst PySem.pick_handler] in *.
        cbn [PySem.vpick_handler] in Hv.
        destruct (catches k1 x); [apply Hb; assumption | apply IHr; assumption].
  Qed.

  Theorem assign_correct : forall f, AssignIH f.
  Proof.
    induction f as [|f IH]; intros t n c i e r Hok Hv Hnf; [cbn in Hv; congruence|].
    destruct (structural c) eqn:Hs.
    2:{ subst r. rewrite append_assign_leaf by exact Hs. apply assign_leaf_correct; [exact Hs|].
        unfold assign_ok in Hok. rewrite tail_ok_leaf in Hok by exact Hs. exact Hok. }
    destruct c; try discriminate Hs; try discriminate Hok.
    - (* Block *)
      destruct statements as [|s rest].
      + cbn in Hv. destruct f; [congruence|]. subst r. reflexivity.
      + change (append_assign t n (Block (s :: rest)) i)
          with (let '(sts', i') := smap_last (append_assign t n) (s :: rest) i in (Block sts', i')).
        pose proof (seq_assign_last f t n (s :: rest) IH i e r) as H.
        destruct (smap_last (append_assign t n) (s :: rest) i) as [sts' i']. cbn [fst] in *.
        apply H; [discriminate|exact Hok|exact Hv|exact Hnf].
    - (* IfElse *)
      unfold assign_ok in Hok. cbn [tail_ok] in Hok. apply andb_true_iff in Hok. destruct Hok as [H1 H2].
      cbn [append_assign].
      pose proof (IH t n c2 i) as Ht.
      destruct (append_assign t n c2 i) as [t' i1].
      pose proof (IH t n c3 i1) as He.
      destruct (append_assign t n c3 i1) as [e' i2]. cbn [fst PySem.exec] in *.
      cbn [PySem.vexec] in Hv.
      destruct (eeval c1 e) as [[v|ex] e1]; [|subst r; reflexivity]. cbn [ebind vbind] in *.
      destruct (truthy v); [apply Ht|apply He]; assumption.
    - (* Match *)
      unfold assign_ok in Hok. cbn [tail_ok] in Hok.
      cbn [append_assign].
      pose proof (pick_case_assign f t n) as H.
      destruct (smap (append_assign t n) cases i) as [cs i'] eqn:Hsm. cbn [fst PySem.exec].
      cbn [PySem.vexec] in Hv.
      destruct (eeval c e) as [[v|ex] e1]; [|subst r; reflexivity]. cbn [ebind vbind] in *.
      specialize (H v cases IH i e1 r). rewrite Hsm in H. apply H; [|exact Hv|exact Hnf].
      rewrite <- Hok. apply forallb_ext_in. intros [ ]; reflexivity.
    - (* TryExcept *)
      unfold assign_ok in Hok. cbn [tail_ok] in Hok. apply andb_true_iff in Hok. destruct Hok as [H1 H2].
      cbn [append_assign].
      pose proof (IH t n c i) as Ha.
      destruct (append_assign t n c i) as [a' i1].
      pose proof (fun x e2 => pick_handler_assign f t n x except IH i1 e2) as Hh.
      destruct (smap (append_assign t n) except i1) as [ex' i2]. cbn [fst PySem.exec] in *.
      cbn [PySem.vexec] in Hv.
      destruct (run_setup value env exn (exec f) setup e) eqn:Hsetup;
        try (subst r; reflexivity).
      destruct (vexec f c e0) as [w e2|w e2|x e2|e2|e2|] eqn:Hva.
      all: try (rewrite (Ha e0 _ H1 Hva) by discriminate).
      all: try (subst r; destruct w; reflexivity).
      all: try (subst r; reflexivity).
      + cbn [assign_of]. apply Hh; [|exact Hv|exact Hnf].
        rewrite <- H2. apply forallb_ext_in. intros [ ]; reflexivity.
      + congruence.
  Qed.
End Props.
