(** * Witnesses: where the faithful model of the environment threading fails the properties,
    and the positive halves (C07, C08, C09) *)
From Coq Require Import List Bool Arith PeanoNat Lia.
Import ListNotations.
From MambaModel Require Import model.Scope proofs.ScopeProps.

(** class table used by the witnesses: E1 < Exception *)
Definition ct1 : list (cls * list cls) := [(0, []); (1, [0])].

Ltac inv H := inversion H; subst; clear H.

(** ** C09 *)

(** D12: a top-level call before the definition of the function is accepted *)
Definition p_d12 : stmts :=
  SCons (SSimple (XExpr (ECall 1 ENil)))
  (SCons (SFun 1 [] [] false (SCons (SSimple XPass) SNil)) SNil).

Theorem C09_sound_refuted :
  exists T p e g t o,
    check_program T restored p = Ok (e, g) /\ ssruns T false [] p t o /\
    ~ all_events fread_ok [[]] [] t.
Proof.
  exists (tabs_of ct1 [] [] p_d12), p_d12. eexists. eexists. eexists. eexists.
  split; [vm_compute; reflexivity|]. split.
  - unfold p_d12. eapply RSCons.
    + apply RSimple. apply RXExpr. apply RCall. apply RENil.
    + eapply RSCons; [apply RFunSkip|apply RSNil].
  - cbn. intros [[] _].
Qed.

(** D13: "defined on all paths" is not enough for the checker *)
Definition p_d13 : stmts :=
  SCons (SIfElse EConst (SCons (SSimple (XDef true [1] (Some EConst))) SNil)
                        (SCons (SSimple (XDef true [1] (Some EConst))) SNil))
  (SCons (SSimple (XExpr (EPrint (ECons (ERead 1) ENil)))) SNil).

Ltac invruns :=
  repeat match goal with
  | H : ssruns _ _ _ (SCons _ _) _ _ |- _ => inv H
  | H : ssruns _ _ _ SNil _ _ |- _ => inv H
  | H : sruns _ _ _ (SIfElse _ _ _) _ _ |- _ => inv H
  | H : sruns _ _ _ (SSimple _) _ _ |- _ => inv H
  | H : xruns _ _ _ (XDef _ _ _) _ _ |- _ => inv H
  | H : xruns _ _ _ (XExpr _) _ _ |- _ => inv H
  | H : eruns _ _ _ EConst _ _ |- _ => inv H
  | H : eruns _ _ _ (EPrint _) _ _ |- _ => inv H
  | H : eruns _ _ _ (ERead _) _ _ |- _ => inv H
  | H : esruns _ _ _ (ECons _ _) _ _ |- _ => inv H
  | H : esruns _ _ _ ENil _ _ |- _ => inv H
  end.

Theorem C09_complete_paths_refuted :
  exists T p,
    (forall t o, ssruns T false [] p t o -> preceded [] t) /\
    check_program T restored p = Rej KUndef.
Proof.
  exists (tabs_of ct1 [] [] p_d13), p_d13. split; [|vm_compute; reflexivity].
  intros t o H. unfold p_d13 in H. invruns; cbn; auto.
Qed.

(** ** C07 *)

(** D11: a field declared fin is assigned through a mutable receiver *)
Definition p_d11 : stmts :=
  SCons (SSimple (XDef true [50] (Some EConst)))
  (SCons (SSimple (XFieldSet 50 2 EConst)) SNil).

Theorem C07_sound_refuted :
  exists T p e g t o,
    check_program T restored p = Ok (e, g) /\ ssruns T false [] p t o /\
    ~ all_events (fldwrite_ok (t_fld T)) [[]] [] t.
Proof.
  exists (tabs_of ct1 [] [(2, false)] p_d11), p_d11. eexists. eexists. eexists. eexists.
  split; [vm_compute; reflexivity|]. split.
  - unfold p_d11. eapply RSCons.
    + apply RSimple. apply RXDef. apply RConst.
    + eapply RSCons; [|apply RSNil]. apply RSimple. apply RXFieldSet. apply RConst.
  - cbn. intros [_ [_ [[_ H] _]]]. apply H. reflexivity.
Qed.

(** ** C08 *)

(** D50: the classes of a handle stay caught for the statements that follow it *)
Definition p_leak_after : stmts :=
  SCons (SFun 1 [] [1] false (SCons (SSimple (XRaise 1)) SNil))
  (SCons (SFun 2 [] [] false
     (SCons (SHandle (XExpr (ECall 1 ENil)) (HCons 1 None (SCons (SSimple XPass) SNil) HNil))
     (SCons (SSimple (XExpr (ECall 1 ENil))) SNil))) SNil).

(** D51: the arms of a handle are protected by the handle they belong to *)
Definition p_leak_arm : stmts :=
  SCons (SFun 1 [] [1] false (SCons (SSimple (XRaise 1)) SNil))
  (SCons (SFun 2 [] [] false
     (SCons (SHandle (XExpr (ECall 1 ENil)) (HCons 1 None (SCons (SSimple (XRaise 1)) SNil) HNil)) SNil))
   SNil).

(** D52: a handle at top level leaks into the functions defined after it *)
Definition p_leak_fun : stmts :=
  SCons (SFun 1 [] [1] false (SCons (SSimple (XRaise 1)) SNil))
  (SCons (SHandle (XExpr (ECall 1 ENil)) (HCons 1 None (SCons (SSimple XPass) SNil) HNil))
  (SCons (SFun 2 [] [] false (SCons (SSimple (XRaise 1)) SNil)) SNil)).

(** D19: the declared raises of a method are never checked *)
Definition p_method : stmts :=
  SCons (SSimple (XDef true [50] (Some EConst)))
  (SCons (SFun 2 [] [] false (SCons (SSimple (XExpr (EMCall 50 2 ENil))) SNil)) SNil).

Definition unguarded_in (md : mode) (T : tabs) (p : stmts) : Prop :=
  exists e g t o, check_program T md p = Ok (e, g) /\ ssruns T false [] p t o /\
                  ~ all_events (raise_ok (t_cls T)) [[]] [] t.
(** [unguarded]: under the rule set before the repair c08_handle_restores *)
Definition unguarded (T : tabs) (p : stmts) : Prop := unguarded_in as_is T p.

Lemma no_guard ct c : ~ (exists g : cls, In g [] /\ ancestor ct g c).
Proof. intros [g [[] _]]. Qed.

Theorem C08_leak_after_handle : unguarded (tabs_of ct1 [] [] p_leak_after) p_leak_after.
Proof.
  eexists. eexists. eexists. eexists. split; [vm_compute; reflexivity|]. split.
  - unfold p_leak_after. eapply RSCons; [apply RFunSkip|]. eapply RSCons; [|apply RSNil].
    eapply RFunBody. eapply RSCons.
    + apply RHandleThrough. apply RXExpr. apply RCall. apply RENil.
    + eapply RSConsA. apply RSimple. apply RXExpr. eapply RCallRaise; [apply RENil|].
      cbn. left. reflexivity.
  - cbn. intros H. repeat match type of H with _ /\ _ => destruct H as [? H] end.
    repeat match goal with X : exists g : cls, False /\ _ |- _ => destruct X as [? [[] _]] end.
Qed.

Theorem C08_arm_protected_by_own_handle : unguarded (tabs_of ct1 [] [] p_leak_arm) p_leak_arm.
Proof.
  eexists. eexists. eexists. eexists. split; [vm_compute; reflexivity|]. split.
  - unfold p_leak_arm. eapply RSCons; [apply RFunSkip|]. eapply RSCons; [|apply RSNil].
    eapply RFunBody. eapply RSConsA.
    eapply RHandleCatch.
    + apply RXExpr. eapply RCallRaise; [apply RENil|]. cbn. left. reflexivity.
    + eapply RHArmHere. eapply RSConsA. apply RSimple. apply RXRaise.
  - cbn. intros H. repeat match type of H with _ /\ _ => destruct H as [? H] end.
    repeat match goal with X : exists g : cls, False /\ _ |- _ => destruct X as [? [[] _]] end.
Qed.

Theorem C08_top_level_handle_leaks_into_functions : unguarded (tabs_of ct1 [] [] p_leak_fun) p_leak_fun.
Proof.
  eexists. eexists. eexists. eexists. split; [vm_compute; reflexivity|]. split.
  - unfold p_leak_fun. eapply RSCons; [apply RFunSkip|]. eapply RSCons.
    + apply RHandleThrough. apply RXExpr. apply RCall. apply RENil.
    + eapply RSCons; [|apply RSNil]. eapply RFunBody. eapply RSConsA. apply RSimple. apply RXRaise.
  - cbn. intros H. repeat match type of H with _ /\ _ => destruct H as [? H] end.
    repeat match goal with X : exists g : cls, False /\ _ |- _ => destruct X as [? [[] _]] end.
Qed.

Theorem C08_method_raises_unchecked_in md : m_methods md = false ->
  unguarded_in md (tabs_of ct1 [(2, [1])] [] p_method) p_method.
Proof.
  intros HM. destruct md as [r m]. cbn in HM. subst m.
  eexists. eexists. eexists. eexists. split; [destruct r; vm_compute; reflexivity|]. split.
  - unfold p_method. eapply RSCons.
    + apply RSimple. apply RXDef. apply RConst.
    + eapply RSCons; [|apply RSNil]. eapply RFunBody. eapply RSConsA. apply RSimple. apply RXExpr.
      eapply RMCallRaise; [apply RENil|]. cbn. left. reflexivity.
  - cbn. intros H. repeat match type of H with _ /\ _ => destruct H as [? H] end.
    repeat match goal with X : exists g : cls, False /\ _ |- _ => destruct X as [? [[] _]] end.
Qed.

Theorem C08_method_raises_unchecked : unguarded (tabs_of ct1 [(2, [1])] [] p_method) p_method.
Proof. exact (C08_method_raises_unchecked_in as_is eq_refl). Qed.

Theorem C08_sound_refuted : exists T p, unguarded T p.
Proof. eexists. eexists. exact C08_leak_after_handle. Qed.

(** the code as it now is: still refuted, by the method call alone *)
Theorem C08_sound_refuted_restored : exists T p, unguarded_in restored T p.
Proof. eexists. eexists. exact (C08_method_raises_unchecked_in restored eq_refl). Qed.

(** the three leaks of the old rule set are rejected by the code as it now is *)
Example leaks_rejected_restored :
  verdict_restored ct1 [] [] p_leak_after = VReject KUnhandled /\
  verdict_restored ct1 [] [] p_leak_arm = VReject KUnhandled /\
  verdict_restored ct1 [] [] p_leak_fun = VReject KUnhandled /\
  verdict_restored ct1 [(2, [1])] [] p_method = VAccept.
Proof. repeat split; vm_compute; reflexivity. Qed.

(** all four are rejected by the repaired threading, i.e. they lie in the known class *)
Example known_class_contains_witnesses :
  verdict_strict ct1 [] [] p_leak_after = VReject KUnhandled /\
  verdict_strict ct1 [] [] p_leak_arm = VReject KUnhandled /\
  verdict_strict ct1 [] [] p_leak_fun = VReject KUnhandled /\
  verdict_strict ct1 [(2, [1])] [] p_method = VReject KUnhandled.
Proof. repeat split; vm_compute; reflexivity. Qed.

(** [handle_restores] is false of the code as it is ... *)
Theorem handle_restores_refuted :
  exists T e g x hs e' g',
    check_stmt T as_is e g (SHandle x hs) = Ok (e', g') /\ e_caught e' <> e_caught e.
Proof.
  exists (mkTabs ct1 [] [] []), env0, [], XPass, (HCons 1 None SNil HNil). eexists. eexists.
  split; [vm_compute; reflexivity|]. cbn. discriminate.
Qed.

(** ... and true of the repaired threading, for every statement *)
Theorem handle_restores_strict T md e g x hs e' g' :
  m_restore md = true ->
  check_stmt T md e g (SHandle x hs) = Ok (e', g') ->
  e_caught e' = e_caught e /\ e_in_fun e' = e_in_fun e.
Proof.
  intros HM C. destruct (proj1 (restore_guard_preserved T md HM) _ _ _ _ _ C) as [A B]. split; congruence.
Qed.

(** ** outside the known classes the full statements hold of the code as it is *)

(** C09: programs whose top-level calls come after the definitions (not D12) *)
Theorem C09_sound_outside_known T strict p e g t o :
  ord_stmts [] p = true ->
  check_program T strict p = Ok (e, g) -> ssruns T false [] p t o ->
  all_events read_ok [[]] [] t /\ preceded [] t /\ all_events fread_ok [[]] [] t.
Proof.
  intros HO C R. destruct (C09_sound_vars strict C R) as [A B].
  split; [exact A|]. split; [exact B|]. eapply ordered_sound; eassumption.
Qed.

(** C07: programs that do not assign to a fin field (not D11) *)
Theorem C07_sound_outside_known T strict p e g t o :
  nf_stmts (t_fld T) p = true ->
  check_program T strict p = Ok (e, g) -> ssruns T false [] p t o ->
  all_events write_ok [[]] [] t /\ all_events (fldwrite_ok (t_fld T)) [[]] [] t.
Proof.
  intros HN C R. destruct (C07_sound_vars strict C R) as [A B]. split; [exact A|].
  assert (F := nofin_sound (t_fld T) R HN).
  clear - B F. revert B F. generalize ([[]] : stack) ([] : list fname).
  induction t as [|ev t IH]; intros st fs B F; cbn [all_events] in *; [exact I|].
  destruct B as [B1 B2]. inversion F; subst. split; [|apply IH; assumption].
  destruct ev; cbn in *; auto.
Qed.

(** C08: programs that the restoring variant of the threading accepts as well
    (not D19, D50, D51, D52: [check_program T repaired] differs from the code in exactly three places:
    the caught set is restored after a handle and for its arms, a function body starts from its own
    declared raises, the declared raises of a method are checked) *)
Theorem C08_sound_outside_known T p e g e2 g2 t o :
  check_program T repaired p = Ok (e2, g2) ->
  check_program T as_is p = Ok (e, g) -> ssruns T false [] p t o ->
  all_events (raise_ok (t_cls T)) [[]] [] t.
Proof. intros CS _ R. eapply C08_sound_strict; eassumption. Qed.

(** ** positive halves *)

(** C07: reassigning a visible mutable definition is accepted (plain and compound) *)
Theorem mutable_reassign_ok T strict e g x rhs :
  WF e -> lookup e x = Some true -> check_expr T strict e g rhs = None ->
  check_simple T strict e g (XAssign [x] rhs) = Ok (e, g) /\
  check_simple T strict e g (XAug x rhs) = Ok (e, g).
Proof.
  intros W L C. assert (GV : get_var e g x = Some true) by (rewrite get_var_lookup; assumption).
  split; cbn [check_simple check_iden_mut check_reads check_expr]; rewrite GV; rewrite C; reflexivity.
Qed.

(** ... and a fin or undefined target is refused *)
Theorem fin_or_undefined_reassign_rejected T strict e g x rhs :
  WF e -> e_in_class e = false ->
  (lookup e x = Some false -> check_simple T strict e g (XAssign [x] rhs) = Rej KImmut /\
                              check_simple T strict e g (XAug x rhs) = Rej KImmut) /\
  (lookup e x = None -> check_simple T strict e g (XAssign [x] rhs) = Rej KUndef /\
                        check_simple T strict e g (XAug x rhs) = Rej KUndef).
Proof.
  intros W NC. split; intros L;
    assert (GV := get_var_lookup g x W); rewrite L in GV;
    split; cbn [check_simple check_iden_mut]; rewrite GV; try rewrite NC;
    try rewrite Bool.andb_false_r; reflexivity.
Qed.

(** C09: a defined name can be read; the newest definition is the one that is seen; a definition
    stays visible across every statement that follows it in its block *)
Theorem read_defined_ok T strict e g x :
  WF e -> lookup e x <> None -> check_expr T strict e g (ERead x) = None.
Proof.
  intros W L. cbn [check_expr]. rewrite get_var_lookup by exact W.
  destruct (lookup e x); [reflexivity|congruence].
Qed.

Lemma define_fold_lookup m p : forall eg x,
  lookup (fst (fold_left (define m) p eg)) x = if mem x p then Some m else lookup (fst eg) x.
Proof.
  induction p as [|y p IH]; intros [e g] x; cbn [fold_left mem]; [reflexivity|].
  rewrite IH. unfold define. cbn [fst snd].
  destruct (mem x p); [rewrite Bool.orb_true_r; reflexivity|]. rewrite Bool.orb_false_r.
  destruct (x =? y) eqn:E.
  - apply Nat.eqb_eq in E. subst. apply lookup_insert_same.
  - apply lookup_insert_other. apply Nat.eqb_neq in E. congruence.
Qed.

Theorem definition_visible T strict e g m p init e1 g1 x :
  check_simple T strict e g (XDef m p init) = Ok (e1, g1) ->
  lookup e1 x = if mem x p then Some m else lookup e x.
Proof.
  intros C. cbn [check_simple] in C. destruct (oexpr T strict e g init); [discriminate|].
  assert (C' : define_all m e g p = (e1, g1)).
  { destruct p; destruct init; try discriminate; congruence. }
  change e1 with (fst (e1, g1)). rewrite <- C'. apply (define_fold_lookup m p (e, g)).
Qed.

Theorem visible_preserved T :
  (forall s strict e g e' g' x, check_stmt T strict e g s = Ok (e', g') ->
     lookup e x <> None -> lookup e' x <> None) /\
  (forall ss strict e g e' g' x, check_stmts T strict e g ss = Ok (e', g') ->
     lookup e x <> None -> lookup e' x <> None).
Proof.
  assert (SIMPLE : forall s strict e g e' g' x, check_simple T strict e g s = Ok (e', g') ->
            lookup e x <> None -> lookup e' x <> None).
  { intros s strict e g e' g' x C L. destruct s;
      try (cbn [check_simple] in C;
           repeat match type of C with
           | match ?x with _ => _ end = Ok _ => destruct x eqn:?; try discriminate
           | (if ?x then _ else _) = Ok _ => destruct x eqn:?; try discriminate
           end; injection C as <- <-; try exact L; fail).
    - rewrite (definition_visible _ _ _ _ _ _ _ _ _ x C). destruct (mem x p); [discriminate|exact L].
    - cbn [check_simple] in C.
      repeat match type of C with
      | match ?x with _ => _ end = Ok _ => destruct x eqn:?; try discriminate
      end. injection C as <- <-. destruct (r =? SELF); exact L. }
  assert (X : (forall s strict e g e' g' x, check_stmt T strict e g s = Ok (e', g') ->
                 lookup e x <> None -> lookup e' x <> None) /\
              (forall ss strict e g e' g' x, check_stmts T strict e g ss = Ok (e', g') ->
                 lookup e x <> None -> lookup e' x <> None) /\
              (forall a : arms, True) /\ (forall h : harms, True)).
  { apply syntax_ind; try (intros; exact I).
    - intros s strict e g e' g' x C L. eapply SIMPLE; eassumption.
    - intros s hs _ strict e g e' g' x C L. chk C. injection C as <- <-.
      assert (L1 : lookup ce x <> None) by (eapply SIMPLE; [exact E|exact L]).
      destruct (m_restore strict); destruct ce0; exact L1.
    - intros c t _ strict e g e' g' x C L. chk C. injection C as <- <-. exact L.
    - intros c t _ el _ strict e g e' g' x C L. chk C. injection C as <- <-. exact L.
    - intros c a _ strict e g e' g' x C L. chk C. injection C as <- <-. destruct ce; exact L.
    - intros c b _ strict e g e' g' x C L. chk C. injection C as <- <-. exact L.
    - intros p col b _ strict e g e' g' x C L. chk C. injection C as <- <-. exact L.
    - intros f ps rs ret b _ strict e g e' g' x C L. chk C. injection C as <- <-. exact L.
    - intros strict e g e' g' x C L. cbn [check_stmts] in C. injection C as <- <-. exact L.
    - intros s IHs ss IHss strict e g e' g' x C L. chk C. eapply IHss; [exact C|]. eapply IHs; eassumption. }
  split; apply X.
Qed.

(** C08: only descendants of Exception can be declared, at every nesting depth *)
Fixpoint declared_stmt (s : stmt) : list cls :=
  match s with
  | SSimple _ => []
  | SHandle _ hs => declared_harms hs
  | SIf _ t => declared_stmts t
  | SIfElse _ t el => declared_stmts t ++ declared_stmts el
  | SMatch _ a => declared_arms a
  | SWhile _ b => declared_stmts b
  | SFor _ _ b => declared_stmts b
  | SFun _ _ rs _ b => rs ++ declared_stmts b
  end
with declared_stmts (ss : stmts) : list cls :=
  match ss with SNil => [] | SCons s r => declared_stmt s ++ declared_stmts r end
with declared_arms (a : arms) : list cls :=
  match a with ANil => [] | ACons _ body rest => declared_stmts body ++ declared_arms rest end
with declared_harms (hs : harms) : list cls :=
  match hs with HNil => [] | HCons _ _ body rest => declared_stmts body ++ declared_harms rest end.

Lemma check_declared_sound T rs :
  check_declared T rs = None -> Forall (fun c => ancestor (t_cls T) EXC c) rs.
Proof.
  induction rs as [|c r IH]; cbn [check_declared]; [constructor|].
  destruct (has_parent (fuel_of T) (t_cls T) c EXC) eqn:H; try discriminate.
  intros C. constructor; [eapply has_parent_sound; exact H|apply IH; exact C].
Qed.

Theorem only_exceptions_declared T :
  (forall s strict e g e' g', check_stmt T strict e g s = Ok (e', g') ->
     Forall (fun c => ancestor (t_cls T) EXC c) (declared_stmt s)) /\
  (forall ss strict e g e' g', check_stmts T strict e g ss = Ok (e', g') ->
     Forall (fun c => ancestor (t_cls T) EXC c) (declared_stmts ss)).
Proof.
  assert (X :
    (forall s strict e g e' g', check_stmt T strict e g s = Ok (e', g') ->
       Forall (fun c => ancestor (t_cls T) EXC c) (declared_stmt s)) /\
    (forall ss strict e g e' g', check_stmts T strict e g ss = Ok (e', g') ->
       Forall (fun c => ancestor (t_cls T) EXC c) (declared_stmts ss)) /\
    (forall a strict e g u g', check_arms T strict e g a = Ok (u, g') ->
       Forall (fun c => ancestor (t_cls T) EXC c) (declared_arms a)) /\
    (forall hs strict e g u g', check_harms T strict e g hs = Ok (u, g') ->
       Forall (fun c => ancestor (t_cls T) EXC c) (declared_harms hs))).
  { apply syntax_ind; cbn [declared_stmt declared_stmts declared_arms declared_harms].
    - intros; constructor.
    - intros s hs IH strict e g e' g' C. chk C. eapply IH; exact E0.
    - intros c t IH strict e g e' g' C. chk C. eapply IH; exact E0.
    - intros c t IHt el IHe strict e g e' g' C. chk C.
      apply Forall_app; split; [eapply IHt; exact E0|eapply IHe; exact E1].
    - intros c a IH strict e g e' g' C. chk C. eapply IH; exact E0.
    - intros c b IH strict e g e' g' C. chk C. eapply IH; exact E0.
    - intros p col b IH strict e g e' g' C. chk C. eapply IH; exact E1.
    - intros f ps rs ret b IH strict e g e' g' C. chk C.
      apply Forall_app; split; [apply check_declared_sound; exact E0|eapply IH; exact E1].
    - intros; constructor.
    - intros s IHs ss IHss strict e g e' g' C. chk C.
      apply Forall_app; split; [eapply IHs; exact E|eapply IHss; exact C].
    - intros; constructor.
    - intros b body IHb rest IHr strict e g u g' C. chk C.
      apply Forall_app; split; [eapply IHb; exact E|eapply IHr; exact E0].
    - intros; constructor.
    - intros c b body IHb rest IHr strict e g u g' C. chk C.
      apply Forall_app; split; [eapply IHb; exact E|eapply IHr; exact E0]. }
  split; apply X.
Qed.

(** non-vacuity: a program with shadowing in a branch, a loop, a function with declared raises, a
    guarded call and a reassignment is accepted, and it has a path through all of them *)
Definition p_example : stmts :=
  SCons (SFun 1 [(true, 2)] [1] true
           (SCons (SIf (ERead 2) (SCons (SSimple (XRaise 1)) SNil))
           (SCons (SSimple (XReturn (Some (ERead 2)))) SNil)))
  (SCons (SSimple (XDef false [1] (Some EConst)))
  (SCons (SIfElse (ERead 1)
           (SCons (SSimple (XDef true [1] (Some (ERead 1)))) (SCons (SSimple (XAug 1 EConst)) SNil))
           (SCons (SSimple XPass) SNil))
  (SCons (SHandle (XDef true [3] (Some (ECall 1 (ECons (ERead 1) ENil))))
           (HCons 0 (Some (true, 90)) (SCons (SSimple (XExpr (EPrint (ECons (ERead 90) ENil)))) SNil) HNil))
  (SCons (SFor [2] (ERead 3) (SCons (SSimple (XAssign [3] (EBin (ERead 3) (ERead 2)))) SNil))
   SNil)))).

Example example_accepted :
  verdict_program ct1 [] [] p_example = VAccept /\ verdict_strict ct1 [] [] p_example = VAccept /\
  ord_stmts [] p_example = true /\ nf_stmts [] p_example = true.
Proof. repeat split; vm_compute; reflexivity. Qed.
