(** * A comment-only line directly after a token line, indented like it (used by C14)

    [pre] ends on a line that holds a token and whose indentation is [k] blanks
    ([last_indent pre = Some (1 + k)]); the line [k blanks # text] is inserted after it.  The
    Comment token goes through [State::token]: it hands out the pending NL of the line, adds no
    Indent/Dedent (same indentation), and the line break after it leaves a new pending NL.
    So the token list gains exactly [NL; Comment] and every later token moves down one line. *)
From Coq Require Import List Ascii ZArith Bool Lia Arith.
From MambaModel Require Import model.LexTok gen.LexTables model.Lex proofs.LexProps model.Trivia
  proofs.TriviaFuel proofs.TriviaScan proofs.TriviaSim proofs.TriviaShift proofs.TriviaProps
  proofs.TriviaBlank.
Import ListNotations.
Local Open Scope Z_scope.

Definition last_indent (pre : str) : option Z :=
  match prefix_run pre with inl (inl (st, _)) => Some (cur_indent st) | _ => None end.

Lemma spaces_indent n st :
  token_this_line st = false ->
  line_indent (Nat.iter n state_space st) = line_indent st + Z.of_nat n
  /\ token_this_line (Nat.iter n state_space st) = false.
Proof.
  intros Hf. induction n as [|n [IH1 IH2]]; [cbn; split; [lia | exact Hf]|].
  change (Nat.iter (S n) state_space st) with (state_space (Nat.iter n state_space st)).
  set (s1 := Nat.iter n state_space st) in *. unfold state_space. cbn [line_indent token_this_line].
  rewrite IH2, IH1. split; [lia | reflexivity].
Qed.

(** two states about to read a line break, the second one line further down *)
Lemma eol_sim_sh fuel R a b :
  hd_eol R = true -> newlines a = [] -> newlines b = [] -> cur_indent a = cur_indent b ->
  line (pos b) = line (pos a) + 1 ->
  res_sh 1 same_indent (tok_loop fuel R a []) (tok_loop fuel R b []).
Proof.
  intros HR Ha Hb Hc Hl. destruct fuel as [|fuel]; [rewrite !tok_loop_O; exact I|].
  assert (Hnl : st_sh 1 (state_newline a) (state_newline b)).
  { unfold st_sh, state_newline. cbn [newlines cur_indent line_indent token_this_line pos]. rewrite Ha, Hb.
    split; [constructor; [apply lex_sh_mk_synth; reflexivity | constructor]|].
    split; [exact Hc|]. repeat split. unfold shift. cbn [line col]. rewrite Hl. reflexivity. }
  assert (Hgo : forall R', res_sh 1 same_indent (tok_loop fuel R' (state_newline a) ([] ++ []))
                                              (tok_loop fuel R' (state_newline b) ([] ++ []))).
  { intros R'. cbn [app]. pose proof (sim_loop_sh 1 fuel R' _ _ Hnl) as H.
    destruct (tok_loop fuel R' (state_newline a) []) as [[[x ox]|?]|?],
             (tok_loop fuel R' (state_newline b) []) as [[[y oy]|?]|?]; cbn in *; try tauto.
    destruct H as [H1 H2]. split; [apply (st_sh_same_indent 1 _ _ H1) | exact H2]. }
  destruct (eol_cases R HR) as [-> | [(R' & ->) | [(R' & ->) | (R' & -> & HR')]]].
  - rewrite !tok_loop_nil. cbn. split; [exact Hc | constructor].
  - rewrite !tok_loop_step, !step_nl. apply Hgo.
  - rewrite !tok_loop_step, !step_crnl. apply Hgo.
  - rewrite !tok_loop_step. destruct R' as [|x R'].
    + rewrite !step_cr_nil. exact I.
    + rewrite !(step_cr_other _ x R' _ HR'). exact I.
Qed.

Definition comment_line_rel (text : str) (l1 l2 : list tl) : Prop :=
  exists u v x cm v',
    l1 = u ++ v /\ l2 = u ++ x :: tl0 cm :: v'
    /\ ltok (top x) = MNL /\ inner x = [] /\ ltok cm = MComment text /\ lnested cm = false
    /\ Forall2 (tl_sh 1) v v'.

Lemma docstring_pass_split a x v :
  is_str (ltok (top x)) = false ->
  docstring_pass (a ++ x :: v) = docstring_pass a ++ docstring_pass (x :: v).
Proof.
  intros Hx. unfold docstring_pass. rewrite (doc_pass_sep a None None x v Hx).
  reflexivity.
Qed.

Lemma docstring_pass_head x v :
  is_str (ltok (top x)) = false -> docstring_pass (x :: v) = x :: docstring_pass v.
Proof.
  intros Hx. unfold docstring_pass. cbn [doc_pass otop]. rewrite doc_get_none_l.
  apply doc_pass_nonstr_head, Hx.
Qed.

Theorem comment_after_token pre R k text :
  ends_on_token_line pre = true -> last_indent pre = Some (1 + Z.of_nat k) ->
  complete true pre = true -> no_eol text = true -> hd_eol R = true ->
  opt_rel (comment_line_rel text)
          (run_tls (pre ++ R)) (run_tls (pre ++ c_nl :: spaces k ++ c_hash :: text ++ R)).
Proof.
  intros He Hk Hc Ht HR. unfold ends_on_token_line in He. unfold last_indent in Hk.
  destruct (prefix_run pre) as [[[st acc]|?]|?] eqn:Hp; try discriminate He.
  injection Hk as Hcur.
  pose proof (hd_eol_stop R HR) as HRs.
  assert (Hinv : flag_inv st) by (unfold prefix_run in Hp; eapply flag_inv_loop; [exact flag_inv0 | exact Hp]).
  destruct (Hinv He) as [Hn Hl].
  set (R2 := c_nl :: spaces k ++ c_hash :: text ++ R).
  assert (Hc1 : complete (hd_eol R) pre = true) by (rewrite HR; exact Hc).
  assert (HF1 : (length (pre ++ R) < run_fuel (pre ++ R))%nat) by (unfold run_fuel; lia).
  assert (HF2 : (length (pre ++ R2) < run_fuel (pre ++ R2))%nat) by (unfold run_fuel; lia).
  pose proof (run_split pre R st acc _ HRs Hc1 Hp HF1 (S (length R)) ltac:(lia)) as E1.
  assert (HL2 : (length R2 < S (k + S (S (length (text ++ R)))))%nat).
  { unfold R2. cbn [length]. rewrite app_length, spaces_length. cbn [length]. lia. }
  pose proof (run_split pre R2 st acc _ eq_refl Hc Hp HF2 _ HL2) as E2. unfold R2 in E2.
  rewrite tok_loop_step, step_nl in E2. cbn [app] in E2. rewrite loop_spaces in E2.
  set (A0 := state_newline st) in *. set (A1 := Nat.iter k state_space A0) in *.
  destruct (spaces_state k A0) as (S1 & S2 & _ & S4 & _). fold A1 in S1, S2, S4.
  destruct (spaces_indent k A0 eq_refl) as [S5 _]. fold A1 in S5.
  assert (Hlay : emit_layout A1 = [mk_lex (pos st) MNL]).
  { unfold emit_layout. rewrite S1, S2, S5.
    assert (N0 : newlines A0 = [mk_lex (pos st) MNL])
      by (unfold A0, state_newline; cbn [newlines]; rewrite Hn; reflexivity).
    assert (C0 : cur_indent A0 = 1 + Z.of_nat k) by (unfold A0, state_newline; cbn [cur_indent]; exact Hcur).
    assert (L0 : line_indent A0 = 1) by reflexivity.
    rewrite N0, C0, L0. cbn [rev app]. rewrite Z.leb_refl, Z.sub_diag. reflexivity. }
  rewrite tok_loop_step in E2. unfold step in E2. rewrite (scan_hash text R Ht HR) in E2.
  rewrite (state_token_other A1 (MComment text)) in E2 by discriminate.
  rewrite Hlay in E2. cbn [app map] in E2.
  set (cm := mk_lex (pos A1) (MComment text)) in *.
  set (C := after_emit A1 (MComment text)) in *.
  rewrite (loop_acc _ R C) in E2.
  rewrite (loop_fuel2 (S (length (text ++ R))) (S (length R))) in E2 by (rewrite ?app_length; lia).
  unfold R2. rewrite !run_tls_raw. unfold raw_tls. rewrite E1, E2. clear E1 E2.
  (* the runs on R *)
  assert (Hsim : res_sh 1 same_indent (tok_loop (S (length R)) R st []) (tok_loop (S (length R)) R C [])).
  { apply eol_sim_sh; [exact HR | exact Hn | reflexivity | |].
    - unfold C, after_emit. cbn [cur_indent]. rewrite S5. unfold A0, state_newline. cbn [line_indent]. exact Hcur.
    - unfold C, after_emit. cbn [pos offset_pos line]. rewrite S4. unfold A0, state_newline. cbn. reflexivity. }
  pose proof (eol_first (S (length R)) R st) as Hfirst.
  destruct (tok_loop (S (length R)) R st []) as [[[a oa]|?]|?],
           (tok_loop (S (length R)) R C []) as [[[b ob]|?]|?]; cbn [res_sh] in Hsim; try contradiction;
    cbn [with_acc opt_rel]; try exact I.
  destruct Hsim as [Hi Ho].
  specialize (Hfirst a oa HR (prefix_nls_ok _ _ _ Hp) eq_refl).
  set (eA := mk_lex (last_end ((acc ++ oa) ++ map tl0 (flush_indents a))) MEof).
  set (eB := mk_lex (last_end ((acc ++ [tl0 (mk_lex (pos st) MNL); tl0 cm] ++ ob) ++ map tl0 (flush_indents b))) MEof).
  destruct (head_nonstr oa (flush_indents a) eA Hfirst) as (xv & V0 & HV & Hxv).
  { unfold flush_indents. apply Forall_forall. intros l Hl'. apply repeat_spec in Hl'. subst. reflexivity. }
  { reflexivity. }
  set (VB := ob ++ map tl0 (flush_indents b) ++ [tl0 eB]).
  assert (Hrel : Forall2 (tl_sh 1) (xv :: V0) VB).
  { rewrite <- HV. unfold VB. apply Forall2_app; [exact Ho|]. apply Forall2_app.
    - apply tl0_sh. unfold flush_indents. rewrite Hi. apply Forall2_repeat2, lex_sh_mk_synth. reflexivity.
    - constructor; [|constructor]. split; [apply lex_sh_mk_synth; reflexivity | constructor]. }
  assert (E1 : raw_of (a, acc ++ oa) = acc ++ xv :: V0).
  { unfold raw_of. cbn [fst snd]. fold eA. rewrite <- HV, <- !app_assoc. reflexivity. }
  assert (E2 : raw_of (b, acc ++ [tl0 (mk_lex (pos st) MNL); tl0 cm] ++ ob)
               = (acc ++ [tl0 (mk_lex (pos st) MNL)]) ++ tl0 cm :: VB).
  { unfold raw_of, VB. cbn [fst snd]. fold eB. rewrite <- !app_assoc. reflexivity. }
  change (comment_line_rel text (docstring_pass (raw_of (a, acc ++ oa)))
            (docstring_pass (raw_of (b, acc ++ [tl0 (mk_lex (pos st) MNL); tl0 cm] ++ ob)))).
  rewrite E1, E2.
  rewrite (docstring_pass_split acc xv V0 Hxv).
  rewrite (docstring_pass_cut acc (tl0 (mk_lex (pos st) MNL)) (tl0 cm :: VB) eq_refl).
  rewrite (docstring_pass_head (tl0 cm) VB eq_refl).
  exists (docstring_pass acc), (docstring_pass (xv :: V0)), (tl0 (mk_lex (pos st) MNL)), cm, (docstring_pass VB).
  split; [reflexivity|]. split; [rewrite <- app_assoc; reflexivity|].
  split; [reflexivity|]. split; [reflexivity|]. split; [reflexivity|]. split; [reflexivity|].
  unfold docstring_pass. apply doc_pass_sh; [exact Hrel | exact I | exact I].
Qed.

(** ** what the parser is given *)

Lemma nlc_cons a l :
  nl_collapse (a :: l) =
  match a, l with MNL, MNL :: _ => nl_collapse l | _, _ => a :: nl_collapse l end.
Proof.
  destruct a; reflexivity.
Qed.

Lemma nl_collapse_dup k1 k3 :
  nl_collapse (k1 ++ MNL :: MNL :: k3) = nl_collapse (k1 ++ MNL :: k3).
Proof.
  induction k1 as [|a k1 IH]; [reflexivity|].
  rewrite <- !app_comm_cons, !nlc_cons.
  destruct k1 as [|b k1].
  - simpl app in *. destruct a; rewrite ?IH; reflexivity.
  - simpl app in *. destruct a; rewrite IH; reflexivity.
Qed.

Theorem comment_after_token_norm pre R k text :
  ends_on_token_line pre = true -> last_indent pre = Some (1 + Z.of_nat k) ->
  complete true pre = true -> no_eol text = true -> hd_eol R = true ->
  match norm_of (pre ++ R), norm_of (pre ++ c_nl :: spaces k ++ c_hash :: text ++ R) with
  | Some n1, Some n2 =>
      exists k1 k2, n1 = k1 ++ k2 /\ n2 = k1 ++ MNL :: k2
                    /\ (forall k3, k2 = MNL :: k3 ->
                          nl_collapse n2 = nl_collapse n1 /\ nl_drop None n2 = nl_drop None n1)
  | None, None => True
  | _, _ => False
  end.
Proof.
  intros H1 H2 H3 H4 H5. pose proof (comment_after_token pre R k text H1 H2 H3 H4 H5) as H.
  rewrite !norm_of_run.
  destruct (run_tls (pre ++ R)) as [l1|], (run_tls (pre ++ c_nl :: spaces k ++ c_hash :: text ++ R)) as [l2|];
    cbn in H; try contradiction; [|exact I].
  destruct H as (u & v & x & cm & v' & -> & -> & Hx & Hxi & Hcm & _ & Hv).
  exists (kinds_norm (flatten u)), (kinds_norm (flatten v)).
  rewrite !kinds_norm_filter. change (x :: tl0 cm :: v') with ([x] ++ [tl0 cm] ++ v').
  rewrite !kinds_flatten_app, !filter_app. split; [reflexivity|].
  assert (E : filter (fun t => negb (is_comment t)) (kinds (flatten [x]))
              ++ filter (fun t => negb (is_comment t)) (kinds (flatten [tl0 cm]))
              ++ filter (fun t => negb (is_comment t)) (kinds (flatten v'))
              = MNL :: filter (fun t => negb (is_comment t)) (kinds (flatten v))).
  { unfold kinds at 3. rewrite <- (kinds_flatten_sh 1 _ _ Hv).
    unfold kinds, flatten. cbn [flat_map tl0 top inner]. rewrite Hxi. cbn [app map]. rewrite Hx, Hcm. reflexivity. }
  rewrite E. split; [reflexivity|].
  intros k3 Hk3. rewrite Hk3. split; [apply nl_collapse_dup|].
  apply nl_drop_after. left. reflexivity.
Qed.
