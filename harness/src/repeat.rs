//! `repeat` endpoint (C12, determinism).
//!
//! request : `id \t repeat \t <0|1 annotate> \t <hex src> \t <K> \t <T> \t <R> [\t <hex warm-up src> [\t <Kw>]]`
//!           `src` may hold several files separated by U+001E (they are given to one
//!           `mamba_to_python` call, as the project driver does).
//! answer  : `OK \t seq=<i,i,..> \t thr=<i,i,..> \t warm=<i,..> \t <kind>,<hex> \t <kind>,<hex> ...`
//!
//! The source is transpiled
//!   * (if a warm-up source is given) once BEFORE anything else runs the warm-up source, then the source
//!     itself `Kw` times (default `K`; `warm=`): the same input after an unrelated earlier workload in this process;
//!   * `K` times sequentially on the calling thread (`seq=`);
//!   * on `T` threads released together by a start flag, `R` times on each thread (`thr=`, thread-major).
//! Every run's outcome is reported: the trailing fields are the table of DISTINCT outcomes in order of first
//! appearance (`O` = Ok + emitted Python, `E` = Err + diagnostics, `P` = panic + message) and the three lists
//! hold, per run, the index into that table. Nothing is compared here; the orchestrator judges.
//!
//! Every `HashSet`/`HashMap` created by the pipeline gets its own `RandomState` (std increments the per-thread
//! key for every instance and draws fresh keys for every new thread), so repetition inside one process does
//! vary the iteration orders; different processes are covered by the orchestrator starting `mh` several times.
use std::panic::{catch_unwind, AssertUnwindSafe};
use std::path::PathBuf;
use std::sync::atomic::{AtomicBool, Ordering};
use std::sync::Arc;

use mamba::{mamba_to_python, PipelineArguments};

use crate::sexp::{hex, unhex};

const SEP: char = '\u{1e}';

#[derive(Clone, PartialEq, Eq, Debug)]
pub struct Outcome {
    pub kind: char,
    pub text: String,
}

pub fn run_once(src: &str, annotate: bool) -> Outcome {
    let input: Vec<(String, Option<PathBuf>)> =
        src.split(SEP).map(|s| (s.to_string(), None)).collect();
    let args = PipelineArguments { annotate };
    let res = catch_unwind(AssertUnwindSafe(|| {
        mamba_to_python(&input, &PathBuf::from(""), &args)
    }));
    match res {
        Ok(Ok(out)) => Outcome { kind: 'O', text: out.join(&SEP.to_string()) },
        Ok(Err(errs)) => Outcome { kind: 'E', text: errs.join(&SEP.to_string()) },
        Err(p) => {
            let msg = p
                .downcast_ref::<String>()
                .cloned()
                .or_else(|| p.downcast_ref::<&str>().map(|s| s.to_string()))
                .unwrap_or_default();
            Outcome { kind: 'P', text: msg }
        }
    }
}

fn intern(table: &mut Vec<Outcome>, o: Outcome) -> usize {
    if let Some(i) = table.iter().position(|x| *x == o) {
        i
    } else {
        table.push(o);
        table.len() - 1
    }
}

fn join(v: &[usize]) -> String {
    v.iter().map(|i| i.to_string()).collect::<Vec<_>>().join(",")
}

pub fn dispatch(fields: &[&str]) -> String {
    let annotate = fields.first().copied() == Some("1");
    let src = match fields.get(1).map(|h| unhex(h)) {
        Some(Ok(s)) => s,
        _ => return "BAD\tsource".into(),
    };
    let num = |i: usize, d: usize| fields.get(i).and_then(|s| s.parse::<usize>().ok()).unwrap_or(d);
    let (k, t, r) = (num(2, 16), num(3, 8), num(4, 1));
    let warm_src = fields.get(5).and_then(|h| unhex(h).ok()).filter(|s| !s.is_empty());
    let kw = num(6, k);

    let mut table: Vec<Outcome> = vec![];
    let mut warm = vec![];
    if let Some(w) = &warm_src {
        let _ = run_once(w, annotate);
        let _ = run_once(w, !annotate);
        for _ in 0..kw {
            let o = run_once(&src, annotate);
            warm.push(intern(&mut table, o));
        }
    }

    let mut seq = vec![];
    for _ in 0..k {
        let o = run_once(&src, annotate);
        seq.push(intern(&mut table, o));
    }

    // start flag instead of a Barrier: a failed spawn must not leave the others waiting forever
    let go = Arc::new(AtomicBool::new(false));
    let src_arc = Arc::new(src);
    let mut handles = vec![];
    for _ in 0..t {
        let b = Arc::clone(&go);
        let s = Arc::clone(&src_arc);
        let h = std::thread::Builder::new()
            .stack_size(64 * 1024 * 1024)
            .spawn(move || {
                while !b.load(Ordering::Acquire) {
                    std::thread::yield_now();
                }
                (0..r).map(|_| run_once(&s, annotate)).collect::<Vec<Outcome>>()
            });
        handles.push(h);
    }
    go.store(true, Ordering::Release);
    let mut thr = vec![];
    for h in handles {
        let outs = match h {
            Ok(h) => h.join().unwrap_or_else(|_| {
                vec![Outcome { kind: 'P', text: "thread died".into() }]
            }),
            Err(e) => vec![Outcome { kind: 'P', text: format!("spawn failed: {e}") }],
        };
        for o in outs {
            thr.push(intern(&mut table, o));
        }
    }

    let mut out = format!("OK\tseq={}\tthr={}\twarm={}", join(&seq), join(&thr), join(&warm));
    for o in &table {
        out.push('\t');
        out.push(o.kind);
        out.push(',');
        out.push_str(&hex(&o.text));
    }
    out
}
