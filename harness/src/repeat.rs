//! `repeat` endpoint (filled in with C12).
pub fn dispatch(_fields: &[&str]) -> String {
    "BAD\tnot implemented".into()
}
