//! Minimal S-expression reader shared by all endpoints.
//! Grammar: `(Ctor arg ..)`, `[item ..]`, atoms; strings are atoms `s:<hex>`; `~` is an absent option.

#[derive(Debug, Clone, PartialEq)]
pub enum Sx {
    Atom(String),
    Node(String, Vec<Sx>),
    List(Vec<Sx>),
}

pub fn parse(input: &str) -> Result<Sx, String> {
    let toks = tokens(input);
    let mut pos = 0;
    let sx = parse_at(&toks, &mut pos)?;
    if pos != toks.len() {
        return Err(format!("trailing tokens at {pos}"));
    }
    Ok(sx)
}

fn tokens(input: &str) -> Vec<String> {
    let mut out = vec![];
    let mut cur = String::new();
    for c in input.chars() {
        match c {
            '(' | ')' | '[' | ']' => {
                if !cur.is_empty() {
                    out.push(std::mem::take(&mut cur));
                }
                out.push(c.to_string());
            }
            c if c.is_whitespace() => {
                if !cur.is_empty() {
                    out.push(std::mem::take(&mut cur));
                }
            }
            c => cur.push(c),
        }
    }
    if !cur.is_empty() {
        out.push(cur);
    }
    out
}

fn parse_at(toks: &[String], pos: &mut usize) -> Result<Sx, String> {
    let t = toks.get(*pos).ok_or("unexpected end")?;
    *pos += 1;
    match t.as_str() {
        "(" => {
            let head = toks.get(*pos).ok_or("missing head")?.clone();
            *pos += 1;
            let mut args = vec![];
            while toks.get(*pos).map(String::as_str) != Some(")") {
                if *pos >= toks.len() {
                    return Err("unclosed (".into());
                }
                args.push(parse_at(toks, pos)?);
            }
            *pos += 1;
            Ok(Sx::Node(head, args))
        }
        "[" => {
            let mut items = vec![];
            while toks.get(*pos).map(String::as_str) != Some("]") {
                if *pos >= toks.len() {
                    return Err("unclosed [".into());
                }
                items.push(parse_at(toks, pos)?);
            }
            *pos += 1;
            Ok(Sx::List(items))
        }
        ")" | "]" => Err(format!("unexpected {t}")),
        _ => Ok(Sx::Atom(t.clone())),
    }
}

pub fn unhex(s: &str) -> Result<String, String> {
    if s.len() % 2 != 0 {
        return Err("odd hex".into());
    }
    let bytes: Result<Vec<u8>, _> = (0..s.len())
        .step_by(2)
        .map(|i| u8::from_str_radix(&s[i..i + 2], 16))
        .collect();
    String::from_utf8(bytes.map_err(|e| e.to_string())?).map_err(|e| e.to_string())
}

pub fn hex(s: &str) -> String {
    s.bytes().map(|b| format!("{b:02x}")).collect()
}

impl Sx {
    pub fn string(&self) -> Result<String, String> {
        match self {
            Sx::Atom(a) if a.starts_with("s:") => unhex(&a[2..]),
            other => Err(format!("expected string, got {other:?}")),
        }
    }
    pub fn boolean(&self) -> Result<bool, String> {
        match self {
            Sx::Atom(a) if a == "T" => Ok(true),
            Sx::Atom(a) if a == "F" => Ok(false),
            other => Err(format!("expected bool, got {other:?}")),
        }
    }
    pub fn list(&self) -> Result<&[Sx], String> {
        match self {
            Sx::List(l) => Ok(l),
            other => Err(format!("expected list, got {other:?}")),
        }
    }
    pub fn is_none(&self) -> bool {
        matches!(self, Sx::Atom(a) if a == "~")
    }
}
