//! `project` endpoint (filled in with C13).
pub fn dispatch(_fields: &[&str]) -> String {
    "BAD\tnot implemented".into()
}
