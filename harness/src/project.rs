//! `project` endpoint (C13): the implementation side of the project-level correspondence.
//!
//! Sub-commands (first field):
//!
//! `dir <base hex> <annotate 0|1> <src hex|~> <target hex|~> <runs> <entries>`
//!     creates a fresh directory under `base`, populates it with `entries`
//!     (`F:<relpath hex>:<content hex>` / `D:<relpath hex>`, comma separated, relative to the fresh
//!     directory), calls `mamba::transpile_dir(dir, src, target, &Arguments{annotate})` `runs` times and
//!     answers, per run, three fields: `OK|ERR`, hex of the returned path relative to the fresh directory
//!     (or of the error strings joined by U+001E), and the complete listing of the fresh directory in the
//!     same entry syntax (sorted).  The fresh directory is removed before answering.
//!     Every occurrence of the fresh directory's absolute path inside error strings is replaced by `$DIR`.
//!
//! `m2p <annotate> <source_dir hex> <items>`
//!     calls `mamba::mamba_to_python` directly with the (source, Some(path)|None) vector in the GIVEN order;
//!     items are `<path hex|~>:<source hex>` comma separated.  Answer: `OK h<hex>,h<hex>..` | `ERR h<hex>,..`.
//!
//! `stages <annotate> <items>`
//!     per-file stage results in the context of the whole vector, computed with the public per-stage API
//!     (`str::parse::<AST>`, `Context::try_from`, `check`, `gen_arguments`) and rendered WITHOUT a path
//!     (source attached), so that the model can be instantiated with them:
//!     field 1 per file `ok` | `e<hex msg>`; field 2 `ok` | `-` (not reached) | `e<hex>;<hex>`;
//!     field 3 per file `ok` | `-` | `e<hex>;<hex>..`; field 4 per file `o<hex python>` | `-` | `e<hex>`;
//!     field 5 (only when the context stage failed) per file `ok` | `e<hex>;<hex>..`: the result of building that
//!     file's context alone, which is what `mamba_to_python` uses to attribute context errors.
use std::convert::TryFrom;
use std::fs;
use std::path::{Path, PathBuf};
use std::sync::atomic::{AtomicUsize, Ordering};

use mamba::check::check;
use mamba::check::context::Context;
use mamba::common::result::WithSource;
use mamba::generate::{gen_arguments, GenArguments};
use mamba::parse::ast::AST;
use mamba::{mamba_to_python, transpile_dir, Arguments, PipelineArguments};

use crate::sexp::{hex, unhex};

static COUNTER: AtomicUsize = AtomicUsize::new(0);

pub fn dispatch(fields: &[&str]) -> String {
    match fields.first().copied() {
        Some("dir") => dir(&fields[1..]),
        Some("m2p") => m2p(&fields[1..]),
        Some("stages") => stages(&fields[1..]),
        _ => "BAD\tunknown project sub-command".into(),
    }
}

fn opt(field: Option<&&str>) -> Result<Option<String>, String> {
    match field {
        None => Err("missing field".into()),
        Some(&"~") => Ok(None),
        Some(h) => unhex(h).map(Some),
    }
}

struct Cleanup(PathBuf);
impl Drop for Cleanup {
    fn drop(&mut self) {
        let _ = fs::remove_dir_all(&self.0);
    }
}

fn listing(root: &Path, dir: &Path, out: &mut Vec<String>) -> Result<(), String> {
    let mut entries: Vec<_> = fs::read_dir(dir)
        .map_err(|e| e.to_string())?
        .collect::<Result<Vec<_>, _>>()
        .map_err(|e| e.to_string())?;
    entries.sort_by_key(|e| e.file_name());
    for e in entries {
        let p = e.path();
        let rel = p.strip_prefix(root).map_err(|e| e.to_string())?;
        let rel = rel.to_str().ok_or("non-utf8 path")?.to_string();
        let ty = e.file_type().map_err(|e| e.to_string())?;
        if ty.is_dir() {
            out.push(format!("D:{}", hex(&rel)));
            listing(root, &p, out)?;
        } else {
            let bytes = fs::read(&p).map_err(|e| e.to_string())?;
            let h: String = bytes.iter().map(|b| format!("{b:02x}")).collect();
            out.push(format!("F:{}:{}", hex(&rel), h));
        }
    }
    Ok(())
}

fn dir(fields: &[&str]) -> String {
    let base = match fields.first().map(|h| unhex(h)) {
        Some(Ok(b)) if !b.is_empty() => PathBuf::from(b),
        _ => return "BAD\tbase".into(),
    };
    let annotate = fields.get(1).copied() == Some("1");
    let (src, target) = match (opt(fields.get(2)), opt(fields.get(3))) {
        (Ok(s), Ok(t)) => (s, t),
        _ => return "BAD\tsrc/target".into(),
    };
    let runs: usize = fields.get(4).and_then(|r| r.parse().ok()).unwrap_or(1);
    let entries = fields.get(5).copied().unwrap_or("");

    let n = COUNTER.fetch_add(1, Ordering::SeqCst);
    let root = base.join(format!("p{}_{}", std::process::id(), n));
    if fs::create_dir_all(&root).is_err() {
        return "BAD\tcannot create project directory".into();
    }
    let _cleanup = Cleanup(root.clone());
    // canonical form so that the replacement of the absolute path in messages is reliable
    let root = match root.canonicalize() {
        Ok(r) => r,
        Err(e) => return format!("BAD\t{e}"),
    };

    for entry in entries.split(',').filter(|e| !e.is_empty()) {
        let parts: Vec<&str> = entry.split(':').collect();
        let rel = match parts.get(1).map(|h| unhex(h)) {
            Some(Ok(r)) => r,
            _ => return "BAD\tentry path".into(),
        };
        let p = root.join(&rel);
        let res = match parts[0] {
            "D" => fs::create_dir_all(&p),
            "F" => {
                let content = match parts.get(2) {
                    Some(h) => match bytes_of(h) {
                        Ok(c) => c,
                        Err(e) => return format!("BAD\t{e}"),
                    },
                    None => return "BAD\tentry content".into(),
                };
                p.parent().map_or(Ok(()), fs::create_dir_all).and_then(|_| fs::write(&p, content))
            }
            _ => return "BAD\tentry kind".into(),
        };
        if let Err(e) = res {
            return format!("BAD\tpopulate {rel}: {e}");
        }
    }

    let root_str = root.to_str().unwrap_or_default().to_string();
    let mut answer = vec![];
    for _ in 0..runs {
        let res = transpile_dir(&root, src.as_deref(), target.as_deref(), &Arguments { annotate });
        match res {
            Ok(p) => {
                let rel = p.strip_prefix(&root).map(|r| r.to_path_buf()).unwrap_or(p);
                answer.push("OK".to_string());
                answer.push(hex(rel.to_str().unwrap_or_default()));
            }
            Err(errs) => {
                let errs: Vec<String> = errs.iter().map(|e| e.replace(&root_str, "$DIR")).collect();
                answer.push("ERR".to_string());
                answer.push(hex(&errs.join("\u{1e}")));
            }
        }
        let mut l = vec![];
        if let Err(e) = listing(&root, &root, &mut l) {
            return format!("BAD\tlisting: {e}");
        }
        answer.push(l.join(","));
    }
    answer.join("\t")
}

fn bytes_of(h: &str) -> Result<Vec<u8>, String> {
    if h.len() % 2 != 0 {
        return Err("odd hex".into());
    }
    (0..h.len())
        .step_by(2)
        .map(|i| u8::from_str_radix(&h[i..i + 2], 16).map_err(|e| e.to_string()))
        .collect()
}

fn items(field: Option<&&str>) -> Result<Vec<(String, Option<PathBuf>)>, String> {
    let mut out = vec![];
    for item in field.copied().unwrap_or("").split(',').filter(|e| !e.is_empty()) {
        let (p, s) = item.split_once(':').ok_or("item without ':'")?;
        let path = if p == "~" { None } else { Some(PathBuf::from(unhex(p)?)) };
        out.push((unhex(s)?, path));
    }
    Ok(out)
}

fn hlist(v: &[String]) -> String {
    v.iter().map(|s| format!("h{}", hex(s))).collect::<Vec<_>>().join(",")
}

fn m2p(fields: &[&str]) -> String {
    let annotate = fields.first().copied() == Some("1");
    let source_dir = match fields.get(1).map(|h| unhex(h)) {
        Some(Ok(d)) => PathBuf::from(d),
        _ => return "BAD\tsource_dir".into(),
    };
    let input = match items(fields.get(2)) {
        Ok(i) => i,
        Err(e) => return format!("BAD\t{e}"),
    };
    match mamba_to_python(&input, &source_dir, &PipelineArguments { annotate }) {
        Ok(out) => format!("OK\t{}", hlist(&out)),
        Err(errs) => format!("ERR\t{}", hlist(&errs)),
    }
}

fn stages(fields: &[&str]) -> String {
    let annotate = fields.first().copied() == Some("1");
    let input = match items(fields.get(1)) {
        Ok(i) => i,
        Err(e) => return format!("BAD\t{e}"),
    };
    let n = input.len();
    let parsed: Vec<Result<AST, String>> = input
        .iter()
        .map(|(src, _)| {
            src.parse::<AST>()
                .map_err(|err| format!("{}", err.with_source(&Some(src.clone()), &None)))
        })
        .collect();
    let f1: Vec<String> = parsed
        .iter()
        .map(|r| match r {
            Ok(_) => "ok".to_string(),
            Err(m) => format!("e{}", hex(m)),
        })
        .collect();
    let dash = |k: usize| vec!["-".to_string(); k].join(",");
    if parsed.iter().any(|r| r.is_err()) {
        return format!("OK\t{}\t-\t{}\t{}", f1.join(","), dash(n), dash(n));
    }
    let asts: Vec<AST> = parsed.into_iter().map(Result::unwrap).collect();
    let ctx = match Context::try_from(asts.as_ref()) {
        Ok(ctx) => ctx,
        Err(errs) => {
            let msgs: Vec<String> = errs.iter().map(|e| hex(&format!("{e}"))).collect();
            // which files fail when their context is built alone (source attached, no path)
            let alone: Vec<String> = asts
                .iter()
                .zip(&input)
                .map(|(ast, (src, _))| match Context::try_from(std::slice::from_ref(ast)) {
                    Ok(_) => "ok".to_string(),
                    Err(errs) => {
                        let ms: Vec<String> = errs
                            .into_iter()
                            .map(|e| hex(&format!("{}", e.with_source(&Some(src.clone()), &None))))
                            .collect();
                        format!("e{}", ms.join(";"))
                    }
                })
                .collect();
            return format!(
                "OK\t{}\te{}\t{}\t{}\t{}",
                f1.join(","),
                msgs.join(";"),
                dash(n),
                dash(n),
                alone.join(",")
            );
        }
    };
    let mut f3 = vec![];
    let mut f4 = vec![];
    for (ast, (src, _)) in asts.iter().zip(&input) {
        match check(ast, &ctx) {
            Ok(typed) => {
                f3.push("ok".to_string());
                match gen_arguments(&typed, &GenArguments { annotate }, &ctx) {
                    Ok(core) => f4.push(format!("o{}", hex(&format!("{core}")))),
                    Err(err) => {
                        let e = err.with_source(&Some(src.clone()), &None);
                        f4.push(format!("e{}", hex(&format!("{e}"))))
                    }
                }
            }
            Err(errs) => {
                let msgs: Vec<String> = errs
                    .iter()
                    .map(|e| hex(&format!("{}", e.clone().with_source(&Some(src.clone()), &None))))
                    .collect();
                f3.push(format!("e{}", msgs.join(";")));
                f4.push("-".to_string());
            }
        }
    }
    format!("OK\t{}\tok\t{}\t{}", f1.join(","), f3.join(","), f4.join(","))
}
