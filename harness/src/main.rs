//! Line-protocol harness around the `mamba` crate (implementation side of every correspondence check).
//!
//! stdin : `id \t endpoint \t field ...`      (fields are hex strings or S-expressions)
//! stdout: `id \t status \t field ...`
//! Panics are caught and reported as status `PANIC`; a crash of the process (stack overflow, abort)
//! is detected by the orchestrator, which restarts after the offending line.
use std::convert::TryFrom;
use std::io::{BufRead, Write};
use std::panic::{catch_unwind, AssertUnwindSafe};
use std::path::PathBuf;

use mamba::check::check;
use mamba::check::context::Context;
use mamba::generate::{gen_arguments, GenArguments};
use mamba::parse::ast::AST;
use mamba::{mamba_to_python, PipelineArguments};

mod core_sx;
mod sexp;
mod types;
mod diag;
mod project;
mod repeat;
mod gen;

use sexp::{hex, unhex};

fn stage_of(src: &str) -> &'static str {
    // Mirrors the stage order of `mamba_to_python` for one file.
    let ast = match src.parse::<AST>() {
        Ok(ast) => ast,
        Err(_) => return "parse",
    };
    let asts = vec![ast];
    let ctx = match Context::try_from(asts.as_ref()) {
        Ok(ctx) => ctx,
        Err(_) => return "context",
    };
    let typed = match check(&asts[0], &ctx) {
        Ok(t) => t,
        Err(_) => return "type",
    };
    match gen_arguments(&typed, &GenArguments { annotate: false }, &ctx) {
        Ok(_) => "none",
        Err(_) => "gen",
    }
}

fn transpile(fields: &[&str]) -> String {
    let annotate = fields.first().copied() == Some("1");
    let src = match fields.get(1).map(|h| unhex(h)) {
        Some(Ok(s)) => s,
        _ => return "BAD\tsource".into(),
    };
    let path = fields.get(2).and_then(|h| unhex(h).ok()).filter(|p| !p.is_empty());
    let input = vec![(src.clone(), path.map(PathBuf::from))];
    let args = PipelineArguments { annotate };
    match mamba_to_python(&input, &PathBuf::from(""), &args) {
        Ok(out) => format!("OK\t{}", hex(&out.join("\u{1e}"))),
        Err(errs) => {
            let stage = catch_unwind(AssertUnwindSafe(|| stage_of(&src))).unwrap_or("panic");
            format!("ERR\t{stage}\t{}", hex(&errs.join("\u{1e}")))
        }
    }
}

fn print(fields: &[&str]) -> String {
    let sx = match fields.first().map(|s| sexp::parse(s)) {
        Some(Ok(sx)) => sx,
        Some(Err(e)) => return format!("BAD\t{e}"),
        None => return "BAD\tmissing".into(),
    };
    match core_sx::core(&sx) {
        Ok(core) => format!("OK\t{}", hex(&format!("{core}"))),
        Err(e) => format!("BAD\t{e}"),
    }
}

#[cfg(mamba_verif)]
fn lex(fields: &[&str]) -> String {
    let src = match fields.first().map(|h| unhex(h)) {
        Some(Ok(s)) => s,
        _ => return "BAD\tsource".into(),
    };
    match mamba::parse::verif_lex(&src) {
        Ok(tokens) => {
            let parts: Vec<String> = tokens
                .iter()
                .map(|(k, lexeme, s, e)| {
                    format!("{k},{},{},{},{},{}", hex(lexeme), s.0, s.1, e.0, e.1)
                })
                .collect();
            format!("OK\t{}", parts.join(";"))
        }
        Err((l, p, msg)) => format!("ERR\t{l}\t{p}\t{}", hex(&msg)),
    }
}

#[cfg(not(mamba_verif))]
fn lex(_fields: &[&str]) -> String {
    "BAD\thooks-disabled".into()
}

fn dispatch(endpoint: &str, fields: &[&str]) -> String {
    match endpoint {
        "print" => print(fields),
        "transpile" => transpile(fields),
        "lex" => lex(fields),
        "super" | "union" | "types" => types::dispatch(endpoint, fields),
        "render" => diag::dispatch(fields),
        "project" => project::dispatch(fields),
        "repeat" => repeat::dispatch(fields),
        "gen" => gen::dispatch(fields),
        "ping" => "OK".into(),
        other => format!("BAD\tunknown endpoint {other}"),
    }
}

fn main() {
    std::panic::set_hook(Box::new(|_| {}));
    let stdin = std::io::stdin();
    let stdout = std::io::stdout();
    let mut out = stdout.lock();
    for line in stdin.lock().lines() {
        let line = match line {
            Ok(l) => l,
            Err(_) => break,
        };
        if line.is_empty() {
            continue;
        }
        let mut parts = line.split('\t');
        let id = parts.next().unwrap_or("");
        let endpoint = parts.next().unwrap_or("");
        let fields: Vec<&str> = parts.collect();
        let res = catch_unwind(AssertUnwindSafe(|| dispatch(endpoint, &fields)));
        let res = match res {
            Ok(r) => r,
            Err(p) => {
                let msg = p
                    .downcast_ref::<String>()
                    .cloned()
                    .or_else(|| p.downcast_ref::<&str>().map(|s| s.to_string()))
                    .unwrap_or_default();
                format!("PANIC\t{}", hex(&msg))
            }
        };
        writeln!(out, "{id}\t{res}").ok();
        out.flush().ok();
    }
}
