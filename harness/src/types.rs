//! `super` / `union` / `types` endpoints (C20, rule-level half of C06).
//!
//! Everything goes through the PUBLIC API of the crate: a `Context` is built from Mamba source text
//! (`Context::try_from(&[AST])`), names are built with `StringName::new`, `TrueName::from`, `as_nullable`,
//! `Name::from(&Vec<TrueName>)`, `Name::is_interchangeable`, and the relation is `Name::is_superset_of`,
//! `Name::union`, `Name::trim_super`.
//!
//! Text syntax of names (no blanks):
//!   name := ['~'] ( '{' [tn (',' tn)*] '}' | tn )        `~` = interchangeable, `{}` = empty name
//!   tn   := sn ['?']                                      `?` = nullable
//!   sn   := '(' ')'                                       StringName::empty(), i.e. name "()"
//!         | '(' name (',' name)* ')'                      tuple  = StringName::new("Tuple", ..)
//!         | 'Fun(' [name (',' name)*] ')->' name          callable = StringName::callable(args, ret)
//!         | ident ['[' name (',' name)* ']']              class with generic arguments
//! Canonical output: members sorted by their text, single non-interchangeable member without braces.
//!
//! Requests
//!   super  <hex src> <A> <B>            -> OK T|F | ERR <hex msg> | CTX <stage> <hex msg>
//!   union  <A> <B>                      -> OK <canonical A u B>
//!   types  matrix <hex src> <A1;..;An>  -> OK row1/row2/..    row i = answers of Ai >= Aj, chars T F E
//!   types  rect <hex src> <As> <Bs>     -> OK rows            row i = answers of Ai >= Bj
//!   types  unions <As> <Bs>             -> OK u11;u12;../u21;..   canonical Ai u Bj
//!   types  trim <hex src> <A>           -> OK <canonical trim_super>
//!   types  trims <hex src> <As>         -> OK t1;t2;..          canonical trim_super of each
//!   types  show <A>                     -> OK <canonical> <Display of the crate, hex>
use std::convert::TryFrom;

use mamba::check::context::Context;
use mamba::check::name::string_name::StringName;
use mamba::check::name::true_name::TrueName;
use mamba::check::name::{IsSuperSet, Name, Nullable, TupleCallable, Union};
use mamba::common::position::Position;
use mamba::parse::ast::AST;

use crate::sexp::{hex, unhex};

// ---- parser of the text syntax -------------------------------------------------------------------

struct P<'a> {
    s: &'a [u8],
    i: usize,
}

impl<'a> P<'a> {
    fn peek(&self) -> Option<u8> {
        self.s.get(self.i).copied()
    }
    fn eat(&mut self, c: u8) -> bool {
        if self.peek() == Some(c) {
            self.i += 1;
            true
        } else {
            false
        }
    }
    fn expect(&mut self, c: u8) -> Result<(), String> {
        if self.eat(c) {
            Ok(())
        } else {
            Err(format!("expected '{}' at {}", c as char, self.i))
        }
    }

    fn list(&mut self, close: u8) -> Result<Vec<Name>, String> {
        let mut out = vec![];
        if self.eat(close) {
            return Ok(out);
        }
        loop {
            out.push(self.name()?);
            if self.eat(b',') {
                continue;
            }
            self.expect(close)?;
            return Ok(out);
        }
    }

    fn name(&mut self) -> Result<Name, String> {
        let inter = self.eat(b'~');
        let name = if self.eat(b'{') {
            let mut tns = vec![];
            if !self.eat(b'}') {
                loop {
                    tns.push(self.tn()?);
                    if self.eat(b',') {
                        continue;
                    }
                    self.expect(b'}')?;
                    break;
                }
            }
            Name::from(&tns)
        } else {
            Name::from(&self.tn()?)
        };
        Ok(if inter { name.is_interchangeable(true) } else { name })
    }

    fn tn(&mut self) -> Result<TrueName, String> {
        let sn = self.sn()?;
        let tn = TrueName::from(&sn);
        Ok(if self.eat(b'?') { tn.as_nullable() } else { tn })
    }

    fn sn(&mut self) -> Result<StringName, String> {
        if self.eat(b'(') {
            let elems = self.list(b')')?;
            return Ok(if elems.is_empty() { StringName::new("()", &[]) } else { StringName::tuple(&elems) });
        }
        let start = self.i;
        while let Some(c) = self.peek() {
            if c.is_ascii_alphanumeric() || c == b'_' || c == b'@' {
                self.i += 1;
            } else {
                break;
            }
        }
        if start == self.i {
            return Err(format!("expected a name at {}", self.i));
        }
        let id = std::str::from_utf8(&self.s[start..self.i]).map_err(|e| e.to_string())?.to_string();
        if id == "Fun" && self.peek() == Some(b'(') {
            self.i += 1;
            let args = self.list(b')')?;
            self.expect(b'-')?;
            self.expect(b'>')?;
            let ret = self.name()?;
            return Ok(StringName::callable(&args, &ret));
        }
        let generics = if self.eat(b'[') { self.list(b']')? } else { vec![] };
        Ok(StringName::new(&id, &generics))
    }
}

pub fn parse_name(text: &str) -> Result<Name, String> {
    let mut p = P { s: text.as_bytes(), i: 0 };
    let n = p.name()?;
    if p.i != text.len() {
        return Err(format!("trailing text at {} in {text}", p.i));
    }
    Ok(n)
}

// ---- canonical printer -----------------------------------------------------------------------------

fn show_sn(sn: &StringName) -> String {
    let gens = || sn.generics.iter().map(show_name).collect::<Vec<_>>().join(",");
    if sn.name == "Tuple" && !sn.generics.is_empty() {
        return format!("({})", gens());
    }
    if sn.name == "()" && sn.generics.is_empty() {
        return "()".into();
    }
    if sn.name == "Callable" && sn.generics.len() == 2 && sn.generics[0].names.len() == 1 {
        let a = sn.generics[0].names.iter().next().unwrap();
        if a.variant.name.is_empty() && !a.is_nullable && !sn.generics[0].is_interchangeable {
            let args = a.variant.generics.iter().map(show_name).collect::<Vec<_>>().join(",");
            return format!("Fun({args})->{}", show_name(&sn.generics[1]));
        }
    }
    if sn.generics.is_empty() {
        sn.name.clone()
    } else {
        format!("{}[{}]", sn.name, gens())
    }
}

fn show_tn(tn: &TrueName) -> String {
    format!("{}{}{}", if tn.is_mutable { "" } else { "fin:" }, show_sn(&tn.variant), if tn.is_nullable { "?" } else { "" })
}

pub fn show_name(n: &Name) -> String {
    let mut ms: Vec<String> = n.names.iter().map(show_tn).collect();
    ms.sort();
    let body = if ms.len() == 1 { ms.pop().unwrap() } else { format!("{{{}}}", ms.join(",")) };
    format!("{}{}", if n.is_interchangeable { "~" } else { "" }, body)
}

// ---- context -----------------------------------------------------------------------------------------

fn context(hexsrc: &str) -> Result<Context, String> {
    let src = unhex(hexsrc).map_err(|_| "BAD\tsource".to_string())?;
    let asts: Vec<AST> = if src.trim().is_empty() {
        vec![]
    } else {
        match src.parse::<AST>() {
            Ok(a) => vec![a],
            Err(e) => return Err(format!("CTX\tparse\t{}", hex(&format!("{e:?}")))),
        }
    };
    Context::try_from(asts.as_slice()).map_err(|errs| {
        let msgs: Vec<String> = errs.iter().map(|e| format!("{e}")).collect();
        format!("CTX\tcontext\t{}", hex(&msgs.join("\u{1e}")))
    })
}

fn names(field: Option<&&str>) -> Result<Vec<Name>, String> {
    let f = field.ok_or("BAD\tmissing list")?;
    if f.is_empty() {
        return Ok(vec![]);
    }
    f.split(';').map(|t| parse_name(t).map_err(|e| format!("BAD\t{e}"))).collect()
}

fn sup(ctx: &Context, a: &Name, b: &Name) -> Result<bool, String> {
    a.is_superset_of(b, ctx, Position::invisible())
        .map_err(|errs| errs.iter().map(|e| format!("{e}")).collect::<Vec<_>>().join("\u{1e}"))
}

fn rect(ctx: &Context, xs: &[Name], ys: &[Name]) -> String {
    let rows: Vec<String> = xs
        .iter()
        .map(|a| {
            ys.iter()
                .map(|b| match sup(ctx, a, b) {
                    Ok(true) => 'T',
                    Ok(false) => 'F',
                    Err(_) => 'E',
                })
                .collect()
        })
        .collect();
    format!("OK\t{}", rows.join("/"))
}

fn run(endpoint: &str, fields: &[&str]) -> Result<String, String> {
    match endpoint {
        "super" => {
            let ctx = context(fields.first().ok_or("BAD\tmissing source")?)?;
            let a = parse_name(fields.get(1).ok_or("BAD\tmissing A")?).map_err(|e| format!("BAD\t{e}"))?;
            let b = parse_name(fields.get(2).ok_or("BAD\tmissing B")?).map_err(|e| format!("BAD\t{e}"))?;
            Ok(match sup(&ctx, &a, &b) {
                Ok(v) => format!("OK\t{}", if v { "T" } else { "F" }),
                Err(m) => format!("ERR\t{}", hex(&m)),
            })
        }
        "union" => {
            let a = parse_name(fields.first().ok_or("BAD\tmissing A")?).map_err(|e| format!("BAD\t{e}"))?;
            let b = parse_name(fields.get(1).ok_or("BAD\tmissing B")?).map_err(|e| format!("BAD\t{e}"))?;
            Ok(format!("OK\t{}", show_name(&a.union(&b))))
        }
        "types" => match fields.first().copied() {
            Some("matrix") => {
                let ctx = context(fields.get(1).ok_or("BAD\tmissing source")?)?;
                let xs = names(fields.get(2))?;
                Ok(rect(&ctx, &xs, &xs))
            }
            Some("rect") => {
                let ctx = context(fields.get(1).ok_or("BAD\tmissing source")?)?;
                let xs = names(fields.get(2))?;
                let ys = names(fields.get(3))?;
                Ok(rect(&ctx, &xs, &ys))
            }
            Some("unions") => {
                let xs = names(fields.get(1))?;
                let ys = names(fields.get(2))?;
                let rows: Vec<String> = xs
                    .iter()
                    .map(|a| ys.iter().map(|b| show_name(&a.union(b))).collect::<Vec<_>>().join(";"))
                    .collect();
                Ok(format!("OK\t{}", rows.join("/")))
            }
            Some("trim") => {
                let ctx = context(fields.get(1).ok_or("BAD\tmissing source")?)?;
                let a = parse_name(fields.get(2).ok_or("BAD\tmissing A")?).map_err(|e| format!("BAD\t{e}"))?;
                Ok(format!("OK\t{}", show_name(&a.trim_super(&ctx))))
            }
            Some("trims") => {
                let ctx = context(fields.get(1).ok_or("BAD\tmissing source")?)?;
                let xs = names(fields.get(2))?;
                let out: Vec<String> = xs.iter().map(|a| show_name(&a.trim_super(&ctx))).collect();
                Ok(format!("OK\t{}", out.join(";")))
            }
            Some("show") => {
                let a = parse_name(fields.get(1).ok_or("BAD\tmissing A")?).map_err(|e| format!("BAD\t{e}"))?;
                Ok(format!(
                    "OK\t{}\t{}\t{}{}",
                    show_name(&a),
                    hex(&format!("{a}")),
                    if a.is_nullable() { "nullable " } else { "" },
                    if a.is_null() { "null" } else { "" }
                ))
            }
            other => Err(format!("BAD\tunknown types operation {other:?}")),
        },
        other => Err(format!("BAD\tunknown endpoint {other}")),
    }
}

pub fn dispatch(endpoint: &str, fields: &[&str]) -> String {
    match run(endpoint, fields) {
        Ok(s) | Err(s) => s,
    }
}
