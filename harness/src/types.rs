//! `super` / `union` endpoints (filled in with C20).
pub fn dispatch(_endpoint: &str, _fields: &[&str]) -> String {
    "BAD\tnot implemented".into()
}
