//! S-expression -> `mamba::generate::ast::node::Core`.
use mamba::generate::ast::node::{Core, CoreFunOp, CoreOp};

use crate::sexp::Sx;

fn bx(sx: &Sx) -> Result<Box<Core>, String> {
    Ok(Box::from(core(sx)?))
}
fn opt(sx: &Sx) -> Result<Option<Box<Core>>, String> {
    if sx.is_none() {
        Ok(None)
    } else {
        Ok(Some(bx(sx)?))
    }
}
fn vec(sx: &Sx) -> Result<Vec<Core>, String> {
    sx.list()?.iter().map(core).collect()
}
fn arg(args: &[Sx], i: usize) -> Result<&Sx, String> {
    args.get(i).ok_or_else(|| format!("missing argument {i}"))
}

fn core_op(sx: &Sx) -> Result<CoreOp, String> {
    match sx {
        Sx::Atom(a) => Ok(match a.as_str() {
            "Assign" => CoreOp::Assign,
            "AddAssign" => CoreOp::AddAssign,
            "SubAssign" => CoreOp::SubAssign,
            "MulAssign" => CoreOp::MulAssign,
            "DivAssign" => CoreOp::DivAssign,
            "PowAssign" => CoreOp::PowAssign,
            "BLShiftAssign" => CoreOp::BLShiftAssign,
            "BRShiftAssign" => CoreOp::BRShiftAssign,
            o => return Err(format!("unknown CoreOp {o}")),
        }),
        o => Err(format!("bad CoreOp {o:?}")),
    }
}

fn fun_op(sx: &Sx) -> Result<CoreFunOp, String> {
    match sx {
        Sx::Atom(a) => Ok(match a.as_str() {
            "Ge" => CoreFunOp::Ge,
            "Geq" => CoreFunOp::Geq,
            "Le" => CoreFunOp::Le,
            "Leq" => CoreFunOp::Leq,
            "Eq" => CoreFunOp::Eq,
            "Neq" => CoreFunOp::Neq,
            "Add" => CoreFunOp::Add,
            "Sub" => CoreFunOp::Sub,
            "Mul" => CoreFunOp::Mul,
            "Div" => CoreFunOp::Div,
            "Pow" => CoreFunOp::Pow,
            "Mod" => CoreFunOp::Mod,
            "FDiv" => CoreFunOp::FDiv,
            o => return Err(format!("unknown CoreFunOp {o}")),
        }),
        o => Err(format!("bad CoreFunOp {o:?}")),
    }
}

pub fn core(sx: &Sx) -> Result<Core, String> {
    let (head, a) = match sx {
        Sx::Node(h, a) => (h.as_str(), a.as_slice()),
        Sx::Atom(h) => (h.as_str(), &[][..]),
        Sx::List(_) => return Err("list where Core expected".into()),
    };
    macro_rules! bin {
        ($v:ident) => {
            Core::$v { left: bx(arg(a, 0)?)?, right: bx(arg(a, 1)?)? }
        };
    }
    macro_rules! un {
        ($v:ident) => {
            Core::$v { expr: bx(arg(a, 0)?)? }
        };
    }
    Ok(match head {
        "Import" => Core::Import {
            from: opt(arg(a, 0)?)?,
            import: vec(arg(a, 1)?)?,
            alias: vec(arg(a, 2)?)?,
        },
        "ClassDef" => Core::ClassDef {
            name: bx(arg(a, 0)?)?,
            parent_names: vec(arg(a, 1)?)?,
            body: bx(arg(a, 2)?)?,
        },
        "FunctionCall" => Core::FunctionCall { function: bx(arg(a, 0)?)?, args: vec(arg(a, 1)?)? },
        "PropertyCall" => Core::PropertyCall { object: bx(arg(a, 0)?)?, property: bx(arg(a, 1)?)? },
        "Id" => Core::Id { lit: arg(a, 0)?.string()? },
        "Type" => Core::Type { lit: arg(a, 0)?.string()?, generics: vec(arg(a, 1)?)? },
        "ExpressionType" => Core::ExpressionType { expr: bx(arg(a, 0)?)?, ty: bx(arg(a, 1)?)? },
        "Assign" => Core::Assign {
            left: bx(arg(a, 0)?)?,
            right: bx(arg(a, 1)?)?,
            op: core_op(arg(a, 2)?)?,
        },
        "VarDef" => Core::VarDef {
            var: bx(arg(a, 0)?)?,
            ty: opt(arg(a, 1)?)?,
            expr: opt(arg(a, 2)?)?,
        },
        "FunDefOp" => Core::FunDefOp {
            op: fun_op(arg(a, 0)?)?,
            arg: vec(arg(a, 1)?)?,
            ty: opt(arg(a, 2)?)?,
            body: bx(arg(a, 3)?)?,
        },
        "FunDef" => Core::FunDef {
            dec: arg(a, 0)?.list()?.iter().map(Sx::string).collect::<Result<_, _>>()?,
            id: arg(a, 1)?.string()?,
            arg: vec(arg(a, 2)?)?,
            ty: opt(arg(a, 3)?)?,
            body: bx(arg(a, 4)?)?,
        },
        "FunArg" => Core::FunArg {
            vararg: arg(a, 0)?.boolean()?,
            var: bx(arg(a, 1)?)?,
            ty: opt(arg(a, 2)?)?,
            default: opt(arg(a, 3)?)?,
        },
        "AnonFun" => Core::AnonFun { args: vec(arg(a, 0)?)?, body: bx(arg(a, 1)?)? },
        "Block" => Core::Block { statements: vec(arg(a, 0)?)? },
        "Float" => Core::Float { float: arg(a, 0)?.string()? },
        "Int" => Core::Int { int: arg(a, 0)?.string()? },
        "ENum" => Core::ENum { num: arg(a, 0)?.string()?, exp: arg(a, 1)?.string()? },
        "DocStr" => Core::DocStr { string: arg(a, 0)?.string()? },
        "Str" => Core::Str { string: arg(a, 0)?.string()? },
        "FStr" => Core::FStr { string: arg(a, 0)?.string()? },
        "Bool" => Core::Bool { boolean: arg(a, 0)?.boolean()? },
        "Tuple" => Core::Tuple { elements: vec(arg(a, 0)?)? },
        "TupleLiteral" => Core::TupleLiteral { elements: vec(arg(a, 0)?)? },
        "DictComprehension" => Core::DictComprehension {
            from: bx(arg(a, 0)?)?,
            to: bx(arg(a, 1)?)?,
            col: bx(arg(a, 2)?)?,
            conds: vec(arg(a, 3)?)?,
        },
        "Comprehension" => Core::Comprehension {
            expr: bx(arg(a, 0)?)?,
            col: bx(arg(a, 1)?)?,
            conds: vec(arg(a, 2)?)?,
        },
        "Dictionary" => {
            let mut elements = std::vec::Vec::new();
            for kv in arg(a, 0)?.list()? {
                let kv = kv.list()?;
                elements.push((core(arg(kv, 0)?)?, core(arg(kv, 1)?)?));
            }
            Core::Dictionary { elements }
        }
        "Set" => Core::Set { elements: vec(arg(a, 0)?)? },
        "List" => Core::List { elements: vec(arg(a, 0)?)? },
        "Index" => Core::Index { item: bx(arg(a, 0)?)?, range: bx(arg(a, 1)?)? },
        "Ge" => bin!(Ge),
        "Geq" => bin!(Geq),
        "Le" => bin!(Le),
        "Leq" => bin!(Leq),
        "Not" => un!(Not),
        "Is" => bin!(Is),
        "IsN" => bin!(IsN),
        "Eq" => bin!(Eq),
        "Neq" => bin!(Neq),
        "IsA" => bin!(IsA),
        "And" => bin!(And),
        "Or" => bin!(Or),
        "Add" => bin!(Add),
        "AddU" => un!(AddU),
        "Sub" => bin!(Sub),
        "SubU" => un!(SubU),
        "Mul" => bin!(Mul),
        "Mod" => bin!(Mod),
        "Pow" => bin!(Pow),
        "Div" => bin!(Div),
        "FDiv" => bin!(FDiv),
        "Sqrt" => un!(Sqrt),
        "BAnd" => bin!(BAnd),
        "BOr" => bin!(BOr),
        "BXOr" => bin!(BXOr),
        "BOneCmpl" => un!(BOneCmpl),
        "BLShift" => bin!(BLShift),
        "BRShift" => bin!(BRShift),
        "For" => Core::For { expr: bx(arg(a, 0)?)?, col: bx(arg(a, 1)?)?, body: bx(arg(a, 2)?)? },
        "If" => Core::If { cond: bx(arg(a, 0)?)?, then: bx(arg(a, 1)?)? },
        "IfElse" => Core::IfElse {
            cond: bx(arg(a, 0)?)?,
            then: bx(arg(a, 1)?)?,
            el: bx(arg(a, 2)?)?,
        },
        "Match" => Core::Match { expr: bx(arg(a, 0)?)?, cases: vec(arg(a, 1)?)? },
        "Case" => Core::Case { expr: bx(arg(a, 0)?)?, body: bx(arg(a, 1)?)? },
        "Ternary" => Core::Ternary {
            cond: bx(arg(a, 0)?)?,
            then: bx(arg(a, 1)?)?,
            el: bx(arg(a, 2)?)?,
        },
        "KeyValue" => Core::KeyValue { key: bx(arg(a, 0)?)?, value: bx(arg(a, 1)?)? },
        "While" => Core::While { cond: bx(arg(a, 0)?)?, body: bx(arg(a, 1)?)? },
        "In" => bin!(In),
        "Break" => Core::Break,
        "Continue" => Core::Continue,
        "Return" => un!(Return),
        "UnderScore" => Core::UnderScore,
        "Pass" => Core::Pass,
        "None" => Core::None,
        "Empty" => Core::Empty,
        "TryExcept" => Core::TryExcept {
            setup: opt(arg(a, 0)?)?,
            attempt: bx(arg(a, 1)?)?,
            except: vec(arg(a, 2)?)?,
        },
        "ExceptId" => Core::ExceptId {
            id: bx(arg(a, 0)?)?,
            class: bx(arg(a, 1)?)?,
            body: bx(arg(a, 2)?)?,
        },
        "Except" => Core::Except { class: bx(arg(a, 0)?)?, body: bx(arg(a, 1)?)? },
        "Raise" => Core::Raise { error: bx(arg(a, 0)?)? },
        "With" => Core::With { resource: bx(arg(a, 0)?)?, expr: bx(arg(a, 1)?)? },
        "WithAs" => Core::WithAs {
            resource: bx(arg(a, 0)?)?,
            alias: bx(arg(a, 1)?)?,
            expr: bx(arg(a, 2)?)?,
        },
        other => return Err(format!("unknown Core constructor {other}")),
    })
}
