//! `render` endpoint (filled in with C19).
pub fn dispatch(_fields: &[&str]) -> String {
    "BAD\tnot implemented".into()
}
