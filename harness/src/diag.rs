//! `render` endpoint (C19): build a diagnostic value from plain data through the public API of the
//! `mamba` crate and return `format!("{err}")`.
//!
//! request : `render <kind> <pos> <hex msg> <causes> <source> <path> [<extra>]`
//!   kind   : `type`   TypeErr::new(pos, msg) [.with_cause(m, p)]* .with_source(src, path)
//!            `typenp` TypeErr::new_no_pos(msg) [.with_cause]* .with_source           (pos field ignored)
//!            `parse`  ParseErr { pos, msg, source, path, causes } (all fields are public)
//!            `parsec` parse::result::custom(msg, pos) [.with_cause(m, p)]* .with_source
//!            `gen`    UnimplementedErr { position, msg, source, path }               (causes ignored)
//!            `lex`    LexErr: not constructible from outside the crate (`parse::lex` is private);
//!                     answered only when the harness is built with `--cfg mamba_verif` against
//!                     a tree that carries the hook of repo_patches/c19-lexerr-hook.diff
//!   pos    : `sl,sc,el,ec` (usize each) or `~`
//!   causes : `-` or `;`-separated `<hex msg>:sl,sc,el,ec`
//!   source : `~` or `s:<hex>`          path: `~` or `s:<hex>`
//!   extra  : lex only: `~` (no token) or hex of an identifier (token = Id(name), width = its byte length)
//! response: `OK <hex rendered text>`; a panic is caught by main.rs (`PANIC <hex msg>`).
#![allow(unexpected_cfgs)]
use std::path::PathBuf;

use mamba::check::result::TypeErr;
use mamba::common::position::{CaretPos, Position};
use mamba::common::result::{Cause, WithCause, WithSource};
use mamba::generate::result::UnimplementedErr;
use mamba::parse::result::{custom, ParseErr};

use crate::sexp::{hex, unhex};

fn pos(s: &str) -> Result<Position, String> {
    let n: Result<Vec<usize>, _> = s.split(',').map(|x| x.parse::<usize>()).collect();
    match n {
        Ok(v) if v.len() == 4 => Ok(Position::new(CaretPos::new(v[0], v[1]), CaretPos::new(v[2], v[3]))),
        _ => Err(format!("bad position {s}")),
    }
}

fn opt_str(s: &str) -> Result<Option<String>, String> {
    if s == "~" {
        Ok(None)
    } else if let Some(h) = s.strip_prefix("s:") {
        unhex(h).map(Some).map_err(|e| format!("bad hex: {e}"))
    } else {
        Err(format!("bad optional string {s}"))
    }
}

fn causes(s: &str) -> Result<Vec<(String, Position)>, String> {
    if s == "-" || s.is_empty() {
        return Ok(vec![]);
    }
    s.split(';')
        .map(|c| {
            let (m, p) = c.split_once(':').ok_or_else(|| format!("bad cause {c}"))?;
            Ok((unhex(m).map_err(|e| format!("bad hex: {e}"))?, pos(p)?))
        })
        .collect()
}

#[cfg(mamba_verif)]
fn lex(p: &str, msg: &str, source: &Option<String>, path: &Option<PathBuf>, extra: Option<&str>) -> String {
    let n: Vec<usize> = p.split(',').filter_map(|x| x.parse::<usize>().ok()).collect();
    if n.len() < 2 {
        return "BAD\tposition".into();
    }
    let token = match extra {
        Some("~") | None => None,
        Some(h) => unhex(h).ok(),
    };
    let text = mamba::parse::verif_render_lex_err(n[0], n[1], token.as_deref(), msg, source, path);
    format!("OK\t{}", hex(&text))
}

#[cfg(not(mamba_verif))]
fn lex(_p: &str, _msg: &str, _source: &Option<String>, _path: &Option<PathBuf>, _extra: Option<&str>) -> String {
    "BAD\tno-lexerr-hook".into()
}

pub fn dispatch(fields: &[&str]) -> String {
    if fields.len() < 6 {
        return "BAD\tfields".into();
    }
    let kind = fields[0];
    let msg = match unhex(fields[2]) {
        Ok(m) => m,
        Err(e) => return format!("BAD\tmsg {e}"),
    };
    let cs = match causes(fields[3]) {
        Ok(c) => c,
        Err(e) => return format!("BAD\t{e}"),
    };
    let source = match opt_str(fields[4]) {
        Ok(s) => s,
        Err(e) => return format!("BAD\t{e}"),
    };
    let path = match opt_str(fields[5]) {
        Ok(s) => s.map(PathBuf::from),
        Err(e) => return format!("BAD\t{e}"),
    };
    if kind == "lex" {
        return lex(fields[1], &msg, &source, &path, fields.get(6).copied());
    }
    let position = if fields[1] == "~" {
        None
    } else {
        match pos(fields[1]) {
            Ok(p) => Some(p),
            Err(e) => return format!("BAD\t{e}"),
        }
    };
    let need = |p: Option<Position>| p.ok_or_else(|| "BAD\tposition required".to_string());
    let text = match kind {
        "type" => {
            let p = match need(position) {
                Ok(p) => p,
                Err(e) => return e,
            };
            let mut err = TypeErr::new(p, &msg);
            for (m, cp) in &cs {
                err = err.with_cause(m, *cp);
            }
            format!("{}", err.with_source(&source, &path))
        }
        "typenp" => {
            let mut err = TypeErr::new_no_pos(&msg);
            for (m, cp) in &cs {
                err = err.with_cause(m, *cp);
            }
            format!("{}", err.with_source(&source, &path))
        }
        "parse" => {
            let p = match need(position) {
                Ok(p) => p,
                Err(e) => return e,
            };
            let err = ParseErr {
                pos: p,
                msg,
                source: source.clone(),
                path: path.clone(),
                causes: cs.iter().map(|(m, cp)| Cause::new(m, *cp)).collect(),
            };
            format!("{err}")
        }
        "parsec" => {
            let p = match need(position) {
                Ok(p) => p,
                Err(e) => return e,
            };
            let mut err = custom(&msg, p);
            for (m, cp) in &cs {
                err = err.with_cause(m, *cp);
            }
            format!("{}", err.with_source(&source, &path))
        }
        "gen" => {
            let p = match need(position) {
                Ok(p) => p,
                Err(e) => return e,
            };
            let err = UnimplementedErr { position: p, msg, source: None, path: None };
            format!("{}", err.with_source(&source, &path))
        }
        other => return format!("BAD\tunknown kind {other}"),
    };
    format!("OK\t{}", hex(&text))
}
