//! `gen` endpoint: typed AST and generated Core of one source, as Rust `Debug` text
//! (parsed by lib/vlib/rustdebug.py), plus the emitted Python.
use std::convert::TryFrom;

use mamba::check::check;
use mamba::check::context::Context;
use mamba::generate::{gen_arguments, GenArguments};
use mamba::parse::ast::AST;

use crate::sexp::{hex, unhex};

pub fn dispatch(fields: &[&str]) -> String {
    let annotate = fields.first().copied() == Some("1");
    let src = match fields.get(1).map(|h| unhex(h)) {
        Some(Ok(s)) => s,
        _ => return "BAD\tsource".into(),
    };
    let ast = match src.parse::<AST>() {
        Ok(ast) => ast,
        Err(_) => return "ERR\tparse".into(),
    };
    let asts = vec![ast];
    let ctx = match Context::try_from(asts.as_ref()) {
        Ok(ctx) => ctx,
        Err(_) => return "ERR\tcontext".into(),
    };
    let typed = match check(&asts[0], &ctx) {
        Ok(t) => t,
        Err(_) => return "ERR\ttype".into(),
    };
    match gen_arguments(&typed, &GenArguments { annotate }, &ctx) {
        Ok(core) => format!(
            "OK\t{}\t{}\t{}",
            hex(&format!("{typed:?}")),
            hex(&format!("{core:?}")),
            hex(&format!("{core}"))
        ),
        Err(_) => "ERR\tgen".into(),
    }
}
