#!/usr/bin/env python3
"""Translator: method signatures of the checker's built-in classes  ->  coq/gen/StubSigs.v

Reads, on every run, src/check/resource/primitive/*.py and src/check/resource/std/*.py and mirrors
`GenericFunction::from(&Funcdef)` + `GenericFunctionArg::from((name, ty, default))` + `in_class`
(src/check/context/{function,arg,clss}/python.rs, arg/generic.rs):
  - every `def name(params) [-> ret]: ...` line inside a class becomes a row (class, name, params, ret);
  - a parameter is (name, type, has_default); the type goes through `Name::from(&Expression)`
    (`Union[a, b]` = the set of its members, `x[y]` = generic instantiation, anything else a class name
    mapped by python_to_concrete); `self` without annotation gets the class itself (`in_class`);
  - `__init__` rows are kept (they are the constructor arguments of the class: `GenericClass.args`).
The class headers are found the same way translate/stubs.py finds them (two stub files are not valid
Python 3, so only single `def` lines are given to python3's `ast`).  Also reads the operator -> dunder
table of src/check/context/function/python.rs and the operator nodes of constrain/generate/operation.rs.

Exit 0 = written (`same`/`changed`/`created`), 3 = `untranslatable: why` (committed table kept)."""
import ast, hashlib, importlib.util, os, re, sys

HERE = os.path.dirname(os.path.abspath(__file__))
spec = importlib.util.spec_from_file_location("stubs_tr", os.path.join(HERE, "stubs.py"))
stubs_tr = importlib.util.module_from_spec(spec)
spec.loader.exec_module(stubs_tr)
Untranslatable = stubs_tr.Untranslatable

REPO = os.environ.get("VERIF_REPO", "/repo")
OUT = os.path.join(HERE, "..", "coq", "gen", "StubSigs.v")
RES = "src/check/resource"
CORE = ["Int", "Float", "Complex", "Str", "Bool", "None", "Exception"]

DEF = re.compile(r"^(\s+)def\s+(\w+)\s*\((.*)\)\s*(?:->\s*(.+?))?\s*:\s*(?:pass|return .*)?\s*$")


def conc(table, n):
    return table.get(n, n)


def name_of(table, e):
    """Name::from(&Expression) -> list of TrueName triples (nullable, class, generics)."""
    if isinstance(e, ast.Subscript) and isinstance(e.value, ast.Name) and e.value.id == "Union":
        out = []
        for x in stubs_tr.sub_elems(e):
            t = stubs_tr.ty_of(table, x)
            if t not in out:
                out.append(t)
        return out
    if isinstance(e, (ast.Name, ast.Subscript)) or (isinstance(e, ast.Constant) and e.value is None):
        return [stubs_tr.ty_of(table, e)]
    if isinstance(e, ast.Tuple):
        raise Untranslatable("tuple literal type")
    return [("false", "", [])]      # Name::from(&TrueName::empty())


def rows_of(table, text, where):
    """[(class, method, [(pname, type|None, has_default)], ret|None)] in file order."""
    out, cur, cur_indent = [], None, None
    skipped = []
    for line in text.split("\n"):
        m = stubs_tr.HEADER.match(line)
        if m:
            cur = conc(table, m.group(1))
            continue
        if line.strip().startswith("#") or cur is None:
            continue
        d = DEF.match(line)
        if not d:
            if re.match(r"^\s+def\s", line):
                raise Untranslatable(f"{where}: def line of unknown shape: {line.strip()}")
            continue
        src = f"def {d.group(2)}({d.group(3)})" + (f" -> {d.group(4)}" if d.group(4) else "") + ": pass"
        try:
            fn = ast.parse(src).body[0]
        except SyntaxError:
            if cur in CORE:
                raise Untranslatable(f"{where}: cannot parse {line.strip()}")
            skipped.append(f"{cur}.{d.group(2)}")
            continue
        a = fn.args
        if a.vararg or a.kwarg or a.kwonlyargs or a.posonlyargs:
            if cur in CORE:
                raise Untranslatable(f"{where}: non-positional parameters in {line.strip()}")
            skipped.append(f"{cur}.{d.group(2)}")
            continue
        nd = len(a.defaults)
        params = []
        try:
            for i, p in enumerate(a.args):
                has_default = i >= len(a.args) - nd
                ty = name_of(table, p.annotation) if p.annotation is not None else None
                if p.arg == "self" and ty is None:
                    ty = [("false", cur, [])]
                params.append((p.arg, ty, has_default))
            ret = name_of(table, fn.returns) if fn.returns is not None else None
        except Untranslatable:
            if cur in CORE:
                raise
            skipped.append(f"{cur}.{d.group(2)}")
            continue
        out.append((cur, d.group(2), params, ret))
    return out, skipped


def dunder_table(repo):
    """operator constant -> dunder (function/python.rs) and operator node -> constant (operation.rs)."""
    py = open(os.path.join(repo, "src/check/context/function/python.rs")).read()
    consts = dict(re.findall(r'pub const (\w+): &str = "([^"]*)";', py))
    op = open(os.path.join(repo, "src/check/constrain/generate/operation.rs")).read()
    nodes = re.findall(r"Node::(\w+) \{ left, right \} => gen_magic\((\w+), ast, left, right, env, ctx, constr\)", op)
    if len(nodes) < 13:
        raise Untranslatable("operation.rs: gen_magic arms not recognised")
    tab = []
    for node, c in nodes:
        if c not in consts:
            raise Untranslatable("unknown dunder constant " + c)
        tab.append((node, consts[c]))
    fn = open(os.path.join(repo, "src/check/context/function/mod.rs")).read()
    for k in ("STR", "TRUTHY", "INIT"):
        if k not in consts:
            raise Untranslatable("constant " + k + " missing")
    region = "\n".join(sorted(f"{k}={v}" for k, v in consts.items())) + "\n" + "\n".join(f"{a}:{b}" for a, b in nodes)
    return tab, consts, region


def call_param_shape(repo):
    """Does call_parameters (top-level function / constructor calls) look the parameter type up as a class and
    rebuild the Name from the class names (which drops the nullable flag)?"""
    src = open(os.path.join(repo, "src/check/constrain/generate/call.rs")).read()
    m = re.search(r"fn call_parameters\(.*?\n\}\n", src, re.S)
    if not m:
        raise Untranslatable("call_parameters not found")
    body = m.group(0)
    if re.search(r"let name = Name::from\(&ctx\.class\(ty, \*pos\)\?\);", body):
        return True, body
    if re.search(r"Type \{ name: ty\.clone\(\) \}", body) or re.search(r"let name = ty\.clone\(\);", body):
        return False, body
    raise Untranslatable("call_parameters: construction of the expected parameter type has an unknown shape")


def coq_s(s):
    return stubs_tr.coq_s(s)


def coq_name(n):
    return "[" + "; ".join(stubs_tr.coq_ty(t) for t in n) + "]"


def main():
    try:
        table, region, mc = stubs_tr.name_table(REPO)
        ops, consts, dregion = dunder_table(REPO)
        strips, cregion = call_param_shape(REPO)
        h = hashlib.sha256()
        h.update(region.encode()); h.update(dregion.encode()); h.update(cregion.encode())
        rows, skipped = [], []
        for d in ("primitive", "std"):
            dd = os.path.join(REPO, RES, d)
            for f in sorted(os.listdir(dd)):
                p = os.path.join(dd, f)
                if not os.path.isfile(p):
                    continue
                text = open(p).read().replace("\r\n", "\n")
                h.update(f.encode()); h.update(text.encode())
                r, s = rows_of(table, text, f"{d}/{f}")
                rows += r
                skipped += s
        for c in CORE:
            if not any(r[0] == c for r in rows):
                raise Untranslatable("no method rows for core class " + c)
    except (Untranslatable, OSError) as e:
        print(f"untranslatable: {e}")
        return 3
    L = ["(* GENERATED by translate/stub_sigs.py from src/check/resource/{primitive,std}/*.py, "
         "src/check/context/function/python.rs, src/check/constrain/generate/{operation,call}.rs -- do not edit. *)",
         "From Coq Require Import List String.",
         "From MambaModel Require Import model.Types model.TypingSig.",
         "Import ListNotations.", "Local Open Scope string_scope.", "",
         f"Definition stub_sigs_digest : string := {coq_s(h.hexdigest())}.", "",
         "(* rows not translated (not valid Python 3 or non-positional parameters; none in a core class): "
         + ", ".join(skipped) + " *)", "",
         "Definition stub_sigs : list msig :=", "  ["]
    body = []
    for cls, name, params, ret in rows:
        ps = "; ".join("{| sp_name := %s; sp_ty := %s; sp_default := %s |}" % (
            coq_s(n), ("Some " + coq_name(t)) if t is not None else "None", "true" if dflt else "false")
            for n, t, dflt in params)
        r = ("Some " + coq_name(ret)) if ret is not None else "None"
        body.append(f"   {{| sg_class := {coq_s(cls)}; sg_name := {coq_s(name)}; sg_params := [{ps}]; sg_ret := {r} |}}")
    L.append(";\n".join(body))
    L += ["  ].", "",
          "(* binary operator node of the parser -> dunder method looked up on the left operand (gen_magic) *)",
          "Definition op_dunder : list (string * string) :=", "  ["]
    L.append(";\n".join(f"   ({coq_s(a)}, {coq_s(b)})" for a, b in ops))
    L += ["  ].", "",
          f"Definition dunder_STR : string := {coq_s(consts['STR'])}.",
          f"Definition dunder_TRUTHY : string := {coq_s(consts['TRUTHY'])}.",
          f"Definition dunder_INIT : string := {coq_s(consts['INIT'])}.", "",
          "(* call_parameters rebuilds the expected parameter type from the looked-up classes: the nullable flag is lost *)",
          f"Definition call_params_strip_nullable : bool := {'true' if strips else 'false'}.", ""]
    print(stubs_tr.write_if_changed(OUT, "\n".join(L)))
    return 0


if __name__ == "__main__":
    sys.exit(main())
