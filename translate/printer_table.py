#!/usr/bin/env python3
"""Translator: src/generate/ast/mod.rs (to_py, operand)  ->  coq/gen/PrinterTable.v

Reads the per-constructor `format!` templates of the Python printer and the list of constructors that
`operand` parenthesises, and emits them as the Coq table `generated : table` interpreted by
model/CoreExpr.v.  The round-trip theorem applies to the generated table through
`table_ok generated = true`, which proofs/PrinterTableOk.v discharges by computation.

Exit status: 0 = written (prints `same`/`changed`), 3 = source no longer has a recognisable shape
(prints `untranslatable: <why>`; the committed table is left untouched).
"""
import hashlib, os, re, sys

REPO = os.environ.get("VERIF_REPO", "/repo")
SRC = os.path.join(REPO, "src/generate/ast/mod.rs")
OUT = os.path.join(os.path.dirname(os.path.abspath(__file__)), "..", "coq", "gen", "PrinterTable.v")

BINOPS = {"Add": "BAdd", "Sub": "BSub", "Mul": "BMul", "Div": "BDiv", "FDiv": "BFDiv", "Mod": "BMod",
          "Pow": "BPow", "BAnd": "BBAnd", "BOr": "BBOr", "BXOr": "BBXOr", "BLShift": "BBLShift",
          "BRShift": "BBRShift", "And": "BAnd", "Or": "BOr", "Ge": "BGe", "Geq": "BGeq", "Le": "BLe",
          "Leq": "BLeq", "Eq": "BEq", "Neq": "BNeq", "Is": "BIs", "IsN": "BIsN", "In": "BIn"}
UNOPS = {"AddU": "UAddU", "SubU": "USubU", "BOneCmpl": "UBOneCmpl", "Not": "UNot"}
# constructor -> (ckind, field order = child index)
KINDS = {}
for k, v in BINOPS.items():
    KINDS[k] = (f"KBinop {v}", ["left", "right"])
for k, v in UNOPS.items():
    KINDS[k] = (f"KUnop {v}", ["expr"])
KINDS.update({
    "ENum": ("KENum", ["num", "exp"]), "IsA": ("KIsA", ["left", "right"]), "Sqrt": ("KSqrt", ["expr"]),
    "Ternary": ("KTernary", ["cond", "then", "el"]), "FunctionCall": ("KCall", ["function", "args"]),
    "Index": ("KIndex", ["item", "range"]), "PropertyCall": ("KProp", ["object", "property"]),
    "Tuple": ("KTuple", ["elements"]), "List": ("KList", ["elements"]), "Set": ("KSet", ["elements"]),
})
# identity-printed literals and the hand-modelled lambda arm: checked by normalised source text
FIXED = {
    "Id": ("KId", "lit.clone()", "[PH 0 false]"),
    "Int": ("KInt", "int.clone()", "[PH 0 false]"),
    "Float": ("KFloat", "float.clone()", "[PH 0 false]"),
    "Str": ("KStr", 'format!("\\"{string}\\"")', "[PH 0 false]"),
    "Bool": ("KBoolLit", 'String::from(if*boolean{"True"}else{"False"})', "[PH 0 false]"),
    "None": ("KNoneLit", 'String::from("None")', "[PH 0 false]"),
    "AnonFun": ("KLambda",
                'format!("lambda{}:{}",ifargs.is_empty(){String::new()}else{format!("{}",comma_delimited(args,ind))},to_py(body,ind))',
                "[PT TLambda; PH 0 false; PT TColon; PH 1 false]"),
}
TOK = {"(": "TLPar", ")": "TRPar", "[": "TLBr", "]": "TRBr", "{": "TLCb", "}": "TRCb", ",": "TComma",
       ":": "TColon", ".": "TDot", "+": "TPlus", "-": "TMinus", "*": "TStar", "/": "TSlash",
       "//": "TDSlash", "%": "TPercent", "**": "TDStar", "&": "TAmp", "|": "TPipe", "^": "TCaret",
       "~": "TTilde", "<<": "TLShift", ">>": "TRShift", "<": "TLt", ">": "TGt", "<=": "TLe",
       ">=": "TGe", "==": "TEqEq", "!=": "TNe", "not": "TNot", "and": "TAnd", "or": "TOr",
       "is": "TIs", "in": "TIn", "if": "TIf", "else": "TElse", "lambda": "TLambda", "True": "TTrue",
       "False": "TFalse", "None": "TNone"}
TOK_RE = re.compile(r"\s*(\x00\d+\x00|\*\*|//|<<|>>|<=|>=|==|!=|[A-Za-z_][A-Za-z_0-9]*|\d+|[()\[\]{},:.+\-*/%&|^~<>])")


class Untranslatable(Exception):
    pass


def fn_body(src, name):
    m = re.search(r"\nfn %s\(" % name, src)
    if not m:
        raise Untranslatable(f"fn {name} not found")
    i = src.index("{", m.end())
    depth, j = 0, i
    while True:
        if src[j] == "{":
            depth += 1
        elif src[j] == "}":
            depth -= 1
            if depth == 0:
                return src[i + 1:j]
        j += 1


def arms(body):
    """Split the `match core {` of to_py into (constructor, pattern, arm text)."""
    m = re.search(r"match core \{", body)
    text = body[m.end():]
    starts = [x for x in re.finditer(r"\n        Core::(\w+)", text)]
    out = []
    for a, b in zip(starts, starts[1:] + [None]):
        chunk = text[a.start():b.start() if b else len(text)]
        arrow = chunk.index("=>")
        out.append((a.group(1), chunk[:arrow], chunk[arrow + 2:].strip().rstrip(",").strip()))
    return out


def split_args(s):
    parts, depth, cur, instr = [], 0, "", False
    i = 0
    while i < len(s):
        c = s[i]
        if instr:
            cur += c
            if c == "\\":
                cur += s[i + 1]; i += 1
            elif c == '"':
                instr = False
        elif c == '"':
            instr = True; cur += c
        elif c in "([{":
            depth += 1; cur += c
        elif c in ")]}":
            depth -= 1; cur += c
        elif c == "," and depth == 0:
            parts.append(cur.strip()); cur = ""
        else:
            cur += c
        i += 1
    if cur.strip():
        parts.append(cur.strip())
    return parts


def parse_format(arm):
    """arm text -> (format string, positional arg expressions)."""
    t = arm.strip()
    if t.startswith("{") and t.endswith("}"):
        t = t[1:-1].strip()
    m = re.match(r"format!\s*[\({]", t)
    if not m or t[-1] not in ")}":
        raise Untranslatable("arm is not a single format!: " + t[:60])
    inner = split_args(t[m.end():-1])
    fmt = inner[0]
    if not (fmt.startswith('"') and fmt.endswith('"')):
        raise Untranslatable("format string not literal")
    return fmt[1:-1], inner[1:]


def pieces(fmt, args, fields):
    holes, n = [], 0

    def hole(m):
        nonlocal n
        name = m.group(1)
        if name == "":
            if n >= len(args):
                raise Untranslatable("too few format arguments")
            a = re.sub(r"\s+", "", args[n]); n += 1
            mm = re.match(r"(operand|to_py|comma_delimited)\((\w+)(?:\.as_ref\(\))?,ind(?:\+1)?\)$", a)
            if not mm:
                raise Untranslatable("unrecognised hole expression " + a)
            fn, field = mm.groups()
        else:
            fn, field = "to_py", name  # inline capture of a String field
        if field not in fields:
            raise Untranslatable(f"unknown field {field}")
        holes.append((fields.index(field), fn == "operand"))
        return "\x00%d\x00" % (len(holes) - 1)

    # Rust format strings are read left to right: `{{` / `}}` are escapes, `{name?}` is a hole
    s, i = "", 0
    while i < len(fmt):
        if fmt.startswith("{{", i):
            s += "{"; i += 2
        elif fmt.startswith("}}", i):
            s += "}"; i += 2
        elif fmt[i] == "{":
            j = fmt.index("}", i)
            s += hole(re.match(r"(\w*)$", fmt[i + 1:j])); i = j + 1
        elif fmt.startswith('\\"', i):
            s += '"'; i += 2
        else:
            s += fmt[i]; i += 1
    out, pos = [], 0
    s = s.rstrip()
    while pos < len(s):
        m = TOK_RE.match(s, pos)
        if not m:
            raise Untranslatable("cannot tokenise template at " + repr(s[pos:pos + 10]))
        t = m.group(1); pos = m.end()
        if t.startswith("\x00"):
            i, w = holes[int(t.strip("\x00"))]
            out.append(f"PH {i} {'true' if w else 'false'}")
        elif t in TOK:
            out.append(f"PT {TOK[t]}")
        elif t[0].isdigit():
            out.append(f'PT (TNum "{t}"%string)')
        else:
            out.append(f'PT (TName "{t}"%string)')
    return "[" + "; ".join(out) + "]"


def translate(src):
    body = fn_body(src, "to_py")
    rows, seen = {}, set()
    for ctor, pat, arm in arms(body):
        if " if " in pat:      # guarded arms belong to constructors outside the expression model
            continue
        if ctor in FIXED:
            kind, want, row = FIXED[ctor]
            got = re.sub(r"\s+", "", arm)
            if got != want:
                raise Untranslatable(f"hand-modelled arm Core::{ctor} changed: {got[:80]}")
            rows[kind] = row; seen.add(ctor)
        elif ctor in KINDS:
            kind, fields = KINDS[ctor]
            fmt, args = parse_format(arm)
            rows[kind] = pieces(fmt, args, fields); seen.add(ctor)
    missing = (set(KINDS) | set(FIXED)) - seen
    if missing:
        raise Untranslatable("arms not found: " + ", ".join(sorted(missing)))
    ob = fn_body(src, "operand")
    m = re.search(r"match core \{(.*?)=>\s*format!\(\"\(\{\}\)\",\s*to_py\(core,\s*ind\)\)", ob, re.S)
    if not m:
        raise Untranslatable("operand: parenthesising arm not found")
    comp = re.findall(r"Core::(\w+)", m.group(1))
    rest = ob[m.end():]
    if not re.search(r"_\s*=>\s*to_py\(core,\s*ind\)", rest):
        raise Untranslatable("operand: default arm changed")
    ctor_kind = {c: k for c, (k, _) in KINDS.items()}
    ctor_kind.update({c: k for c, (k, _, _) in FIXED.items()})
    compound = sorted(ctor_kind[c] for c in comp if c in ctor_kind)
    outside = sorted(c for c in comp if c not in ctor_kind)
    return rows, compound, outside


def render(rows, compound, outside, digest):
    order = ["KId", "KInt", "KFloat", "KStr", "KBoolLit", "KNoneLit", "KENum"] \
        + [f"KBinop {v}" for v in BINOPS.values()] + [f"KUnop {v}" for v in UNOPS.values()] \
        + ["KIsA", "KSqrt", "KTernary", "KLambda", "KCall", "KIndex", "KProp", "KTuple", "KList", "KSet"]
    L = ["(* GENERATED by translate/printer_table.py from src/generate/ast/mod.rs -- do not edit. *)",
         f"(* source digest: {digest} *)",
         f"(* constructors parenthesised by operand() that are outside the expression model: {', '.join(outside) or 'none'} *)",
         "From Coq Require Import List String.", "From MambaModel Require Import model.PyExpr model.CoreExpr.",
         "Import ListNotations.", "", "Definition gen_tpl (k : ckind) : list piece :=", "  match k with"]
    for k in order:
        L.append(f"  | {k} => {rows[k]}")
    L += ["  end.", "", "Definition gen_compound (k : ckind) : bool :=", "  match k with"]
    for k in compound:
        L.append(f"  | {k} => true")
    L += ["  | _ => false", "  end.", "",
          "Definition generated : table := {| tpl := gen_tpl; compound := gen_compound |}.", ""]
    return "\n".join(L)


def main():
    src = open(SRC).read()
    try:
        rows, compound, outside = translate(src)
    except Untranslatable as e:
        print(f"untranslatable: {e}")
        return 3
    digest = hashlib.sha256((fn_body(src, "to_py") + fn_body(src, "operand")).encode()).hexdigest()[:16]
    text = render(rows, compound, outside, digest)
    strip = lambda t: re.sub(r"\(\* source digest: \w+ \*\)\n", "", t)
    old = open(OUT).read() if os.path.exists(OUT) else None
    if old is not None and strip(old) == strip(text):
        print("same")
        return 0
    os.makedirs(os.path.dirname(OUT), exist_ok=True)
    open(OUT, "w").write(text)
    print("changed" if old is not None else "created")
    return 0


if __name__ == "__main__":
    sys.exit(main())
