#!/usr/bin/env python3
"""Translator: the built-in class table of the checker  ->  coq/gen/Stubs.v

Reads, on every run,
  src/check/resource/primitive/*.py, src/check/resource/std/*.py   class name, Generic[..] parameters, parents
  src/check/context/clss/python.rs   python_to_concrete + the python-side constants  (int -> Int ...)
  src/check/context/clss/mod.rs      the Mamba-side constants
  src/check/context/clss/generic.rs  `impl Any for GenericClass` (the class `Any` of Context::default())
  src/check/context/clss/mod.rs      the "contender" condition of has_parent -> coq/gen/TypesConf.v
and mirrors `GenericClass::try_from(&Classdef)` (clss/python.rs): the class name and every parameter of
`Generic[..]` go through python_to_concrete, parents are the positional arguments except `Generic[..]`,
a parent `base[args]` becomes StringName::new(concrete(base), args).

python3's `ast` parses the stub files; two of them use words that are keywords in Python 3 (`class None`,
parameter `in`), so the class headers are located textually and only the header expression is given to `ast`;
when the whole file does parse, the two readings are compared.

Exit 0 = written (`same`/`changed`/`created`), 3 = `untranslatable: why` (committed table kept)."""
import ast, hashlib, os, re, sys

REPO = os.environ.get("VERIF_REPO", "/repo")
OUT = os.path.join(os.path.dirname(os.path.abspath(__file__)), "..", "coq", "gen", "Stubs.v")
RES = "src/check/resource"


class Untranslatable(Exception):
    pass


def consts(text):
    return dict(re.findall(r'pub const (\w+): &str = "([^"]*)";', text))


def name_table(repo):
    """python name -> Mamba name, from python_to_concrete."""
    py = open(os.path.join(repo, "src/check/context/clss/python.rs")).read()
    mod = open(os.path.join(repo, "src/check/context/clss/mod.rs")).read()
    pyc, mc = consts(py), consts(mod)
    m = re.search(r"pub fn python_to_concrete\(name: &str\) -> String \{\s*match name \{(.*?)\n    \}\n\}", py, re.S)
    if not m:
        raise Untranslatable("python_to_concrete not found")
    table, default = {}, False
    for line in m.group(1).splitlines():
        line = line.strip()
        if not line:
            continue
        mm = re.match(r"(\w+) => String::from\(clss::(\w+)\),$", line)
        if mm:
            if mm.group(1) not in pyc or mm.group(2) not in mc:
                raise Untranslatable("unknown constant in " + line)
            table[pyc[mm.group(1)]] = mc[mm.group(2)]
        elif line == "other => String::from(other),":
            default = True
        else:
            raise Untranslatable("python_to_concrete line: " + line)
    if not default:
        raise Untranslatable("python_to_concrete default arm changed")
    return table, m.group(0), mc


def any_class(repo, mc):
    g = open(os.path.join(repo, "src/check/context/clss/generic.rs")).read()
    m = re.search(r"impl Any for GenericClass \{.*?\n\}\n", g, re.S)
    if not m:
        raise Untranslatable("impl Any for GenericClass not found")
    body = m.group(0)
    if not re.search(r"name: StringName::new\(clss::ANY, &\[\]\)", body) or \
       not re.search(r"parents: Default::default\(\)", body):
        raise Untranslatable("GenericClass::any() no longer `Any` without generics and parents")
    ctx = open(os.path.join(repo, "src/check/context/mod.rs")).read()
    if "classes.insert(GenericClass::any());" not in ctx:
        raise Untranslatable("Context::default() no longer inserts GenericClass::any()")
    return mc["ANY"], body


def contender_shape(repo):
    """The condition under which HasParent<&StringName> compares generic arguments pairwise.
    Two shapes are recognised: Tuple against Tuple of ANY length (zip truncates; D30), or only of equal length."""
    src = open(os.path.join(repo, "src/check/context/clss/mod.rs")).read()
    m = re.search(r"impl HasParent<&StringName> for Class \{.*?\} else if (.*?)\s*\{\s*// Contender!", src, re.S)
    if not m:
        raise Untranslatable("has_parent: contender condition not found")
    cond = re.sub(r"\s+", " ", m.group(1)).strip()
    same = "(self.name.name == *other.name && self.name.generics.len() == other.generics.len())"
    if cond == "(self.name.name == TUPLE && (other.name == TUPLE || other.name == COLLECTION)) || " + same:
        return True, cond
    if cond == "(self.name.name == TUPLE && other.name == COLLECTION) || " + same:
        return False, cond
    raise Untranslatable("has_parent: contender condition has an unknown shape: " + cond)


CONF = os.path.join(os.path.dirname(os.path.abspath(__file__)), "..", "coq", "gen", "TypesConf.v")


def write_if_changed(path, text):
    old = open(path).read() if os.path.exists(path) else None
    if old == text:
        return "same"
    os.makedirs(os.path.dirname(path), exist_ok=True)
    open(path, "w").write(text)
    return "changed" if old is not None else "created"


HEADER = re.compile(r"^class\s+(\w+)\s*(?:\((.*)\))?\s*:", re.M)


def headers(text):
    """[(python class name, [base expression ast])] from the class header lines."""
    out = []
    for m in HEADER.finditer(text):
        bases = []
        if m.group(2) and m.group(2).strip():
            try:
                call = ast.parse("f(" + m.group(2) + ")", mode="eval").body
            except SyntaxError as e:
                raise Untranslatable(f"class header of {m.group(1)}: {e}")
            if call.keywords:
                raise Untranslatable(f"keyword argument in class header of {m.group(1)}")
            bases = call.args
        out.append((m.group(1), bases))
    return out


def whole_file(text):
    try:
        tree = ast.parse(text)
    except SyntaxError:
        return None
    return [(n.name, n.bases) for n in tree.body if isinstance(n, ast.ClassDef)]


def sub_elems(node):
    s = node.slice
    if isinstance(s, ast.Tuple):
        return list(s.elts)
    return [s]


def conc(table, n):
    return table.get(n, n)


def ty_of(table, e):
    """TrueName::from(&Expression) -> (nullable, name, [generic names]) ; a Name is a list of these."""
    if isinstance(e, ast.Name):
        return ("false", conc(table, e.id), [])
    if isinstance(e, ast.Constant) and e.value is None:
        return ("false", conc(table, "None"), [])
    if isinstance(e, ast.Subscript) and isinstance(e.value, ast.Name):
        if e.value.id == "Union":
            raise Untranslatable("Union in a parent position")
        # generics: exprs.iter().map(to_ty_name) -> Name::from(TrueName)
        return ("false", conc(table, e.value.id), [[ty_of(table, x)] for x in sub_elems(e)])
    raise Untranslatable("parent expression " + ast.dump(e))


def classes_of(table, text, where):
    hs = headers(text)
    wf = whole_file(text)
    if wf is not None and [(n, [ast.dump(b) for b in bs]) for n, bs in wf] != \
            [(n, [ast.dump(b) for b in bs]) for n, bs in hs]:
        raise Untranslatable(f"{where}: header scan and ast.parse disagree")
    out = []
    for pyname, bases in hs:
        params, parents = [], []
        for b in bases:
            if isinstance(b, ast.Subscript) and isinstance(b.value, ast.Name) and b.value.id == "Generic":
                for x in sub_elems(b):
                    if isinstance(x, ast.Name):          # GenericParameters::from keeps simple names only
                        params.append(conc(table, x.id))
                continue
            t = ty_of(table, b)
            if t[1] == "Generic":                        # .filter(|parent| name != "Generic")
                continue
            parents.append(t)
        out.append((conc(table, pyname), params, parents))
    return out


def coq_s(s):
    return '"' + s.replace('"', '""') + '"'


def coq_ty(t):
    n, s, g = t
    return f"TN {n} {coq_s(s)} [" + "; ".join("[" + "; ".join(coq_ty(x) for x in a) + "]" for a in g) + "]"


def main():
    try:
        table, region, mc = name_table(REPO)
        zips, cond = contender_shape(REPO)
        any_name, any_region = any_class(REPO, mc)
        h = hashlib.sha256()
        h.update(region.encode()); h.update(any_region.encode())
        rows = [(any_name, [], [])]
        for d in ("primitive", "std"):
            dd = os.path.join(REPO, RES, d)
            for f in sorted(os.listdir(dd)):
                p = os.path.join(dd, f)
                if not os.path.isfile(p):
                    continue
                text = open(p).read().replace("\r\n", "\n")
                h.update(f.encode()); h.update(text.encode())
                for r in classes_of(table, text, f"{d}/{f}"):
                    # HashSet<GenericClass>: equal names (name + generics) collapse
                    if not any(r[0] == o[0] and r[1] == o[1] for o in rows):
                        rows.append(r)
        for k in ("TUPLE", "COLLECTION", "ANY", "NONE"):
            if k not in mc:
                raise Untranslatable("constant " + k + " missing")
    except (Untranslatable, OSError) as e:
        print(f"untranslatable: {e}")
        return 3
    L = ["(* GENERATED by translate/stubs.py from src/check/resource/{primitive,std}/*.py, "
         "src/check/context/clss/{python,mod,generic}.rs -- do not edit. *)",
         "From Coq Require Import List String.", "From MambaModel Require Import model.Types.",
         "Import ListNotations.", "Local Open Scope string_scope.", "",
         f"Definition stubs_digest : string := {coq_s(h.hexdigest())}.", "",
         "(* constants of src/check/context/clss/mod.rs the model refers to *)",
         f"Definition src_TUPLE : string := {coq_s(mc['TUPLE'])}.",
         f"Definition src_COLLECTION : string := {coq_s(mc['COLLECTION'])}.",
         f"Definition src_ANY : string := {coq_s(mc['ANY'])}.",
         f"Definition src_NONE : string := {coq_s(mc['NONE'])}.", "",
         "Definition generated : ctx :=", "  ["]
    body = []
    for name, params, parents in rows:
        gens = "[" + "; ".join(f"[TN false {coq_s(p)} []]" for p in params) + "]"
        ps = "[" + "; ".join(coq_ty(t) for t in parents) + "]"
        body.append(f"   {{| cl_name := {coq_s(name)}; cl_gen := {gens}; cl_parents := {ps} |}}")
    L.append(";\n".join(body))
    L += ["  ].", "",
          "(* python name -> Mamba name (python_to_concrete) *)",
          "Definition py_names : list (string * string) :=", "  ["]
    L.append(";\n".join(f"   ({coq_s(k)}, {coq_s(v)})" for k, v in table.items()))
    L += ["  ].", ""]
    text = "\n".join(L)
    conf = "\n".join([
        "(* GENERATED by translate/stubs.py from src/check/context/clss/mod.rs (HasParent<&StringName> for Class) "
        "-- do not edit. *)",
        "(* condition read: " + cond.replace("*)", "* )") + " *)",
        "(* true: a Tuple is compared element-wise with a Tuple of ANY length (zip drops the surplus);",
        "   false: only with a Tuple of the same length *)",
        f"Definition tuple_zip_truncates : bool := {'true' if zips else 'false'}.", ""])
    s1, s2 = write_if_changed(CONF, conf), write_if_changed(OUT, text)
    print("same" if (s1, s2) == ("same", "same") else ("created" if "created" in (s1, s2) else "changed"))
    return 0


if __name__ == "__main__":
    sys.exit(main())
